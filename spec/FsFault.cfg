SPECIFICATION Spec
CONSTANTS
  MaxFiles = 2
INVARIANTS NoLeak Surfaced NoSilentInspection Emit
CHECK_DEADLOCK FALSE
