------------------------------ MODULE MemoConc ------------------------------
(***************************************************************************)
(* The concurrent protocol of the process-wide pattern cache               *)
(* (internal/memoize/sync.go): Do with its lock-free fast path, the        *)
(* per-key singleflight slow path, the post-registration of callers whose  *)
(* execution was deduplicated, and Release walking the cache under the     *)
(* per-entry mutex.  One label per critical section of the code.           *)
(*                                                                         *)
(* Builders (WAFs being constructed) call Do(k) for their keys; Closers    *)
(* call Release(owner) for a WAF built earlier.  C06: no deadlock, an      *)
(* entry reachable from the cache is never marked deleted outside          *)
(* Release's critical section, Do returns the value of its own key, and    *)
(* after Do returned the caller either owns the live entry or no live      *)
(* entry exists (the code's own weaker guarantee).                         *)
(***************************************************************************)
EXTENDS Integers, Sequences, FiniteSets, TLC

CONSTANTS Builders,   \* set of builder process ids (= owner ids of the WAFs being constructed)
          Closers,    \* set of closer process ids: each runs Release(Old)
          Keys,       \* the keys every builder asks for
          PreKeys,    \* keys already cached, owned by the WAF Old that is being closed meanwhile
          Old         \* owner id of that earlier WAF
ASSUME PreKeys \subseteq Keys /\ Old \notin Builders

NoEntry == 0
Free == 0      \* nobody holds the lock / the flight

(* --algorithm MemoConc
variables
  \* entries 1..|PreKeys| exist already (owned by Old), the rest are created by the builders
  preSeq = CHOOSE q \in [1..Cardinality(PreKeys) -> PreKeys] : \A a, b \in DOMAIN q : a # b => q[a] # q[b],
  entries = [e \in 1..(Cardinality(Keys) * (Cardinality(Builders) + 1)) |->
               IF e <= Cardinality(PreKeys) THEN [key |-> preSeq[e], owners |-> {Old}, deleted |-> FALSE, used |-> TRUE]
               ELSE [key |-> "", owners |-> {}, deleted |-> FALSE, used |-> FALSE]],
  nextE = Cardinality(PreKeys) + 1,
  cache = [k \in Keys |-> IF k \in PreKeys THEN CHOOSE e \in 1..Cardinality(PreKeys) : preSeq[e] = k ELSE NoEntry],   \* sync.Map: key -> entry id
  emu = [e \in 1..(Cardinality(Keys) * (Cardinality(Builders) + 1)) |-> Free],   \* entry mutex holder
  flight = [k \in Keys |-> Free],        \* singleflight: who executes for key k
  flightVal = [k \in Keys |-> NoEntry],    \* result shared with deduplicated callers
  returned = [b \in Builders |-> [k \in Keys |-> NoEntry]],   \* what Do(k) returned to builder b (entry id whose value it got)
  doneB = [b \in Builders |-> FALSE];

define
  \* an entry reachable from the cache is not marked deleted unless Release holds its mutex right now
  NoDeletedInCache == \A k \in Keys : cache[k] # NoEntry => (~entries[cache[k]].deleted \/ emu[cache[k]] # Free)
  \* Do returns the value stored under its own key
  DoReturnsOwnKey == \A b \in Builders : \A k \in Keys : returned[b][k] # NoEntry => entries[returned[b][k]].key = k
  Quiescent == \A p \in Builders \cup Closers : pc[p] = "Done"
  \* when everything has finished: the entry a builder got its value from is either gone or owned by it
  ValueEntryOwnedOrGone ==
     Quiescent => \A b \in Builders : \A k \in Keys :
                     returned[b][k] # NoEntry /\ ~entries[returned[b][k]].deleted => b \in entries[returned[b][k]].owners
  \* ... and nothing stays cached on behalf of the closed WAF or of nobody (no leak)
  NoLeak ==
     Quiescent => \A k \in Keys : cache[k] # NoEntry =>
                     (entries[cache[k]].owners # {} /\ (Closers # {} => Old \notin entries[cache[k]].owners) /\ ~entries[cache[k]].deleted)
end define;

\* every builder calls Do for every key, in some order (here: fixed order, interleaved with the others)
process builder \in Builders
variables todo = Keys, kk = "", ee = NoEntry, mine = FALSE, leader = FALSE;
begin
  next:
    while todo # {} do
      kk := CHOOSE x \in todo : TRUE;
      todo := todo \ {kk};
  load:                                   \* fast path: cache.Load(key)
      ee := cache[kk];
      if ee # NoEntry then
  fastLock:                               \* addOwner: ee.mu.Lock()
        await emu[ee] = Free;
        emu[ee] := self;
  fastOwn:
        if ~entries[ee].deleted then
          entries[ee].owners := entries[ee].owners \cup {self};
          emu[ee] := Free;
          returned[self][kk] := ee;
          goto next;
        else
          emu[ee] := Free;               \* deleted concurrently: slow path
        end if;
      end if;
  flightEnter:                            \* group.Do(key, ...)
      if flight[kk] = Free then
        flight[kk] := self; leader := TRUE;
      else
        leader := FALSE;
      end if;
  slow:
      if leader then
  recheck:                                \* double-check after acquiring singleflight
        ee := cache[kk];
        if ee # NoEntry then
  recheckLock:
          await emu[ee] = Free;
          emu[ee] := self;
  recheckOwn:
          if ~entries[ee].deleted then
            entries[ee].owners := entries[ee].owners \cup {self};
            emu[ee] := Free;
            flightVal[kk] := ee;
            goto flightLeave;
          else
            emu[ee] := Free;
          end if;
        end if;
  compile:                                \* fn() ; cache.Store(key, entry{owners:{me}})
        entries[nextE] := [key |-> kk, owners |-> {self}, deleted |-> FALSE, used |-> TRUE];
        cache[kk] := nextE;
        flightVal[kk] := nextE;
        nextE := nextE + 1;
  flightLeave:
        flight[kk] := Free;
        ee := flightVal[kk];
      else
  waitLeader:                             \* deduplicated caller waits for the leader's result
        await flight[kk] = Free /\ flightVal[kk] # NoEntry;
        ee := flightVal[kk];
      end if;
  postLoad:                               \* ensure this caller is registered as an owner
      returned[self][kk] := ee;
      ee := cache[kk];
      if ee # NoEntry then
  postLock:
        await emu[ee] = Free;
        emu[ee] := self;
  postOwn:
        if ~entries[ee].deleted then
          entries[ee].owners := entries[ee].owners \cup {self};
        end if;
        emu[ee] := Free;
      end if;
    end while;
  fin:
    doneB[self] := TRUE;
end process;

\* Release(owner): cache.Range -> per entry: lock, delete owner, maybe mark deleted + cache.Delete, unlock
process closer \in Closers
variables rk = Keys, ck = "", ce = NoEntry, orphan = FALSE;
begin
  rnext:
    while rk # {} do
      ck := CHOOSE x \in rk : TRUE;
      rk := rk \ {ck};
  rload:
      ce := cache[ck];
      if ce # NoEntry then
  rlock:
        await emu[ce] = Free;
        emu[ce] := self;
  rdel:
        orphan := (entries[ce].owners \ {Old} = {});
        entries[ce] := [entries[ce] EXCEPT !.owners = @ \ {Old},
                                           !.deleted = (@ \/ (entries[ce].owners \ {Old} = {}))];
  rcacheDel:
        if orphan then
          cache[ck] := NoEntry;           \* sync.Map.Delete deletes by key, whatever is stored there
        end if;
  runlock:
        emu[ce] := Free;
      end if;
    end while;
end process;

end algorithm; *)
\* BEGIN TRANSLATION (chksum(pcal) = "f63fae56" /\ chksum(tla) = "7680c740")
VARIABLES pc, preSeq, entries, nextE, cache, emu, flight, flightVal, returned, 
          doneB

(* define statement *)
NoDeletedInCache == \A k \in Keys : cache[k] # NoEntry => (~entries[cache[k]].deleted \/ emu[cache[k]] # Free)

DoReturnsOwnKey == \A b \in Builders : \A k \in Keys : returned[b][k] # NoEntry => entries[returned[b][k]].key = k
Quiescent == \A p \in Builders \cup Closers : pc[p] = "Done"

ValueEntryOwnedOrGone ==
   Quiescent => \A b \in Builders : \A k \in Keys :
                   returned[b][k] # NoEntry /\ ~entries[returned[b][k]].deleted => b \in entries[returned[b][k]].owners

NoLeak ==
   Quiescent => \A k \in Keys : cache[k] # NoEntry =>
                   (entries[cache[k]].owners # {} /\ (Closers # {} => Old \notin entries[cache[k]].owners) /\ ~entries[cache[k]].deleted)

VARIABLES todo, kk, ee, mine, leader, rk, ck, ce, orphan

vars == << pc, preSeq, entries, nextE, cache, emu, flight, flightVal, 
           returned, doneB, todo, kk, ee, mine, leader, rk, ck, ce, orphan >>

ProcSet == (Builders) \cup (Closers)

Init == (* Global variables *)
        /\ preSeq = (CHOOSE q \in [1..Cardinality(PreKeys) -> PreKeys] : \A a, b \in DOMAIN q : a # b => q[a] # q[b])
        /\ entries = [e \in 1..(Cardinality(Keys) * (Cardinality(Builders) + 1)) |->
                        IF e <= Cardinality(PreKeys) THEN [key |-> preSeq[e], owners |-> {Old}, deleted |-> FALSE, used |-> TRUE]
                        ELSE [key |-> "", owners |-> {}, deleted |-> FALSE, used |-> FALSE]]
        /\ nextE = Cardinality(PreKeys) + 1
        /\ cache = [k \in Keys |-> IF k \in PreKeys THEN CHOOSE e \in 1..Cardinality(PreKeys) : preSeq[e] = k ELSE NoEntry]
        /\ emu = [e \in 1..(Cardinality(Keys) * (Cardinality(Builders) + 1)) |-> Free]
        /\ flight = [k \in Keys |-> Free]
        /\ flightVal = [k \in Keys |-> NoEntry]
        /\ returned = [b \in Builders |-> [k \in Keys |-> NoEntry]]
        /\ doneB = [b \in Builders |-> FALSE]
        (* Process builder *)
        /\ todo = [self \in Builders |-> Keys]
        /\ kk = [self \in Builders |-> ""]
        /\ ee = [self \in Builders |-> NoEntry]
        /\ mine = [self \in Builders |-> FALSE]
        /\ leader = [self \in Builders |-> FALSE]
        (* Process closer *)
        /\ rk = [self \in Closers |-> Keys]
        /\ ck = [self \in Closers |-> ""]
        /\ ce = [self \in Closers |-> NoEntry]
        /\ orphan = [self \in Closers |-> FALSE]
        /\ pc = [self \in ProcSet |-> CASE self \in Builders -> "next"
                                        [] self \in Closers -> "rnext"]

next(self) == /\ pc[self] = "next"
              /\ IF todo[self] # {}
                    THEN /\ kk' = [kk EXCEPT ![self] = CHOOSE x \in todo[self] : TRUE]
                         /\ todo' = [todo EXCEPT ![self] = todo[self] \ {kk'[self]}]
                         /\ pc' = [pc EXCEPT ![self] = "load"]
                    ELSE /\ pc' = [pc EXCEPT ![self] = "fin"]
                         /\ UNCHANGED << todo, kk >>
              /\ UNCHANGED << preSeq, entries, nextE, cache, emu, flight, 
                              flightVal, returned, doneB, ee, mine, leader, rk, 
                              ck, ce, orphan >>

load(self) == /\ pc[self] = "load"
              /\ ee' = [ee EXCEPT ![self] = cache[kk[self]]]
              /\ IF ee'[self] # NoEntry
                    THEN /\ pc' = [pc EXCEPT ![self] = "fastLock"]
                    ELSE /\ pc' = [pc EXCEPT ![self] = "flightEnter"]
              /\ UNCHANGED << preSeq, entries, nextE, cache, emu, flight, 
                              flightVal, returned, doneB, todo, kk, mine, 
                              leader, rk, ck, ce, orphan >>

fastLock(self) == /\ pc[self] = "fastLock"
                  /\ emu[ee[self]] = Free
                  /\ emu' = [emu EXCEPT ![ee[self]] = self]
                  /\ pc' = [pc EXCEPT ![self] = "fastOwn"]
                  /\ UNCHANGED << preSeq, entries, nextE, cache, flight, 
                                  flightVal, returned, doneB, todo, kk, ee, 
                                  mine, leader, rk, ck, ce, orphan >>

fastOwn(self) == /\ pc[self] = "fastOwn"
                 /\ IF ~entries[ee[self]].deleted
                       THEN /\ entries' = [entries EXCEPT ![ee[self]].owners = entries[ee[self]].owners \cup {self}]
                            /\ emu' = [emu EXCEPT ![ee[self]] = Free]
                            /\ returned' = [returned EXCEPT ![self][kk[self]] = ee[self]]
                            /\ pc' = [pc EXCEPT ![self] = "next"]
                       ELSE /\ emu' = [emu EXCEPT ![ee[self]] = Free]
                            /\ pc' = [pc EXCEPT ![self] = "flightEnter"]
                            /\ UNCHANGED << entries, returned >>
                 /\ UNCHANGED << preSeq, nextE, cache, flight, flightVal, 
                                 doneB, todo, kk, ee, mine, leader, rk, ck, ce, 
                                 orphan >>

flightEnter(self) == /\ pc[self] = "flightEnter"
                     /\ IF flight[kk[self]] = Free
                           THEN /\ flight' = [flight EXCEPT ![kk[self]] = self]
                                /\ leader' = [leader EXCEPT ![self] = TRUE]
                           ELSE /\ leader' = [leader EXCEPT ![self] = FALSE]
                                /\ UNCHANGED flight
                     /\ pc' = [pc EXCEPT ![self] = "slow"]
                     /\ UNCHANGED << preSeq, entries, nextE, cache, emu, 
                                     flightVal, returned, doneB, todo, kk, ee, 
                                     mine, rk, ck, ce, orphan >>

slow(self) == /\ pc[self] = "slow"
              /\ IF leader[self]
                    THEN /\ pc' = [pc EXCEPT ![self] = "recheck"]
                    ELSE /\ pc' = [pc EXCEPT ![self] = "waitLeader"]
              /\ UNCHANGED << preSeq, entries, nextE, cache, emu, flight, 
                              flightVal, returned, doneB, todo, kk, ee, mine, 
                              leader, rk, ck, ce, orphan >>

recheck(self) == /\ pc[self] = "recheck"
                 /\ ee' = [ee EXCEPT ![self] = cache[kk[self]]]
                 /\ IF ee'[self] # NoEntry
                       THEN /\ pc' = [pc EXCEPT ![self] = "recheckLock"]
                       ELSE /\ pc' = [pc EXCEPT ![self] = "compile"]
                 /\ UNCHANGED << preSeq, entries, nextE, cache, emu, flight, 
                                 flightVal, returned, doneB, todo, kk, mine, 
                                 leader, rk, ck, ce, orphan >>

recheckLock(self) == /\ pc[self] = "recheckLock"
                     /\ emu[ee[self]] = Free
                     /\ emu' = [emu EXCEPT ![ee[self]] = self]
                     /\ pc' = [pc EXCEPT ![self] = "recheckOwn"]
                     /\ UNCHANGED << preSeq, entries, nextE, cache, flight, 
                                     flightVal, returned, doneB, todo, kk, ee, 
                                     mine, leader, rk, ck, ce, orphan >>

recheckOwn(self) == /\ pc[self] = "recheckOwn"
                    /\ IF ~entries[ee[self]].deleted
                          THEN /\ entries' = [entries EXCEPT ![ee[self]].owners = entries[ee[self]].owners \cup {self}]
                               /\ emu' = [emu EXCEPT ![ee[self]] = Free]
                               /\ flightVal' = [flightVal EXCEPT ![kk[self]] = ee[self]]
                               /\ pc' = [pc EXCEPT ![self] = "flightLeave"]
                          ELSE /\ emu' = [emu EXCEPT ![ee[self]] = Free]
                               /\ pc' = [pc EXCEPT ![self] = "compile"]
                               /\ UNCHANGED << entries, flightVal >>
                    /\ UNCHANGED << preSeq, nextE, cache, flight, returned, 
                                    doneB, todo, kk, ee, mine, leader, rk, ck, 
                                    ce, orphan >>

compile(self) == /\ pc[self] = "compile"
                 /\ entries' = [entries EXCEPT ![nextE] = [key |-> kk[self], owners |-> {self}, deleted |-> FALSE, used |-> TRUE]]
                 /\ cache' = [cache EXCEPT ![kk[self]] = nextE]
                 /\ flightVal' = [flightVal EXCEPT ![kk[self]] = nextE]
                 /\ nextE' = nextE + 1
                 /\ pc' = [pc EXCEPT ![self] = "flightLeave"]
                 /\ UNCHANGED << preSeq, emu, flight, returned, doneB, todo, 
                                 kk, ee, mine, leader, rk, ck, ce, orphan >>

flightLeave(self) == /\ pc[self] = "flightLeave"
                     /\ flight' = [flight EXCEPT ![kk[self]] = Free]
                     /\ ee' = [ee EXCEPT ![self] = flightVal[kk[self]]]
                     /\ pc' = [pc EXCEPT ![self] = "postLoad"]
                     /\ UNCHANGED << preSeq, entries, nextE, cache, emu, 
                                     flightVal, returned, doneB, todo, kk, 
                                     mine, leader, rk, ck, ce, orphan >>

waitLeader(self) == /\ pc[self] = "waitLeader"
                    /\ flight[kk[self]] = Free /\ flightVal[kk[self]] # NoEntry
                    /\ ee' = [ee EXCEPT ![self] = flightVal[kk[self]]]
                    /\ pc' = [pc EXCEPT ![self] = "postLoad"]
                    /\ UNCHANGED << preSeq, entries, nextE, cache, emu, flight, 
                                    flightVal, returned, doneB, todo, kk, mine, 
                                    leader, rk, ck, ce, orphan >>

postLoad(self) == /\ pc[self] = "postLoad"
                  /\ returned' = [returned EXCEPT ![self][kk[self]] = ee[self]]
                  /\ ee' = [ee EXCEPT ![self] = cache[kk[self]]]
                  /\ IF ee'[self] # NoEntry
                        THEN /\ pc' = [pc EXCEPT ![self] = "postLock"]
                        ELSE /\ pc' = [pc EXCEPT ![self] = "next"]
                  /\ UNCHANGED << preSeq, entries, nextE, cache, emu, flight, 
                                  flightVal, doneB, todo, kk, mine, leader, rk, 
                                  ck, ce, orphan >>

postLock(self) == /\ pc[self] = "postLock"
                  /\ emu[ee[self]] = Free
                  /\ emu' = [emu EXCEPT ![ee[self]] = self]
                  /\ pc' = [pc EXCEPT ![self] = "postOwn"]
                  /\ UNCHANGED << preSeq, entries, nextE, cache, flight, 
                                  flightVal, returned, doneB, todo, kk, ee, 
                                  mine, leader, rk, ck, ce, orphan >>

postOwn(self) == /\ pc[self] = "postOwn"
                 /\ IF ~entries[ee[self]].deleted
                       THEN /\ entries' = [entries EXCEPT ![ee[self]].owners = entries[ee[self]].owners \cup {self}]
                       ELSE /\ TRUE
                            /\ UNCHANGED entries
                 /\ emu' = [emu EXCEPT ![ee[self]] = Free]
                 /\ pc' = [pc EXCEPT ![self] = "next"]
                 /\ UNCHANGED << preSeq, nextE, cache, flight, flightVal, 
                                 returned, doneB, todo, kk, ee, mine, leader, 
                                 rk, ck, ce, orphan >>

fin(self) == /\ pc[self] = "fin"
             /\ doneB' = [doneB EXCEPT ![self] = TRUE]
             /\ pc' = [pc EXCEPT ![self] = "Done"]
             /\ UNCHANGED << preSeq, entries, nextE, cache, emu, flight, 
                             flightVal, returned, todo, kk, ee, mine, leader, 
                             rk, ck, ce, orphan >>

builder(self) == next(self) \/ load(self) \/ fastLock(self)
                    \/ fastOwn(self) \/ flightEnter(self) \/ slow(self)
                    \/ recheck(self) \/ recheckLock(self)
                    \/ recheckOwn(self) \/ compile(self)
                    \/ flightLeave(self) \/ waitLeader(self)
                    \/ postLoad(self) \/ postLock(self) \/ postOwn(self)
                    \/ fin(self)

rnext(self) == /\ pc[self] = "rnext"
               /\ IF rk[self] # {}
                     THEN /\ ck' = [ck EXCEPT ![self] = CHOOSE x \in rk[self] : TRUE]
                          /\ rk' = [rk EXCEPT ![self] = rk[self] \ {ck'[self]}]
                          /\ pc' = [pc EXCEPT ![self] = "rload"]
                     ELSE /\ pc' = [pc EXCEPT ![self] = "Done"]
                          /\ UNCHANGED << rk, ck >>
               /\ UNCHANGED << preSeq, entries, nextE, cache, emu, flight, 
                               flightVal, returned, doneB, todo, kk, ee, mine, 
                               leader, ce, orphan >>

rload(self) == /\ pc[self] = "rload"
               /\ ce' = [ce EXCEPT ![self] = cache[ck[self]]]
               /\ IF ce'[self] # NoEntry
                     THEN /\ pc' = [pc EXCEPT ![self] = "rlock"]
                     ELSE /\ pc' = [pc EXCEPT ![self] = "rnext"]
               /\ UNCHANGED << preSeq, entries, nextE, cache, emu, flight, 
                               flightVal, returned, doneB, todo, kk, ee, mine, 
                               leader, rk, ck, orphan >>

rlock(self) == /\ pc[self] = "rlock"
               /\ emu[ce[self]] = Free
               /\ emu' = [emu EXCEPT ![ce[self]] = self]
               /\ pc' = [pc EXCEPT ![self] = "rdel"]
               /\ UNCHANGED << preSeq, entries, nextE, cache, flight, 
                               flightVal, returned, doneB, todo, kk, ee, mine, 
                               leader, rk, ck, ce, orphan >>

rdel(self) == /\ pc[self] = "rdel"
              /\ orphan' = [orphan EXCEPT ![self] = (entries[ce[self]].owners \ {Old} = {})]
              /\ entries' = [entries EXCEPT ![ce[self]] = [entries[ce[self]] EXCEPT !.owners = @ \ {Old},
                                                                                    !.deleted = (@ \/ (entries[ce[self]].owners \ {Old} = {}))]]
              /\ pc' = [pc EXCEPT ![self] = "rcacheDel"]
              /\ UNCHANGED << preSeq, nextE, cache, emu, flight, flightVal, 
                              returned, doneB, todo, kk, ee, mine, leader, rk, 
                              ck, ce >>

rcacheDel(self) == /\ pc[self] = "rcacheDel"
                   /\ IF orphan[self]
                         THEN /\ cache' = [cache EXCEPT ![ck[self]] = NoEntry]
                         ELSE /\ TRUE
                              /\ cache' = cache
                   /\ pc' = [pc EXCEPT ![self] = "runlock"]
                   /\ UNCHANGED << preSeq, entries, nextE, emu, flight, 
                                   flightVal, returned, doneB, todo, kk, ee, 
                                   mine, leader, rk, ck, ce, orphan >>

runlock(self) == /\ pc[self] = "runlock"
                 /\ emu' = [emu EXCEPT ![ce[self]] = Free]
                 /\ pc' = [pc EXCEPT ![self] = "rnext"]
                 /\ UNCHANGED << preSeq, entries, nextE, cache, flight, 
                                 flightVal, returned, doneB, todo, kk, ee, 
                                 mine, leader, rk, ck, ce, orphan >>

closer(self) == rnext(self) \/ rload(self) \/ rlock(self) \/ rdel(self)
                   \/ rcacheDel(self) \/ runlock(self)

(* Allow infinite stuttering to prevent deadlock on termination. *)
Terminating == /\ \A self \in ProcSet: pc[self] = "Done"
               /\ UNCHANGED vars

Next == (\E self \in Builders: builder(self))
           \/ (\E self \in Closers: closer(self))
           \/ Terminating

Spec == Init /\ [][Next]_vars

Termination == <>(\A self \in ProcSet: pc[self] = "Done")

\* END TRANSLATION 
 
 
 

=============================================================================
