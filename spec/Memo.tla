--------------------------------- MODULE Memo ---------------------------------
(***************************************************************************)
(* The process-wide pattern cache (internal/memoize/sync.go) seen from the *)
(* WAFs that use it, sequentially: which bytes of a configuration become   *)
(* the cache key at every call site, and which artefact is stored under it *)
(* (internal/operators/*.go, corazawaf/rule.go, actions/ctl.go,            *)
(* seclang/directives.go).                                                 *)
(*                                                                         *)
(* A configuration is a sequence of uses [site, text, content]:            *)
(*   site    the call site (what kind of artefact it needs)                *)
(*   text    the string the configuration author wrote (pattern, word      *)
(*           list, data-set NAME, file NAME)                               *)
(*   content what the artefact is really built from (for data sets and     *)
(*           files: their content, which differs between WAFs that use the *)
(*           same name)                                                    *)
(* C13: every Do returns the artefact the calling WAF would have built     *)
(* itself (same kind, same content), whatever other WAFs were built or     *)
(* closed before in the same process.                                      *)
(***************************************************************************)
EXTENDS Integers, Sequences, FiniteSets, TLC, Json

Sites == {"pm", "pmFromDataset", "pmFromFile", "restpath", "varRx", "ctlRx", "relevantStatus", "rx", "validateSchema", "validateNid", "ipMatchFromDataset"}
\* the kind of value a site stores (a type assertion on another kind panics)
Kind(site) == IF site \in {"pm", "pmFromDataset", "pmFromFile"} THEN "matcher"
              ELSE IF site = "rx" THEN "rxCompiled" ELSE IF site = "validateSchema" THEN "schema" ELSE IF site = "ipMatchFromDataset" THEN "subnets" ELSE "regexp"

CONSTANTS KeyDesign,     \* "raw": the key is the author's text (pinned commit) | "namespaced": site + content
          MaxWAFs

Use(site, text, content) == [site |-> site, text |-> text, content |-> content]
\* configurations that reuse one string in different roles
Configs ==
  << <<Use("pm", "abc.def", "abc.def")>>,
     <<Use("varRx", "abc.def", "abc.def")>>,
     <<Use("restpath", "abc.def", "abc.def")>>,
     <<Use("relevantStatus", "abc.def", "abc.def")>>,
     <<Use("ctlRx", "abc.def", "abc.def")>>,
     <<Use("pmFromDataset", "names", "abc")>>,
     <<Use("pmFromDataset", "names", "xyz")>>,
     <<Use("pmFromFile", "words.txt", "abc")>>,
     <<Use("pmFromFile", "words.txt", "xyz")>>,
     <<Use("rx", "abc.def", "abc.def")>>,
     <<Use("pm", "names", "names"), Use("pmFromDataset", "names", "xyz")>>,
     \* a word list of two words and a data set holding the one phrase made of the same two words
     <<Use("pm", "abc def", "abc|def")>>,
     <<Use("pmFromDataset", "phrases", "abc def")>>,
     \* one schema file name under two roots, two different schemas of the same size
     <<Use("validateSchema", "schemas/item.json", "required-id")>>,
     <<Use("validateSchema", "schemas/item.json", "required-sn")>>,
     \* one regex key text on a case-sensitive and on a case-insensitive collection: the artefact differs (the second is folded)
     <<Use("varRx", "^Ab", "^Ab")>>,
     <<Use("varRx", "^Ab", "^ab")>>,
     <<Use("validateNid", "abc.def", "abc.def")>>,
     \* address lists under one data-set name (not cached at the pinned commit: whoever caches them must key by content)
     <<Use("ipMatchFromDataset", "ips", "10.0.0.1")>>,
     <<Use("ipMatchFromDataset", "ips", "10.0.0.2")>>,
     \* one expression text used by @restpath (which reads the captured groups) and by @validateNid (yes / no only):
     \* the cached regexp is shared, so nobody may change how it matches
     <<Use("restpath", "files-a|ab", "files-a|ab")>>,
     <<Use("validateNid", "files-a|ab", "files-a|ab")>> >>

Key(u) == IF KeyDesign = "raw" THEN u.text ELSE <<u.site, u.content>>
Artefact(u) == [kind |-> Kind(u.site), site |-> u.site, content |-> u.content]

VARIABLES cache,     \* key -> [val, owners]
          wafs,      \* sequence of [cfg (index), alive]
          bad,       \* history: a Do returned something else than the caller's own artefact
          hist       \* the operations performed: <<"build", c>> | <<"close", w>>
vars == <<cache, wafs, bad, hist>>

Init == cache = << >> /\ wafs = << >> /\ bad = "" /\ hist = << >>

Lookup(k) == {i \in 1..Len(cache) : cache[i].k = k}

RECURSIVE DoAll(_, _, _, _)
\* performs the Do calls of configuration uses[j..] for owner w; returns [cache, bad]
DoAll(ch, uses, w, b) ==
  IF uses = << >> THEN [cache |-> ch, bad |-> b]
  ELSE LET u == Head(uses)
           k == Key(u)
           idx == {i \in 1..Len(ch) : ch[i].k = k}
       IN IF idx = {}
            THEN DoAll(Append(ch, [k |-> k, val |-> Artefact(u), owners |-> {w}]), Tail(uses), w, b)
            ELSE LET i == CHOOSE i \in idx : TRUE
                     got == ch[i].val
                     b2 == IF b # "" THEN b
                           ELSE IF got.kind # Kind(u.site) THEN "type-clash"
                           ELSE IF got.content # u.content THEN "foreign-artefact"
                           ELSE ""
                 IN DoAll([ch EXCEPT ![i].owners = @ \cup {w}], Tail(uses), w, b2)

Build(c) ==
  /\ Len(wafs) < MaxWAFs
  /\ LET w == Len(wafs) + 1
         r == DoAll(cache, Configs[c], w, bad)
     IN /\ cache' = r.cache /\ bad' = r.bad
        /\ wafs' = Append(wafs, [cfg |-> c, alive |-> TRUE])
  /\ hist' = Append(hist, <<"build", c>>)

\* WAF.Close -> memoize.Release: the owner leaves every entry; entries without owners are dropped
Close(w) ==
  /\ w \in 1..Len(wafs) /\ wafs[w].alive
  /\ LET c1 == [i \in 1..Len(cache) |-> [cache[i] EXCEPT !.owners = @ \ {w}]]
     IN cache' = SelectSeq(c1, LAMBDA e : e.owners # {})
  /\ wafs' = [wafs EXCEPT ![w].alive = FALSE]
  /\ hist' = Append(hist, <<"close", w>>)
  /\ UNCHANGED bad

Next == (\E c \in 1..Len(Configs) : Build(c)) \/ (\E w \in 1..MaxWAFs : Close(w))
Spec == Init /\ [][Next]_vars

CacheInvisible == bad = ""
\* entries always have an owner that is alive
OwnersAlive == \A i \in 1..Len(cache) : cache[i].owners # {} /\ \A w \in cache[i].owners : wafs[w].alive

Emit == (Len(wafs) >= 2 /\ \A w \in 1..Len(wafs) : TRUE) =>
          PrintT(<<"OUT", ToJson([hist |-> hist])>>)
=============================================================================
