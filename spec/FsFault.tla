------------------------------- MODULE FsFault -------------------------------
(***************************************************************************)
(* File-system life of one transaction: body spill-over (body_buffer.go),  *)
(* upload storage (bodyprocessors/multipart.go), clean-up at Close         *)
(* (transaction.go Close, BodyBuffer.Reset), with at most one injected     *)
(* failure of a file-system operation and abandonment after any API call.  *)
(* C20: every failure surfaces (returned error, error variable or log      *)
(* entry), no body is silently treated as inspected, and after Close no    *)
(* temporary file of the transaction remains unless upload retention is    *)
(* configured (or removing that very file is what failed).                 *)
(***************************************************************************)
EXTENDS Integers, Sequences, FiniteSets, TLC, Json

Points == {"none", "body.createtemp", "body.spillcopy", "body.write", "body.readat",
           "mp.createtemp", "mp.copy", "tx.remove", "body.close", "body.remove"}

CONSTANTS MaxFiles

VARIABLES c,         \* the case: [spill, nfiles, keep, relevant, point, nth, steps]
          pc,        \* "write" | "process" | "logging" | "close" | "done"
          done,      \* number of API steps performed so far
          live,      \* temporary files that exist: subset of {"spill", "up1", "up2"}
          recorded,  \* upload files the transaction knows about (FILES_TMPNAMES)
          hits,      \* how often the fault point has been reached
          fired,     \* the fault was injected
          surfaced,  \* a returned error / error variable / log entry reported a failure
          bodyOK,    \* the whole body reached the buffer
          inspected, \* the body phase ran over the body and no error variable is set
          closeErr,  \* Close returned an error
          removeFailed \* files whose removal (or the close preceding it) is what failed
vars == <<c, pc, done, live, recorded, hits, fired, surfaced, bodyOK, inspected, closeErr, removeFailed>>

\* trunc: the multipart body ends in the middle of the content of its last file part (client abort);
\* the part read so far is stored and its temporary file must be cleaned up like any other
\* entry: the body is handed over as a slice (WriteRequestBody), or through ReadRequestBodyFrom by a reader that
\* announces its length ("known") or does not ("unknown").  limit = "reached": the body is as large as the request
\* body limit under ProcessPartial, so the write itself stores the first limit bytes and runs the body phase.
Cases == [spill : BOOLEAN, nfiles : 0..MaxFiles, keep : {"Off", "On", "RelevantOnly"}, relevant : BOOLEAN,
          point : Points, nth : 1..2, steps : 1..3, trunc : BOOLEAN,
          entry : {"slice", "known", "unknown"}, limit : {"far", "reached"},
          \* audit: the audit engine is on with part C, so ProcessLogging reads the request body back (from disk if spilled);
          \* arm: the injected failure is armed from the start, or only once ProcessLogging begins
          audit : BOOLEAN, arm : {"start", "logging"}]

Init ==
  /\ c \in {x \in Cases : /\ (x.point = "none" => x.nth = 1)
                          /\ (x.trunc => x.nfiles >= 1 /\ x.point = "none")
                          /\ (x.point \in {"body.createtemp", "body.spillcopy", "body.write", "body.readat", "body.close", "body.remove"} => x.spill /\ x.nth = 1)
                          /\ (x.point \in {"mp.createtemp", "mp.copy", "tx.remove"} => x.nfiles >= x.nth)
                          /\ (x.keep # "RelevantOnly" => ~x.relevant)
                          /\ (x.limit = "reached" => x.nfiles = 0 /\ ~x.trunc /\ x.spill /\ x.keep = "Off"
                                                     /\ x.point \in {"none", "body.createtemp", "body.spillcopy", "body.write"})
                          /\ (x.entry # "slice" => x.keep = "Off" /\ ~x.trunc)
                          /\ (x.arm = "logging" => x.point = "body.readat" /\ x.audit /\ x.steps = 3 /\ x.nfiles = 0 /\ x.limit = "far" /\ x.entry = "slice")
                          /\ (x.audit => x.keep = "Off" /\ ~x.trunc /\ x.limit = "far" /\ x.entry = "slice" /\ x.nfiles = 0)}
  /\ pc = "write" /\ done = 0 /\ live = {} /\ recorded = {} /\ hits = 0 /\ fired = FALSE
  /\ surfaced = FALSE /\ bodyOK = FALSE /\ inspected = FALSE /\ closeErr = FALSE /\ removeFailed = {}

\* reaching a fault point: does the injected failure fire here?
Fires(p, h) == c.point = p /\ h + 1 = c.nth
Up(i) == IF i = 1 THEN "up1" ELSE "up2"

\* WriteRequestBody of the whole body (spills when the body is larger than the memory limit)
Write ==
  /\ pc = "write"
  /\ IF ~c.spill
       THEN /\ bodyOK' = TRUE /\ UNCHANGED <<live, fired, surfaced, hits>>
       ELSE IF Fires("body.createtemp", 0)
         THEN /\ fired' = TRUE /\ surfaced' = TRUE /\ bodyOK' = FALSE /\ UNCHANGED <<live, hits>>     \* error returned, no file
       ELSE IF Fires("body.spillcopy", 0) \/ Fires("body.write", 0)
         THEN /\ fired' = TRUE /\ surfaced' = TRUE /\ bodyOK' = FALSE /\ live' = live \cup {"spill"} /\ UNCHANGED hits
       ELSE /\ live' = live \cup {"spill"} /\ bodyOK' = TRUE /\ UNCHANGED <<fired, surfaced, hits>>
  /\ done' = done + 1
  /\ pc' = IF done' >= c.steps THEN "close" ELSE "process"
  /\ UNCHANGED <<c, recorded, inspected, closeErr, removeFailed>>

\* ProcessRequestBody: the processor reads the buffer (from disk if spilled) and stores uploads
RECURSIVE StoreUploads(_, _)
\* returns [live, recorded, fired, failed] after storing upload i..nfiles
StoreUploads(i, acc) ==
  IF i > c.nfiles \/ acc.failed THEN acc
  ELSE IF c.point = "mp.createtemp" /\ i = c.nth
    THEN [acc EXCEPT !.fired = TRUE, !.failed = TRUE]
  ELSE IF c.point = "mp.copy" /\ i = c.nth
    THEN \* the temporary file exists and must be known to the transaction so that Close removes it
         [acc EXCEPT !.live = @ \cup {Up(i)}, !.recorded = @ \cup {Up(i)}, !.fired = TRUE, !.failed = TRUE]
  ELSE StoreUploads(i + 1, [acc EXCEPT !.live = @ \cup {Up(i)}, !.recorded = @ \cup {Up(i)}])

Process ==
  /\ pc = "process"
  /\ IF c.spill /\ bodyOK /\ c.arm = "start" /\ Fires("body.readat", 0)
       THEN \* the processor cannot read the body: REQBODY_ERROR is set
            /\ fired' = TRUE /\ surfaced' = TRUE /\ inspected' = FALSE /\ UNCHANGED <<live, recorded>>
       ELSE LET r == StoreUploads(1, [live |-> live, recorded |-> recorded, fired |-> fired, failed |-> FALSE]) IN
            /\ live' = r.live /\ recorded' = r.recorded /\ fired' = r.fired
            /\ surfaced' = (surfaced \/ r.failed)
            /\ inspected' = (bodyOK /\ ~r.failed)
  /\ done' = done + 1
  /\ pc' = IF done' >= c.steps THEN "close" ELSE "logging"
  /\ UNCHANGED <<c, hits, bodyOK, closeErr, removeFailed>>

\* ProcessLogging: with part C the audit record reads the stored body once more; a failing read must be reported
\* (a log entry at least), the record then lacks the body
Logging ==
  /\ pc = "logging"
  /\ done' = done + 1 /\ pc' = "close"
  /\ IF c.audit /\ c.spill /\ bodyOK /\ c.arm = "logging" /\ c.point = "body.readat"
       THEN fired' = TRUE /\ surfaced' = TRUE
       ELSE UNCHANGED <<fired, surfaced>>
  /\ UNCHANGED <<c, live, recorded, hits, bodyOK, inspected, closeErr, removeFailed>>

\* Close: uploads are removed unless retention applies; the spill file is always removed
Keep == c.keep = "On" \/ (c.keep = "RelevantOnly" /\ c.relevant /\ done >= 2)
Close ==
  /\ pc = "close"
  /\ LET ups     == IF Keep THEN {} ELSE recorded
         upFail  == IF c.point = "tx.remove" /\ ~Keep /\ Up(c.nth) \in recorded THEN {Up(c.nth)} ELSE {}
         spFail  == IF "spill" \in live /\ c.point \in {"body.close", "body.remove"} THEN {"spill"} ELSE {}
         \* a failing close does not excuse the removal: only a failing remove leaves the file behind
         spLeft  == IF "spill" \in live /\ c.point = "body.remove" THEN {"spill"} ELSE {}
     IN /\ live' = (live \ (ups \cup {"spill"})) \cup upFail \cup spLeft
        /\ removeFailed' = upFail \cup spLeft
        /\ closeErr' = (upFail # {} \/ spFail # {})
        /\ fired' = (fired \/ upFail # {} \/ spFail # {})
        /\ surfaced' = (surfaced \/ upFail # {} \/ spFail # {})
  /\ pc' = "done"
  /\ UNCHANGED <<c, done, recorded, hits, bodyOK, inspected>>

Next == Write \/ Process \/ Logging \/ Close
Spec == Init /\ [][Next]_vars

NoLeak == pc = "done" => (live \subseteq ((IF Keep THEN recorded ELSE {}) \cup removeFailed))
Surfaced == (pc = "done" /\ fired) => surfaced
NoSilentInspection == ~(inspected /\ ~bodyOK /\ ~surfaced)

Emit == pc = "done" => PrintT(<<"OUT", ToJson([c |-> c, live |-> live, surfaced |-> surfaced, closeErr |-> closeErr, fired |-> fired, inspected |-> inspected])>>)
=============================================================================
