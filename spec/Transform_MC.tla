---------------------------- MODULE Transform_MC ----------------------------
(***************************************************************************)
(* The input domain of C14/C15: every byte string over Alphabet up to      *)
(* MaxLen (truncated escapes at every offset are in it by construction).   *)
(* Each state is one input; it is printed for the Go harness, which        *)
(* evaluates the real functions on it.  The invariants are model-level     *)
(* sanity theorems of the reference definitions themselves.                *)
(***************************************************************************)
EXTENDS Transform, Json
CONSTANTS Alphabet, MaxLen
VARIABLES s
RECURSIVE Strs(_)
Strs(n) == IF n = 0 THEN {<< >>} ELSE Strs(n - 1) \cup {Append(q, c) : q \in {x \in Strs(n - 1) : Len(x) = n - 1}, c \in Alphabet}
Init == s \in Strs(MaxLen)
Next == UNCHANGED s
Spec == Init /\ [][Next]_s

\* theorems about the reference definitions (the model must satisfy its own laws)
RefInverse == HexDecodeR(HexEncode(s)) = s
RefIdem == \A n \in {"trim", "trimLeft", "trimRight", "removeWhitespace", "compressWhitespace", "removeNulls", "replaceNulls", "lowercase", "uppercase"} :
             Ref(n, Ref(n, s)) = Ref(n, s)
RefLenPreserved == Len(Lower(s)) = Len(s) /\ Len(ReplaceNulls(s)) = Len(s)
Emit == PrintT(<<"OUT", ToJson([in |-> s])>>)
=============================================================================
