SPECIFICATION Spec
CONSTANTS
  Slice = 0
  Slices = 1
INVARIANTS AtMostOneRecord OffNeverLogs NologAuditlogListedNotCalled Emit
CHECK_DEADLOCK FALSE
