------------------------------ MODULE RxPF_MC ------------------------------
EXTENDS RxPF, Json, SequencesExt
CONSTANTS Alphabet, MaxLen, Depth2, Slice, Slices
VARIABLES re, ci

Nil == [k |-> "nil"]
Lit(c) == [k |-> "lit", c |-> c, cs |-> {}, x |-> Nil, y |-> Nil]
Cls(cs) == [k |-> "cls", c |-> 0, cs |-> cs, x |-> Nil, y |-> Nil]
Atom(k) == [k |-> k, c |-> 0, cs |-> {}, x |-> Nil, y |-> Nil]
Bin(k, x, y) == [k |-> k, c |-> 0, cs |-> {}, x |-> x, y |-> y]
Un(k, x) == [k |-> k, c |-> 0, cs |-> {}, x |-> x, y |-> Nil]

RE0 == {Lit(97), Lit(65), Lit(98), Cls({97, 98}), Atom("any"), Atom("bol"), Atom("eol"), Atom("bot"), Atom("eot")}
Consuming0 == {Lit(97), Lit(65), Lit(98), Cls({97, 98}), Atom("any")}
RE1 == RE0 \cup {Bin(k, x, y) : k \in {"cat", "alt"}, x \in RE0, y \in RE0}
           \cup {Un(k, x) : k \in {"opt", "star", "plus"}, x \in Consuming0}
RE2 == RE1 \cup {Bin(k, x, y) : k \in {"cat", "alt"}, x \in RE1, y \in RE0}
           \cup {Bin(k, x, y) : k \in {"cat", "alt"}, x \in RE0, y \in RE1}
           \cup {Un(k, x) : k \in {"opt", "star", "plus"}, x \in {r \in RE1 : MinLen(r) > 0}}
\* anchors inside a group the author wrote, next to a literal of two bytes: (\A x+)ab, ab(x+ \z), (\A)ab, (^x*)ab ...
Var0 == {Un("plus", Lit(97)), Un("plus", Cls({97, 98})), Un("star", Atom("any")), Un("opt", Lit(97)), Lit(97)}
Lit2 == {Bin("cat", Lit(x), Lit(y)) : x \in {97, 98}, y \in {98, 65}}
Anchored == {Bin("cat", Un("grp", Bin("cat", a, v)), l) : a \in {Atom("bot"), Atom("bol")}, v \in Var0, l \in Lit2}
            \cup {Bin("cat", l, Un("grp", Bin("cat", v, a))) : a \in {Atom("eot"), Atom("eol")}, v \in Var0, l \in Lit2}
            \cup {Bin("cat", Un("grp", a), l) : a \in {Atom("bot"), Atom("bol")}, l \in Lit2}
            \cup {Bin("cat", l, Un("grp", a)) : a \in {Atom("eot"), Atom("eol")}, l \in Lit2}
            \cup {Un("grp", Bin("cat", Bin("cat", Atom("bot"), v), l)) : v \in Var0, l \in Lit2}
Exprs == (IF Depth2 THEN RE2 ELSE RE1) \cup Anchored

RECURSIVE Strs(_)
Strs(n) == IF n = 0 THEN {<< >>} ELSE Strs(n - 1) \cup {Append(q, c) : q \in {x \in Strs(n - 1) : Len(x) = n - 1}, c \in Alphabet}
\* the inputs in a fixed order (shared with the harness through the first record)
Inputs == SetToSeq(Strs(MaxLen))

Hash(r) == (IF r.k = "cat" THEN 1 ELSE IF r.k = "alt" THEN 2 ELSE 3) + (IF r.x.k = "lit" THEN r.x.c ELSE IF r.x.k = "nil" THEN 0 ELSE 5) + (IF r.y.k = "lit" THEN r.y.c ELSE IF r.y.k = "nil" THEN 0 ELSE 7)
Init == re \in {r \in Exprs : Hash(r) % Slices = Slice} /\ ci \in BOOLEAN
Next == UNCHANGED <<re, ci>>
Spec == Init /\ [][Next]_<<re, ci>>

Row == [n \in 1..Len(Inputs) |-> Matches(re, ci, Inputs[n])]
\* model-level theorem: nothing shorter than MinLen matches
MinLenSound == \A n \in 1..Len(Inputs) : Matches(re, ci, Inputs[n]) => Len(Inputs[n]) >= MinLen(re)
Emit == PrintT(<<"OUT", ToJson([re |-> re, ci |-> ci, row |-> Row])>>)
EmitInputs == (re = Lit(97) /\ ~ci) => PrintT(<<"OUT", ToJson([inputs |-> Inputs])>>)
=============================================================================
