------------------------------ MODULE Transform ------------------------------
(***************************************************************************)
(* Transformations (internal/transformations/*.go) as pure functions on    *)
(* byte strings.                                                           *)
(*   - reference definitions, byte-wise, for the transformations whose     *)
(*     meaning the documentation fixes (Ref)                               *)
(*   - the laws every transformation has to obey (C14): Pure, InputIntact, *)
(*     ChangeSound, inverse pairs, idempotence, standard-definition        *)
(*     equalities                                                          *)
(* Transform_MC enumerates the input domain; the Go harness evaluates the  *)
(* real functions on it and records the function table; Transform_Trace    *)
(* checks every law on every record of that table.                         *)
(***************************************************************************)
EXTENDS Bytes, TLC

AllHex(s) == \A i \in 1..Len(s) : IsHex(s[i])
Ascii(s)  == \A i \in 1..Len(s) : s[i] < 128

RECURSIVE HexDecodeR(_)
HexDecodeR(s) == IF Len(s) < 2 THEN << >> ELSE <<16 * HexVal(s[1]) + HexVal(s[2])>> \o HexDecodeR(SubSeq(s, 3, Len(s)))

\* urlDecode: %XX with two hex digits -> that byte, '+' -> space, everything else (incl. a '%' that
\* is not followed by two hex digits, e.g. truncated at the end of the input) unchanged
RECURSIVE UrlDecodeR(_)
UrlDecodeR(s) ==
  IF s = << >> THEN << >>
  ELSE IF s[1] = 37 /\ Len(s) >= 3 /\ IsHex(s[2]) /\ IsHex(s[3])
         THEN <<16 * HexVal(s[2]) + HexVal(s[3])>> \o UrlDecodeR(SubSeq(s, 4, Len(s)))
       ELSE IF s[1] = 43 THEN <<32>> \o UrlDecodeR(Tail(s))
       ELSE <<s[1]>> \o UrlDecodeR(Tail(s))

TrimLeftA(s) == TrimLeft(s)
RefNames == {"lowercase", "uppercase", "length", "hexEncode", "hexDecode", "urlDecode", "removeNulls", "replaceNulls",
             "removeWhitespace", "compressWhitespace", "trim", "trimLeft", "trimRight", "none"}

\* domain on which the reference definition is THE definition (outside it the documentation is silent)
RefApplies(name, s) ==
  CASE name \in {"lowercase", "uppercase", "removeWhitespace", "compressWhitespace"} -> Ascii(s)
    [] name = "hexDecode" -> AllHex(s) /\ Len(s) % 2 = 0
    [] OTHER -> TRUE

Ref(name, s) ==
  CASE name = "lowercase"          -> Lower(s)
    [] name = "uppercase"          -> Upper(s)
    [] name = "length"             -> Length(s)
    [] name = "hexEncode"          -> HexEncode(s)
    [] name = "hexDecode"          -> HexDecodeR(s)
    [] name = "urlDecode"          -> UrlDecodeR(s)
    [] name = "removeNulls"        -> RemoveNulls(s)
    [] name = "replaceNulls"       -> ReplaceNulls(s)
    [] name = "removeWhitespace"   -> SelectSeq(s, LAMBDA c : ~IsSpace(c))
    [] name = "compressWhitespace" -> CompressWhitespace(s)
    [] name = "trim"               -> Trim(s)
    [] name = "trimLeft"           -> TrimLeft(s)
    [] name = "trimRight"          -> TrimRight(s)
    [] name = "none"               -> s
    [] OTHER                       -> s

\* pairs whose composition (second after first) is the identity on every input
InversePairs == {<<"hexEncode", "hexDecode">>, <<"base64Encode", "base64Decode">>, <<"urlEncode", "urlDecode">>}
Idempotent == {"trim", "trimLeft", "trimRight", "removeWhitespace", "compressWhitespace", "removeNulls", "replaceNulls",
               "lowercase", "uppercase", "none"}

(***************************************************************************)
(* The laws, stated on one record of the recorded function table           *)
(*   rec = [name, in, out, changed, out2, outLater, inAfter, aliased, err, *)
(*          comp, base]                                                    *)
(*   comp  "" for a plain record, otherwise "inverse" (out = second(first  *)
(*         (in))) or "twice" (out = t(t(in)), base = t(in))                *)
(***************************************************************************)
Pure(r)         == r.out = r.out2
\* a returned value belongs to the caller: it reads the same after the transformation has been
\* evaluated again on another input (outLater = the first result read again after that evaluation)
OutputStable(r) == r.outLater = r.out
InputIntact(r)  == r.inAfter = r.in /\ ~r.aliased
\* (when a transformation reports an error its output is discarded by the rule engine)
ChangeSound(r)  == (r.comp = "" /\ ~r.err /\ r.out # r.in) => r.changed
RefEqual(r)     == (r.comp = "" /\ r.name \in RefNames /\ RefApplies(r.name, r.in) /\ ~r.err) => r.out = Ref(r.name, r.in)
InverseLaw(r)   == (r.comp = "inverse" /\ ~r.err) => r.out = r.in
IdemLaw(r)      == r.comp = "twice" => r.out = r.base
Laws(r) == Pure(r) /\ OutputStable(r) /\ InputIntact(r) /\ ChangeSound(r) /\ RefEqual(r) /\ InverseLaw(r) /\ IdemLaw(r)
FirstBroken(r) ==
  IF ~Pure(r) THEN "Pure" ELSE IF ~OutputStable(r) THEN "OutputStable" ELSE IF ~InputIntact(r) THEN "InputIntact" ELSE IF ~ChangeSound(r) THEN "ChangeSound"
  ELSE IF ~RefEqual(r) THEN "RefEqual" ELSE IF ~InverseLaw(r) THEN "InverseLaw" ELSE IF ~IdemLaw(r) THEN "IdemLaw" ELSE ""
=============================================================================
