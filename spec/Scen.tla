-------------------------------- MODULE Scen --------------------------------
(***************************************************************************)
(* Constructors for structured rule descriptions and requests, and the     *)
(* scenario families TLC enumerates.  A scenario is                        *)
(*   [rules, req, engine, dirs]                                            *)
(* `dirs` (configuration-time exclusion / update directives) is used by    *)
(* the C17 family only.                                                    *)
(***************************************************************************)
EXTENDS Engine

\* ---- byte-string literals used by the families ----
s_a  == <<97>>          \* "a"
s_A  == <<65>>          \* "A"
s_b  == <<98>>          \* "b"
s_x  == <<120>>         \* "x"
s_X  == <<88>>          \* "X"
s_xy == <<120, 121>>    \* "xy"
s_sx == <<32, 120>>     \* " x"
s_1  == <<49>>          \* "1"
s_2  == <<50>>
s_3  == <<51>>
s_n  == <<110>>         \* "n"
s_m(i) == <<109, 48 + i>>       \* "m1", "m2", ...
s_c(j) == <<99, 48 + j>>        \* "c1", ...
s_url == <<47, 114>>    \* "/r"

NoOp == [name |-> "", arg |-> << >>, neg |-> FALSE]
Op(n, a, neg) == [name |-> n, arg |-> a, neg |-> neg]
OpLit(n, b)   == Op(n, <<Lit(b)>>, FALSE)
Tgt(col, sel, count, excl) == [col |-> col, sel |-> sel, count |-> count, excl |-> excl]
T(col)        == Tgt(col, SelAll, FALSE, << >>)
TK(col, k)    == Tgt(col, SelKey(k), FALSE, << >>)
RuleLink(targets, tfs, op, mm, acts) ==
  [targets |-> targets, tfs |-> tfs, op |-> op, mm |-> mm, acts |-> acts, hasOp |-> TRUE]
ActLink(acts) ==
  [targets |-> << >>, tfs |-> << >>, op |-> NoOp, mm |-> FALSE, acts |-> acts, hasOp |-> FALSE]
MkRule(id, phase, links) ==
  [id |-> id, phase |-> phase, marker |-> "", links |-> links, status |-> 0, sev |-> 0 - 1]
MkMarker(name) ==
  [id |-> 0, phase |-> 0, marker |-> name, links |-> <<ActLink(<< >>)>>, status |-> 0, sev |-> 0 - 1]
E(c, k, v) == [c |-> c, k |-> k, v |-> v]
NoDir == [d |-> "", ids |-> << >>, s |-> "", tgts |-> << >>, acts |-> << >>]
MkScen(rules, req, engine) == [rules |-> rules, req |-> req, engine |-> engine, dirs |-> << >>]

\* all sequences over S of length 0..n
RECURSIVE SeqsUpTo(_, _)
SeqsUpTo(S, n) == IF n = 0 THEN {<< >>}
                  ELSE SeqsUpTo(S, n - 1) \cup {Append(q, e) : q \in {q2 \in SeqsUpTo(S, n - 1) : Len(q2) = n - 1}, e \in S}
SeqsOfLen(S, n) == {q \in SeqsUpTo(S, n) : Len(q) = n}

\* request in which exactly the keys of M (a set of byte strings) are present as ARGS_GET k=1
RECURSIVE ReqOf(_)
ReqOf(M) == IF M = {} THEN << >>
            ELSE LET k == CHOOSE k \in M : TRUE
                 IN <<E("ARGS_GET", k, s_1)>> \o ReqOf(M \ {k})

(***************************************************************************)
(* Family "flow" (C08, also C02): slots of flow-control rules.             *)
(* Rule in slot i (id 10*i) fires iff the request carries key m<i>; chain  *)
(* link j of any rule matches iff the request carries key c<j>.            *)
(***************************************************************************)
Cond(i)        == <<TK("ARGS_GET", s_m(i))>>
CondLink(i, acts) == RuleLink(Cond(i), << >>, Op("unconditionalMatch", << >>, FALSE), FALSE, acts)
ChainLink(j)   == RuleLink(<<TK("ARGS_GET", s_c(j))>>, << >>, Op("unconditionalMatch", << >>, FALSE), FALSE, << >>)

FlowTemplates(phases, maxChain) ==
  [k : {"plain", "skip1", "skip2", "skipAfterM", "allow", "allowPhase", "allowRequest", "deny"}, p : phases, ch : 0..0]
  \cup [k : {"plain", "skip1", "skipAfterM", "allow", "deny"}, p : phases, ch : 1..maxChain]
  \cup {[k |-> "markerM", p |-> 0, ch |-> 0]}

FlowActs(t) ==
  CASE t.k = "plain"        -> << >>
    [] t.k = "skip1"        -> <<ASkip(1)>>
    [] t.k = "skip2"        -> <<ASkip(2)>>
    [] t.k = "skipAfterM"   -> <<ASkipAfter("M")>>
    [] t.k = "allow"        -> <<AAllow("all")>>
    [] t.k = "allowPhase"   -> <<AAllow("phase")>>
    [] t.k = "allowRequest" -> <<AAllow("request")>>
    [] t.k = "deny"         -> <<A("deny")>>
    [] OTHER                -> << >>

FlowRule(i, t) ==
  IF t.k = "markerM" THEN MkMarker("M")
  ELSE MkRule(10 * i, t.p,
              <<CondLink(i, FlowActs(t))>> \o [j \in 1..t.ch |-> ChainLink(j)])

FlowKeys(n, maxChain) == {s_m(i) : i \in 1..n} \cup {s_c(j) : j \in 1..maxChain}

\* a "pick" is the tuple of generating choices; the scenario is a function of it
\* Slicing: several TLC processes each take the scenarios whose first slot falls in their slice.
KindIdx(k) == CASE k = "plain" -> 0 [] k = "skip1" -> 1 [] k = "skip2" -> 2 [] k = "skipAfterM" -> 3
                [] k = "allow" -> 4 [] k = "allowPhase" -> 5 [] k = "allowRequest" -> 6 [] k = "deny" -> 7 [] OTHER -> 8
FlowPicks(n, phases, maxChain, engines, slice, slices) ==
  LET Tm == FlowTemplates(phases, maxChain)
      T1 == {t \in Tm : (KindIdx(t.k) + 3 * t.p + 5 * t.ch) % slices = slice}
  IN [ts : {[i \in 1..n |-> IF i = 1 THEN t1 ELSE rest[i]] : t1 \in T1, rest \in [2..n -> Tm]},
      M : SUBSET FlowKeys(n, maxChain), e : engines]
FlowScen(pk) == MkScen([i \in 1..Len(pk.ts) |-> FlowRule(i, pk.ts[i])], ReqOf(pk.M), pk.e)

(***************************************************************************)
(* Family "match" (C01): one or two rules over a small request space.      *)
(***************************************************************************)
MatchEntries(cols, keys, vals) == {E(c, k, v) : c \in cols, k \in keys, v \in vals}
MatchSels == {SelAll, SelKey(s_a), SelKey(s_A), SelRx([m |-> "prefix", lit |-> s_a]), SelRx([m |-> "exact", lit |-> s_A])}
MatchExcls == {<< >>, <<SelKey(s_a)>>, <<SelKey(s_b)>>, <<SelRx([m |-> "prefix", lit |-> s_a])>>}
MatchTargets(cols) == {Tgt(c, s, cnt, ex) : c \in cols, s \in MatchSels, cnt \in BOOLEAN, ex \in MatchExcls}
MatchOps == {OpLit("streq", s_x), OpLit("contains", s_x), OpLit("streq", s_a), OpLit("eq", s_1), OpLit("ge", s_2)}
MatchTfs == {<< >>, <<"lowercase">>, <<"trim", "lowercase">>}

MatchRule(id, p, tg, tfs, op, neg, mm) ==
  MkRule(id, p, <<RuleLink(<<tg>>, tfs, [op EXCEPT !.neg = neg], mm, << >>)>>)

MatchPicks(cols, keys, vals, maxEntries, phases) ==
  [tg : MatchTargets(cols \cup {"ARGS", "ARGS_NAMES"}), tfs : MatchTfs, op : MatchOps,
   neg : BOOLEAN, mm : BOOLEAN, p : phases,
   rq : SeqsUpTo(MatchEntries(cols, keys, vals), maxEntries)]
MatchScen(pk) == MkScen(<<MatchRule(10, pk.p, pk.tg, pk.tfs, pk.op, pk.neg, pk.mm)>>, pk.rq, "On")

=============================================================================
