-------------------------------- MODULE Scen --------------------------------
(***************************************************************************)
(* Constructors for structured rule descriptions and requests, and the     *)
(* scenario families TLC enumerates.  A scenario is                        *)
(*   [rules, req, engine, dirs]                                            *)
(* `dirs` (configuration-time exclusion / update directives) is used by    *)
(* the C17 family only.                                                    *)
(***************************************************************************)
EXTENDS Engine, SequencesExt

\* Slicing: several TLC processes run in parallel, process `slice` of `slices` takes every
\* slices-th element (in TLC's deterministic enumeration order) of one dimension of a family.
SliceOf(S, slice, slices) ==
  LET q == SetToSeq(S) IN {q[j] : j \in {k \in 1..Len(q) : k % slices = slice}}

\* ---- byte-string literals used by the families ----
s_a  == <<97>>          \* "a"
s_A  == <<65>>          \* "A"
s_b  == <<98>>          \* "b"
s_x  == <<120>>         \* "x"
s_X  == <<88>>          \* "X"
s_xy == <<120, 121>>    \* "xy"
s_sx == <<32, 120>>     \* " x"
s_0  == <<48>>          \* "0"
s_1  == <<49>>          \* "1"
s_2  == <<50>>
s_3  == <<51>>
s_n  == <<110>>         \* "n"
s_m(i) == <<109, 48 + i>>       \* "m1", "m2", ...
s_c(j) == <<99, 48 + j>>        \* "c1", ...
s_url == <<47, 114>>    \* "/r"

NoOp == [name |-> "", arg |-> << >>, neg |-> FALSE]
Op(n, a, neg) == [name |-> n, arg |-> a, neg |-> neg]
OpLit(n, b)   == Op(n, <<Lit(b)>>, FALSE)
Tgt(col, sel, count, excl) == [col |-> col, sel |-> sel, count |-> count, excl |-> excl]
T(col)        == Tgt(col, SelAll, FALSE, << >>)
TK(col, k)    == Tgt(col, SelKey(k), FALSE, << >>)
RuleLink(targets, tfs, op, mm, acts) ==
  [targets |-> targets, tfs |-> tfs, op |-> op, mm |-> mm, acts |-> acts, hasOp |-> TRUE]
ActLink(acts) ==
  [targets |-> << >>, tfs |-> << >>, op |-> NoOp, mm |-> FALSE, acts |-> acts, hasOp |-> FALSE]
MkRule(id, phase, links) ==
  [id |-> id, phase |-> phase, marker |-> "", links |-> links, status |-> 0, sev |-> 0 - 1, tags |-> << >>, msg |-> ""]
MkMarker(name) ==
  [id |-> 0, phase |-> 0, marker |-> name, links |-> <<ActLink(<< >>)>>, status |-> 0, sev |-> 0 - 1, tags |-> << >>, msg |-> ""]
E(c, k, v) == [c |-> c, k |-> k, v |-> v]
\* def: the disruptive action of a SecDefaultAction written at the top of the configuration for every phase ("" = none)
Dir(d) == [d |-> d, ids |-> << >>, lo |-> 0, hi |-> 0, s |-> "", tgts |-> << >>, acts |-> << >>, def |-> ""]
MkScen(rules, req, engine) == [rules |-> rules, req |-> req, engine |-> engine, dirs |-> << >>]

\* all sequences over S of length 0..n
RECURSIVE SeqsUpTo(_, _)
SeqsUpTo(S, n) == IF n = 0 THEN {<< >>}
                  ELSE SeqsUpTo(S, n - 1) \cup {Append(q, e) : q \in {q2 \in SeqsUpTo(S, n - 1) : Len(q2) = n - 1}, e \in S}
SeqsOfLen(S, n) == {q \in SeqsUpTo(S, n) : Len(q) = n}

\* a request holding exactly the entries of the set S (in TLC's deterministic order)
RECURSIVE ReqOfEntries(_)
ReqOfEntries(S) == IF S = {} THEN << >> ELSE LET e == CHOOSE e \in S : TRUE IN <<e>> \o ReqOfEntries(S \ {e})

\* request in which exactly the keys of M (a set of byte strings) are present as ARGS_GET k=1
RECURSIVE ReqOf(_)
ReqOf(M) == IF M = {} THEN << >>
            ELSE LET k == CHOOSE k \in M : TRUE
                 IN <<E("ARGS_GET", k, s_1)>> \o ReqOf(M \ {k})

(***************************************************************************)
(* Family "flow" (C08, also C02): slots of flow-control rules.             *)
(* Rule in slot i (id 10*i) fires iff the request carries key m<i>; chain  *)
(* link j of any rule matches iff the request carries key c<j>.            *)
(***************************************************************************)
Cond(i)        == <<TK("ARGS_GET", s_m(i))>>
CondLink(i, acts) == RuleLink(Cond(i), << >>, Op("unconditionalMatch", << >>, FALSE), FALSE, acts)
ChainLink(j)   == RuleLink(<<TK("ARGS_GET", s_c(j))>>, << >>, Op("unconditionalMatch", << >>, FALSE), FALSE, << >>)

FlowTemplates(phases, maxChain) ==
  [k : {"plain", "skip1", "skip2", "skipAfterM", "allow", "allowPhase", "allowRequest", "deny", "denySkip1", "denySkipAfterM"}, p : phases, ch : 0..0]
  \cup [k : {"plain", "skip1", "skipAfterM", "allow", "deny"}, p : phases, ch : 1..maxChain]
  \cup {[k |-> "markerM", p |-> 0, ch |-> 0]}

FlowActs(t) ==
  CASE t.k = "plain"        -> << >>
    [] t.k = "skip1"        -> <<ASkip(1)>>
    [] t.k = "skip2"        -> <<ASkip(2)>>
    [] t.k = "skipAfterM"   -> <<ASkipAfter("M")>>
    [] t.k = "allow"        -> <<AAllow("all")>>
    [] t.k = "allowPhase"   -> <<AAllow("phase")>>
    [] t.k = "allowRequest" -> <<AAllow("request")>>
    [] t.k = "deny"         -> <<A("deny")>>
    [] t.k = "denySkip1"    -> <<ASkip(1), A("deny")>>              \* a rule that both interrupts and jumps
    [] t.k = "denySkipAfterM" -> <<ASkipAfter("M"), A("deny")>>
    [] OTHER                -> << >>

FlowRule(i, t) ==
  IF t.k = "markerM" THEN MkMarker("M")
  ELSE MkRule(10 * i, t.p,
              <<CondLink(i, FlowActs(t))>> \o [j \in 1..t.ch |-> ChainLink(j)])

FlowKeys(n, maxChain) == {s_m(i) : i \in 1..n} \cup {s_c(j) : j \in 1..maxChain}

\* a "pick" is the tuple of generating choices; the scenario is a function of it
FlowPicks(n, phases, maxChain, engines, slice, slices) ==
  LET Tm == FlowTemplates(phases, maxChain)
      T1 == SliceOf(Tm, slice, slices)
  IN [ts : {[i \in 1..n |-> IF i = 1 THEN t1 ELSE rest[i]] : t1 \in T1, rest \in [2..n -> Tm]},
      M : SUBSET FlowKeys(n, maxChain), e : engines]
FlowScen(pk) == MkScen([i \in 1..Len(pk.ts) |-> FlowRule(i, pk.ts[i])], ReqOf(pk.M), pk.e)

(***************************************************************************)
(* Family "markers" (C08): n slots over {SecMarker M, skipAfter:M, plain}   *)
(* in one phase - the same label declared several times, jumps between and *)
(* after the declarations, plus one plain rule in the logging phase.       *)
(***************************************************************************)
MarkerPicks(n, phases, slice, slices) ==
  LET K  == {"markerM", "skipAfterM", "plain"}
      T1 == SliceOf(K \X (phases \ {5}), slice, slices)
  IN [ts : {[i \in 1..n |-> IF i = 1 THEN [k |-> t1[1], p |-> t1[2], ch |-> 0] ELSE [k |-> rest[i], p |-> t1[2], ch |-> 0]] : t1 \in T1, rest \in [2..n -> K]},
      M : SUBSET {s_m(i) : i \in 1..(n + 1)}, e : {"On"}]
MarkerScen(pk) == MkScen([i \in 1..(Len(pk.ts) + 1) |-> IF i <= Len(pk.ts) THEN FlowRule(i, pk.ts[i]) ELSE FlowRule(i, [k |-> "plain", p |-> 5, ch |-> 0])],
                         ReqOf(pk.M), pk.e)

(***************************************************************************)
(* Family "modes" (C08, C02): the engine mode switched by ctl:ruleEngine in *)
(* the middle of a phase, next to allow / deny: what counts is the mode of *)
(* the transaction at that moment, not the one the WAF was configured with.*)
(* n slots of one phase, then a plain rule in that phase and one in the    *)
(* logging phase.                                                          *)
(***************************************************************************)
ModeActs(k) == CASE k = "ctlDet" -> <<[A("ctl") EXCEPT !.s = "ruleEngine", !.op = "DetectionOnly"]>>
                 [] k = "ctlOn"  -> <<[A("ctl") EXCEPT !.s = "ruleEngine", !.op = "On"]>>
                 [] k = "ctlOff" -> <<[A("ctl") EXCEPT !.s = "ruleEngine", !.op = "Off"]>>
                 [] k = "allow"  -> <<AAllow("all")>>
                 [] k = "allowPhase" -> <<AAllow("phase")>>
                 [] k = "deny"   -> <<A("deny")>>
                 [] OTHER        -> << >>
ModeRule(i, k, p) == MkRule(10 * i, p, <<CondLink(i, ModeActs(k))>>)
ModePicks(n, engines, slice, slices) ==
  LET K == {"ctlDet", "ctlOn", "ctlOff", "allow", "allowPhase", "deny", "plain"}
      T1 == SliceOf(K, slice, slices)
  IN [ks : {[i \in 1..n |-> IF i = 1 THEN k1 ELSE rest[i]] : k1 \in T1, rest \in [2..n -> K]},
      M : SUBSET {s_m(i) : i \in 1..(n + 2)}, e : engines]
ModeScen(pk) == LET n == Len(pk.ks) IN
  MkScen([i \in 1..(n + 2) |-> IF i <= n THEN ModeRule(i, pk.ks[i], 1) ELSE IF i = n + 1 THEN ModeRule(i, "plain", 1) ELSE ModeRule(i, "plain", 5)],
         ReqOf(pk.M), pk.e)

(***************************************************************************)
(* Families for C01.                                                       *)
(*  "select"  : every target shape (collection x selector x count x        *)
(*              exclusion) over every small request; the operator is fixed *)
(*              so that firing = "something was selected" / "count is n"   *)
(*  "operate" : transformation lists x operators x negation x multiMatch   *)
(*              over requests whose values vary                            *)
(*  "chain"   : chains of 2-3 links whose later links look at ARGS_POST,   *)
(*              MATCHED_VAR or MATCHED_VARS                                *)
(***************************************************************************)
SelSels  == {SelAll, SelKey(s_a), SelKey(s_A), SelRx([m |-> "prefix", lit |-> s_a]), SelRx([m |-> "exact", lit |-> s_A])}
SelExcls == {<< >>, <<SelKey(s_a)>>, <<SelKey(s_A)>>, <<SelKey(s_b)>>, <<SelRx([m |-> "prefix", lit |-> s_a])>>}
SelCols  == {"ARGS_GET", "ARGS_POST", "ARGS", "ARGS_NAMES", "ARGS_GET_NAMES", "REQUEST_HEADERS"}
SelTargets == {Tgt(c, sl, FALSE, ex) : c \in SelCols, sl \in SelSels, ex \in SelExcls}
SelEntries == {E(c, k, s_x) : c \in {"ARGS_GET", "ARGS_POST", "REQUEST_HEADERS"}, k \in {s_a, s_A, s_b}}
SelOps(cnt) == IF cnt THEN {OpLit("eq", s_1), OpLit("ge", s_2), Op("eq", <<Lit(<<48>>)>>, TRUE)}
               ELSE {Op("unconditionalMatch", << >>, FALSE)}
SelectPicks(maxEntries, phases, slice, slices) ==
  UNION { [tg : {[t EXCEPT !.count = cnt] : t \in SliceOf(SelTargets, slice, slices)}, op : SelOps(cnt), p : phases,
           rq : SeqsUpTo(SelEntries, maxEntries)] : cnt \in BOOLEAN }
SelectScen(pk) ==
  MkScen(<<MkRule(10, pk.p, <<RuleLink(<<pk.tg>>, << >>, pk.op, FALSE, << >>)>>)>>, pk.rq, "On")

\* "select2": two targets over one collection followed by an exclusion written once, after both: it covers both
Sel2Sels == {SelAll, SelKey(s_a), SelKey(s_b), SelRx([m |-> "prefix", lit |-> s_a])}
Sel2Picks(maxEntries, phases, slice, slices) ==
  [c : {"ARGS_GET", "REQUEST_HEADERS"}, s1 : Sel2Sels, s2 : Sel2Sels, ex : SliceOf({<<SelKey(s_b)>>, <<SelKey(s_a)>>, <<SelRx([m |-> "prefix", lit |-> s_a])>>}, slice, slices),
   cnt1 : BOOLEAN, p : phases, rq : SeqsUpTo(SelEntries, maxEntries)]
Sel2Scen(pk) ==
  MkScen(<<MkRule(10, pk.p, <<RuleLink(<<Tgt(pk.c, pk.s1, pk.cnt1, pk.ex), Tgt(pk.c, pk.s2, FALSE, pk.ex)>>, << >>,
                                      IF pk.cnt1 THEN OpLit("ge", s_0) ELSE Op("unconditionalMatch", << >>, FALSE), FALSE, << >>)>>)>>, pk.rq, "On")

\* the last list returns to an earlier value on its way ("x" -> "X" -> "x") before a step that tells the values apart
OpTfs == {<< >>, <<"hexDecode", "lowercase">>, <<"lowercase">>, <<"trim", "lowercase">>, <<"removeWhitespace", "uppercase">>, <<"length">>, <<"uppercase", "lowercase", "hexEncode">>}
s_78 == <<55, 56>>     \* hexEncode("x")
OpOps == {OpLit("streq", s_x), OpLit("contains", s_x), OpLit("beginsWith", s_x), OpLit("endsWith", s_X),
          OpLit("eq", s_1), OpLit("ge", s_2), OpLit("lt", s_2), OpLit("rx", s_x), OpLit("streq", s_78), OpLit("streq", s_0)}
OpTargets == {T("ARGS"), TK("ARGS_GET", s_a), Tgt("ARGS_GET", SelAll, TRUE, << >>)}
OpEntries == {E("ARGS_GET", k, v) : k \in {s_a, s_b}, v \in {s_x, s_X, s_sx, << >>, s_xy}}
OperatePicks(maxEntries, phases, slice, slices) ==
  [tg : OpTargets, tfs : OpTfs, op : SliceOf(OpOps, slice, slices), neg : BOOLEAN, mm : BOOLEAN, p : phases,
   rq : SeqsUpTo(OpEntries, maxEntries)]
OperateScen(pk) ==
  MkScen(<<MkRule(10, pk.p, <<RuleLink(<<pk.tg>>, pk.tfs, [pk.op EXCEPT !.neg = pk.neg], pk.mm, << >>)>>)>>, pk.rq, "On")

\* chains: starter over ARGS_GET, links over ARGS_POST / MATCHED_VAR / MATCHED_VARS / &ARGS
ChainStarters == {RuleLink(<<T("ARGS_GET")>>, tfs, op, FALSE, << >>) :
                    tfs \in {<< >>, <<"lowercase">>}, op \in {OpLit("streq", s_x), OpLit("contains", s_x)}}
ChainLinks == {RuleLink(<<tg>>, tfs, op, FALSE, << >>) :
                 tg \in {T("ARGS_POST"), T("MATCHED_VAR"), T("MATCHED_VARS"), Tgt("ARGS", SelAll, TRUE, << >>)},
                 tfs \in {<< >>, <<"lowercase">>},
                 op \in {OpLit("streq", s_x), Op("streq", <<Lit(s_X)>>, TRUE), OpLit("ge", s_2)}}
ChainEntries == {E(c, s_a, v) : c \in {"ARGS_GET", "ARGS_POST"}, v \in {s_x, s_X}}
ChainPicks(maxEntries, maxChain, phases, slice, slices) ==
  \* a link over MATCHED_VARS comes right after the starter, while the collection still holds matches of one name only:
  \* the order in which matches of different names are walked is the order of a map in the implementation and is
  \* left open (Choice_MatchedVarsOrder), so no scenario depends on it
  [l1 : ChainStarters, ls : {q \in UNION {SeqsOfLen(ChainLinks, n) : n \in 1..maxChain} : \A i \in 2..Len(q) : q[i].targets[1].col # "MATCHED_VARS"}, p : phases,
   rq : SliceOf(SeqsUpTo(ChainEntries, maxEntries), slice, slices)]
ChainScen(pk) ==
  MkScen(<<MkRule(10, pk.p, <<pk.l1>> \o pk.ls),
           MkRule(20, pk.p, <<RuleLink(<<T("MATCHED_VAR")>>, << >>, OpLit("streq", s_x), FALSE, << >>)>>)>>, pk.rq, "On")

(***************************************************************************)
(* Family "acts" (C09): non-disruptive actions once per matched value,     *)
(* macros expanded at that moment, setvar arithmetic sums, chain starter   *)
(* disruptive actions once per completed chain, HIGHEST_SEVERITY.          *)
(*   rule 5  : SecAction phase 1  setvar:tx.k=2   (operand for macros)     *)
(*   rule 10 : SecRule ARGS_GET "@streq x" (+t:lowercase,multiMatch)       *)
(*             [chain SecRule ARGS_POST "@streq x"]  with an action list   *)
(*   rule 20 : second counting rule (thorough)                             *)
(*   rule 90 : SecRule TX:n "@ge 2" deny   (the anomaly threshold)         *)
(***************************************************************************)
s_k  == <<107>>         \* "k"
s_neg == <<110, 101, 103>>   \* "neg"
s_m3 == <<45, 51>>      \* "-3"
s_s  == <<115>>         \* "s"
s_c_ == <<99, 95>>      \* "c_"
s_y  == <<121>>         \* "y"
KN == <<Lit(s_n)>>
KS == <<Lit(s_s)>>
ActLists ==
  { <<ASetvar(KN, "add", <<Lit(s_1)>>)>>,
    <<ASetvar(KN, "add", <<Lit(s_2)>>), ASetvar(KN, "add", <<Lit(s_1)>>)>>,
    <<ASetvar(KN, "sub", <<Lit(s_1)>>)>>,
    <<ASetvar(KN, "add", <<Mac("TX", s_k)>>)>>,
    <<ASetvar(KN, "add", <<Mac("TX", s_neg)>>), ASetvar(KN, "sub", <<Mac("TX", s_neg)>>), ASetvar(KN, "add", <<Mac("TX", s_neg)>>)>>,
    <<ASetvar(KS, "set", <<Mac("MATCHED_VAR", << >>)>>), ASetvar(KN, "add", <<Lit(s_1)>>)>>,
    <<ASetvar(KS, "set", <<Lit(s_x)>>), ASetvar(KS, "del", << >>)>>,
    <<ASetvar(<<Lit(s_c_), Mac("MATCHED_VAR", << >>)>>, "add", <<Lit(s_1)>>)>>,
    <<ASetvar(KN, "set", <<Lit(s_3)>>), ASetvar(KN, "add", <<Lit(s_1)>>)>>,
    <<ASetvar(KS, "add", <<Lit(s_0)>>)>>,                       \* adding zero to a counter that does not exist yet creates it
    <<ASetvar(KS, "sub", <<Lit(s_0)>>), ASetvar(KN, "add", <<Mac("TX", s_s)>>)>>,
    \* an assignment whose expanded value happens to be negative is still an assignment
    <<ASetvar(KN, "set", <<Lit(s_2)>>), ASetvar(KN, "set", <<Mac("TX", s_neg)>>)>>,
    \* %{rule.msg} is the message of the rule that runs the action (rule 5 has one, rule 10 has none)
    <<ASetvar(KS, "set", <<Lit(s_x), Mac("RULE", <<109, 115, 103>>), Lit(s_x)>>)>> }
\* one counter per matched target: the key is built from MATCHED_VAR_NAME
PerTargetActs == { <<ASetvar(<<Lit(s_c_), Mac("MATCHED_VAR_NAME", << >>)>>, "add", <<Lit(s_1)>>)>>,
                   <<ASetvar(<<Lit(s_c_), Mac("MATCHED_VAR_NAME", << >>)>>, "add", <<Lit(s_1)>>), ASetvar(KS, "set", <<Mac("MATCHED_VAR_NAME", << >>)>>)>> }

ActsChainKinds == {"none", "plain", "counting", "denyStarter"}
ActsRule10(pk) ==
  LET acts == pk.acts \o (IF pk.ch = "denyStarter" THEN <<A("deny")>> ELSE << >>)
      l1 == RuleLink(IF pk.both THEN <<T("ARGS_GET"), T("ARGS_POST")>> ELSE <<T("ARGS_GET")>>, IF pk.mm THEN <<"lowercase">> ELSE << >>, OpLit("streq", s_x), pk.mm, acts)
      l2 == RuleLink(<<T("ARGS_POST")>>, << >>, OpLit("streq", s_x), FALSE,
                     IF pk.ch = "counting" THEN <<ASetvar(KN, "add", <<Lit(s_1)>>)>> ELSE << >>)
  IN [MkRule(10, pk.p, IF pk.ch = "none" THEN <<l1>> ELSE <<l1, l2>>) EXCEPT !.sev = pk.sev]
ActsRule20(pk) ==
  [MkRule(20, pk.p2, <<RuleLink(<<T("ARGS_GET")>>, << >>, Op("streq", <<Lit(s_y)>>, TRUE), FALSE, pk.acts2)>>) EXCEPT !.sev = 4]
ActsEntries == {E("ARGS_GET", k, v) : k \in {s_a, s_b}, v \in {s_x, s_X, s_y}}
ActsPicks(maxEntries, two, slice, slices) ==
  [acts : SliceOf(ActLists, slice, slices), mm : BOOLEAN, ch : ActsChainKinds, sev : {0 - 1, 2, 5}, p : {1, 2},
   acts2 : IF two THEN {<<ASetvar(KN, "add", <<Lit(s_1)>>)>>, <<ASetvar(KN, "sub", <<Lit(s_2)>>)>>} ELSE {<< >>},
   p2 : IF two THEN {1, 2} ELSE {0},
   rq : SeqsUpTo(ActsEntries, maxEntries), post : BOOLEAN, both : {FALSE}]
  \cup  \* one rule over two collections that carry the same key
  [acts : SliceOf(PerTargetActs, slice, slices), mm : BOOLEAN, ch : {"none"}, sev : {0 - 1}, p : {2}, acts2 : {<< >>}, p2 : {0},
   rq : SeqsUpTo(ActsEntries, maxEntries), post : {TRUE}, both : {TRUE}]
ActsScen(pk) ==
  MkScen(<<[MkRule(5, 1, <<ActLink(<<ASetvar(<<Lit(s_k)>>, "set", <<Lit(s_2)>>), ASetvar(<<Lit(s_neg)>>, "set", <<Lit(s_m3)>>)>>)>>) EXCEPT !.msg = "m5"],
           ActsRule10(pk)>>
         \o (IF pk.p2 = 0 THEN << >> ELSE <<ActsRule20(pk)>>)
         \o <<[MkRule(90, 2, <<RuleLink(<<TK("TX", s_n)>>, << >>, OpLit("ge", s_2), FALSE, <<A("deny")>>)>>) EXCEPT !.sev = 3]>>,
         pk.rq \o (IF pk.post THEN <<E("ARGS_POST", s_a, s_x)>> ELSE << >>), "On")

(***************************************************************************)
(* Family "cache" (C12, C04): two or three rules of one phase that share   *)
(* full or partial transformation lists over the same and different        *)
(* targets, requests with a repeated name next to another name, and a      *)
(* chain link over MATCHED_VAR (content changes during the phase).         *)
(***************************************************************************)
s_Xs == <<88, 32>>      \* "X "
CacheTfs == {<<"lowercase">>, <<"lowercase", "trim">>, <<"trim", "lowercase">>, <<"trim">>}
SelTgtRx == Tgt("ARGS_GET", SelRx([m |-> "prefix", lit |-> s_a]), FALSE, << >>)
CacheTargets == {T("ARGS_GET"), TK("ARGS_GET", s_a), T("ARGS"), SelTgtRx}
CacheEntries == {E("ARGS_GET", k, v) : k \in {s_a, s_b}, v \in {s_X, s_sx, s_y}}
CacheRuleLit(id, tg, tfs, lit) == MkRule(id, 2, <<RuleLink(<<tg>>, tfs, OpLit("streq", lit), FALSE, << >>)>>)
CacheRule(id, tg, tfs) == CacheRuleLit(id, tg, tfs, s_x)
\* a transformation that is not idempotent, applied once and twice in a row: hexEncode("y") = "79", twice = "3739"
s_79 == <<55, 57>>
s_3739 == <<51, 55, 51, 57>>
FailTfs == {<<"hexDecode", "lowercase">>, <<"hexDecode", "trim", "lowercase">>, <<"lowercase">>}
RepTfs == {<<"hexEncode">>, <<"hexEncode", "hexEncode">>, <<"lowercase", "hexEncode", "hexEncode">>}
\* chains that come back to the value they started from: the intermediate value is only seen under multiMatch
RoundTfs == {<<"lowercase", "uppercase">>, <<"uppercase", "lowercase">>, <<"hexEncode", "hexDecode">>, <<"lowercase">>}
CacheRuleMM(id, tg, tfs, lit) == MkRule(id, 2, <<RuleLink(<<tg>>, tfs, OpLit("streq", lit), TRUE, << >>)>>)
CacheChain(id, tfs) ==
  MkRule(id, 2, <<RuleLink(<<T("ARGS_GET")>>, << >>, OpLit("contains", s_x), FALSE, << >>),
                  RuleLink(<<T("MATCHED_VAR")>>, tfs, OpLit("streq", s_x), FALSE, << >>)>>)
CachePicks(maxEntries, rich, slice, slices) ==
  [t1 : IF rich THEN CacheTfs ELSE {<<"lowercase">>, <<"trim", "lowercase">>},
   g2 : CacheTargets, t2 : CacheTfs, third : IF rich THEN {"none", "chainA", "chainB"} ELSE {"none", "chainB"}, lit : {s_x},
   rq : SliceOf(SeqsOfLen(CacheEntries, maxEntries), slice, slices)]
  \cup
  [t1 : RepTfs, g2 : {T("ARGS_GET")}, t2 : RepTfs, third : {"none"}, lit : {s_79, s_3739},
   rq : SliceOf(SeqsOfLen(CacheEntries, maxEntries), slice, slices)]
  \cup  \* a multiMatch rule behind a rule that ran the same (or a shorter) list: every distinct intermediate value is still seen
  [t1 : RoundTfs, g2 : {T("ARGS_GET"), TK("ARGS_GET", s_a)}, t2 : RoundTfs, third : {"mm"}, lit : {s_x, s_X, s_79},
   rq : SliceOf(SeqsOfLen(CacheEntries, maxEntries), slice, slices)]
  \cup  \* a step that fails on these values (they are not hexadecimal) in front of steps that work
  [t1 : FailTfs, g2 : {T("ARGS_GET"), TK("ARGS_GET", s_a)}, t2 : FailTfs, third : {"none"}, lit : {s_x},
   rq : SliceOf(SeqsOfLen(CacheEntries, maxEntries), slice, slices)]
CacheScen(pk) ==
  MkScen(<<CacheRuleLit(10, T("ARGS_GET"), pk.t1, pk.lit),
           IF pk.third = "mm" THEN CacheRuleMM(20, pk.g2, pk.t2, pk.lit) ELSE CacheRuleLit(20, pk.g2, pk.t2, pk.lit)>>
         \o (IF pk.third \in {"none", "mm"} THEN << >>
             ELSE IF pk.third = "chainA" THEN <<CacheChain(30, pk.t1)>>
             ELSE <<CacheChain(30, pk.t1), CacheChain(40, pk.t1)>>),
         pk.rq, "On")

(***************************************************************************)
(* Family "dirs" (C17): a base rule set, then configuration-time           *)
(* exclusion / update directives, or run-time ctl counterparts placed in   *)
(* an extra rule; the meaning must be that of the rewritten rule set.      *)
(***************************************************************************)
s_cc == <<99>>          \* "c"
M(c, k) == RuleLink(<<TK(c, k)>>, << >>, OpLit("streq", s_x), FALSE, << >>)
DirBase ==
  << [MkRule(10, 1, <<M("ARGS_GET", s_a)>>) EXCEPT !.tags = <<"t1">>, !.msg = "m1"],
     [MkRule(20, 2, <<RuleLink(<<T("ARGS_GET")>>, << >>, OpLit("streq", s_x), FALSE, << >>)>>) EXCEPT !.tags = <<"t1", "t2">>],
     [MkRule(30, 2, <<RuleLink(<<TK("ARGS_GET", s_a)>>, << >>, OpLit("streq", s_x), FALSE, <<A("deny")>>),
                     RuleLink(<<T("ARGS_POST")>>, << >>, OpLit("streq", s_x), FALSE, << >>)>>) EXCEPT !.tags = <<"t2">>, !.msg = "m3", !.status = 503],   \* an explicit status survives an action update
     MkRule(40, 2, <<ActLink(<<ASetvar(<<Lit(s_n)>>, "add", <<Lit(s_1)>>)>>)>>) >>
OnlyExcl(col, sel) == Tgt(col, [t |-> "none", k |-> << >>, pat |-> [m |-> "", lit |-> << >>]], FALSE, <<sel>>)
DirIdSets == { [ids |-> <<10>>, lo |-> 0, hi |-> 0], [ids |-> <<30>>, lo |-> 0, hi |-> 0], [ids |-> << >>, lo |-> 25, hi |-> 35], [ids |-> <<10, 30>>, lo |-> 0, hi |-> 0], [ids |-> <<20, 40>>, lo |-> 0, hi |-> 0],
               [ids |-> << >>, lo |-> 10, hi |-> 20], [ids |-> << >>, lo |-> 15, hi |-> 35], [ids |-> <<40>>, lo |-> 10, hi |-> 10] }
DirTargetSets == { <<T("ARGS_POST")>>, <<TK("ARGS_GET", s_b)>>, <<OnlyExcl("ARGS_GET", SelKey(s_a))>>, <<OnlyExcl("ARGS_GET", SelKey(s_A))>> }
DirActionSets == { <<A("deny")>>, <<A("drop")>>, <<A("pass")>>, <<ASetvar(<<Lit(s_n)>>, "add", <<Lit(s_2)>>)>> }
WithIds(d, z) == [d EXCEPT !.ids = z.ids, !.lo = z.lo, !.hi = z.hi]
Directives ==
  {WithIds(Dir("SecRuleRemoveById"), z) : z \in DirIdSets}
  \cup {[Dir("SecRuleRemoveByTag") EXCEPT !.s = t] : t \in {"t1", "t2", "tX"}}
  \cup {[Dir("SecRuleRemoveByMsg") EXCEPT !.s = m] : m \in {"m1", "m3", "mX"}}
  \cup {[WithIds(Dir("SecRuleUpdateTargetById"), z) EXCEPT !.tgts = tg] : z \in DirIdSets, tg \in DirTargetSets}
  \cup {[Dir("SecRuleUpdateTargetByTag") EXCEPT !.s = t, !.tgts = tg] : t \in {"t1", "t2"}, tg \in DirTargetSets}
  \cup {[WithIds(Dir("SecRuleUpdateActionById"), z) EXCEPT !.acts = ac] : z \in DirIdSets, ac \in DirActionSets}
CtlActs ==
  { ACtlRmId(20), ACtlRmId(30), ACtlRmRange(15, 35), ACtlRmRange(10, 10), ACtlRmTag("t1"), ACtlRmTag("t2"), ACtlRmMsg("m3"), ACtlRmMsg("mX"),
    ACtlRmTgt(20, "ARGS_GET", SelKey(s_a)), ACtlRmTgt(30, "ARGS_POST", SelAll), ACtlRmTgt(30, "ARGS_GET", SelKey(s_A)),
    ACtlRmTgtTag("t2", "ARGS_GET", SelKey(s_a)), ACtlRmTgtMsg("m1", "ARGS_GET", SelKey(s_a)) }
DirReqs == {ReqOfEntries(S) : S \in SUBSET {E("ARGS_GET", s_a, s_x), E("ARGS_GET", s_b, s_x), E("ARGS_POST", s_a, s_x), E("ARGS_GET", s_cc, s_1)}}
\* a second base set about ORDER: a rule that jumps (skip:1), then rules whose ids are not in configuration order
\* (99 sits between 25 and 30), so that removing 25 - or the range 25-30 - must leave 99 in place and must leave the
\* jump counting the rules that still exist
DirBase2 ==
  << [MkRule(20, 2, <<RuleLink(<<TK("ARGS_GET", s_b)>>, << >>, OpLit("streq", s_x), FALSE, <<ASkip(1)>>)>>) EXCEPT !.tags = <<"t1">>],
     [MkRule(25, 2, <<M("ARGS_GET", s_a)>>) EXCEPT !.tags = <<"t2">>, !.msg = "m3"],
     MkRule(99, 2, <<M("ARGS_GET", s_a)>>),
     [MkRule(30, 2, <<M("ARGS_GET", s_a)>>) EXCEPT !.tags = <<"t2">>],
     MkRule(40, 2, <<RuleLink(<<T("ARGS_GET")>>, << >>, OpLit("streq", s_x), FALSE, << >>)>>),      \* the whole collection
     MkRule(50, 2, <<M("ARGS_GET", s_A)>>),                                                           \* a key written with an upper-case letter
     MkRule(60, 2, <<RuleLink(<<Tgt("ARGS_GET", SelAll, TRUE, << >>)>>, << >>, OpLit("eq", s_0), FALSE, << >>)>>) >>   \* a count that zero satisfies
Directives2 == {WithIds(Dir("SecRuleRemoveById"), z) : z \in {[ids |-> <<25>>, lo |-> 0, hi |-> 0], [ids |-> << >>, lo |-> 25, hi |-> 30], [ids |-> <<30>>, lo |-> 20, hi |-> 25]}}
               \cup {[Dir("SecRuleRemoveByTag") EXCEPT !.s = "t2"], [Dir("SecRuleRemoveByMsg") EXCEPT !.s = "m3"]}
\* run-time counterparts: one ctl rule carrying one or two removals (overlapping ranges are stored one after the other)
CtlActs2 == { <<ACtlRmId(25)>>, <<ACtlRmRange(25, 30)>>, <<ACtlRmRange(22, 27), ACtlRmRange(26, 32)>>, <<ACtlRmRange(26, 32), ACtlRmRange(22, 27)>>,
              <<ACtlRmRange(20, 30), ACtlRmRange(25, 45)>>, <<ACtlRmTag("t2")>>, <<ACtlRmMsg("m3")>>, <<ACtlRmId(25), ACtlRmId(99)>>,
              \* target exclusions: the key as the rule writes it / in the other case; several exclusions on one rule and collection
              <<ACtlRmTgt(50, "ARGS_GET", SelKey(s_A))>>, <<ACtlRmTgt(50, "ARGS_GET", SelKey(s_a))>>,
              <<ACtlRmTgt(40, "ARGS_GET", SelRx([m |-> "prefix", lit |-> s_a])), ACtlRmTgt(40, "ARGS_GET", SelRx([m |-> "prefix", lit |-> s_b]))>>,
              <<ACtlRmTgt(40, "ARGS_GET", SelRx([m |-> "prefix", lit |-> s_b])), ACtlRmTgt(40, "ARGS_GET", SelKey(s_a))>>,
              <<ACtlRmTgt(40, "ARGS_GET", SelKey(s_a)), ACtlRmTgt(40, "ARGS_GET", SelKey(s_b))>>,
              <<ACtlRmTgtTag("t2", "ARGS_GET", SelRx([m |-> "prefix", lit |-> s_a])), ACtlRmTgt(30, "ARGS_GET", SelAll)>>,
              <<ACtlRmTgt(60, "ARGS_GET", SelAll)>>, <<ACtlRmTgt(60, "ARGS_GET", SelKey(s_a))>> }
DirReqs2 == {ReqOfEntries(S) : S \in SUBSET {E("ARGS_GET", s_a, s_x), E("ARGS_GET", s_b, s_x), E("ARGS_GET", s_A, s_x), E("ARGS_GET", s_cc, s_1)}}
Pass1 == <<A("pass")>>
\* updates under a SecDefaultAction: "block" in an update stands for the disruptive action the default actions carry,
\* exactly as in a rule written with block.  Every rule of this base set writes its own disruptive action, so
\* that nothing else is inherited.
DirBase4 ==
  << MkRule(10, 1, <<RuleLink(<<TK("ARGS_GET", s_a)>>, << >>, OpLit("streq", s_x), FALSE, <<A("pass")>>)>>),
     MkRule(30, 2, <<RuleLink(<<TK("ARGS_GET", s_a)>>, << >>, OpLit("streq", s_x), FALSE, <<A("pass")>>)>>),
     MkRule(40, 2, <<RuleLink(<<TK("ARGS_GET", s_b)>>, << >>, OpLit("streq", s_x), FALSE, <<A("deny")>>)>>) >>
Directives4 == {[WithIds(Dir("SecRuleUpdateActionById"), z) EXCEPT !.acts = ac, !.def = df] :
                  z \in {[ids |-> <<10>>, lo |-> 0, hi |-> 0], [ids |-> <<30>>, lo |-> 0, hi |-> 0], [ids |-> <<10, 30>>, lo |-> 0, hi |-> 0], [ids |-> <<40>>, lo |-> 0, hi |-> 0], [ids |-> << >>, lo |-> 10, hi |-> 30]},
                  ac \in {<<A("block")>>, <<A("pass")>>, <<A("deny")>>}, df \in {"", "deny"}}
\* a removal followed by an update that names ids, removed ones among them (both tiers): the update reaches the rules
\* that still exist and no other
ListIdSets == {z \in DirIdSets : z.ids # << >>}
Removals3 == {d \in Directives : d.d \in {"SecRuleRemoveById", "SecRuleRemoveByTag", "SecRuleRemoveByMsg"}}
Updates3 == {[WithIds(Dir("SecRuleUpdateTargetById"), z) EXCEPT !.tgts = tg] : z \in ListIdSets, tg \in {<<T("ARGS_POST")>>, <<OnlyExcl("ARGS_GET", SelKey(s_a))>>}}
            \cup {[WithIds(Dir("SecRuleUpdateActionById"), z) EXCEPT !.acts = ac] : z \in ListIdSets, ac \in {<<A("pass")>>, <<A("deny")>>}}
DirReqs3 == {ReqOfEntries({E("ARGS_GET", s_a, s_x), E("ARGS_GET", s_b, s_x), E("ARGS_POST", s_a, s_x), E("ARGS_GET", s_cc, s_1)}),
             ReqOfEntries({E("ARGS_GET", s_a, s_x), E("ARGS_POST", s_a, s_x)}), ReqOfEntries({E("ARGS_GET", s_b, s_x)})}
DirPicks(two, slice, slices) ==
  [kind : {"dir"}, d1 : SliceOf(Directives, slice, slices), d2 : IF two THEN Directives \cup {Dir("")} ELSE {Dir("")}, ctl : {A("pass")}, ctls : {Pass1}, pos : {0}, rq : DirReqs]
  \cup [kind : {"dir"}, d1 : SliceOf(Removals3, slice, slices), d2 : Updates3, ctl : {A("pass")}, ctls : {Pass1}, pos : {0}, rq : DirReqs3]
  \cup [kind : {"ctl"}, d1 : {Dir("")}, d2 : {Dir("")}, ctl : SliceOf(CtlActs, slice, slices), ctls : {Pass1}, pos : {0, 2}, rq : DirReqs]
  \cup [kind : {"dir4"}, d1 : SliceOf(Directives4, slice, slices), d2 : {Dir("")}, ctl : {A("pass")}, ctls : {Pass1}, pos : {0}, rq : DirReqs3]
  \cup [kind : {"dir2"}, d1 : SliceOf(Directives2, slice, slices), d2 : {Dir("")}, ctl : {A("pass")}, ctls : {Pass1}, pos : {0}, rq : DirReqs2]
  \cup [kind : {"ctl2"}, d1 : {Dir("")}, d2 : {Dir("")}, ctl : {A("pass")}, ctls : SliceOf(CtlActs2, slice, slices), pos : {0}, rq : DirReqs2]
\* the ctl rule fires iff the request carries ARGS_GET c
CtlRule(act) == MkRule(5, 1, <<RuleLink(<<TK("ARGS_GET", s_cc)>>, << >>, Op("unconditionalMatch", << >>, FALSE), FALSE, <<act>>)>>)
CtlRule2(acts) == MkRule(5, 1, <<RuleLink(<<TK("ARGS_GET", s_cc)>>, << >>, Op("unconditionalMatch", << >>, FALSE), FALSE, acts)>>)
DirScen(pk) ==
  IF pk.kind = "dir4"
    THEN [MkScen(DirBase4, pk.rq, "On") EXCEPT !.dirs = <<pk.d1>>]
  ELSE IF pk.kind = "dir2"
    THEN [MkScen(DirBase2, pk.rq, "On") EXCEPT !.dirs = <<pk.d1>>]
  ELSE IF pk.kind = "ctl2"
    THEN MkScen(<<CtlRule2(pk.ctls)>> \o DirBase2, pk.rq, "On")
  ELSE IF pk.kind = "dir"
    THEN [MkScen(DirBase, pk.rq, "On") EXCEPT !.dirs = SelectSeq(<<pk.d1, pk.d2>>, LAMBDA d : d.d # "")]
    ELSE MkScen(SubSeq(DirBase, 1, pk.pos) \o <<[CtlRule(pk.ctl) EXCEPT !.phase = IF pk.pos = 0 THEN 1 ELSE 2]>> \o SubSeq(DirBase, pk.pos + 1, Len(DirBase)), pk.rq, "On")

(***************************************************************************)
(* Family "pair" (C01, C13): two rules of one configuration whose regex    *)
(* key selectors (or exclusions) have the same text but sit on collections *)
(* of different kind, in both orders - compiled patterns must not leak     *)
(* from one rule to the other.                                             *)
(***************************************************************************)
s_Ab == <<65, 98>>      \* "Ab"
PairPats == {[m |-> "prefix", lit |-> s_A], [m |-> "prefix", lit |-> s_a], [m |-> "exact", lit |-> s_Ab]}
PairCols == {"ARGS_GET", "REQUEST_HEADERS", "ARGS_NAMES", "REQUEST_HEADERS_NAMES"}
PairEntries == {E(c, k, s_x) : c \in {"ARGS_GET", "REQUEST_HEADERS"}, k \in {s_Ab, s_a}}
PairRule(id, col, pat, asExcl) ==
  MkRule(id, 2, <<RuleLink(<<IF asExcl THEN Tgt(col, SelAll, FALSE, <<SelRx(pat)>>) ELSE Tgt(col, SelRx(pat), FALSE, << >>)>>,
                           << >>, Op("unconditionalMatch", << >>, FALSE), FALSE, << >>)>>)
PairPicks(maxEntries, slice, slices) ==
  [pat : PairPats, c1 : PairCols, c2 : PairCols, x1 : BOOLEAN, x2 : BOOLEAN,
   rq : SliceOf(SeqsUpTo(PairEntries, maxEntries), slice, slices)]
PairScen(pk) == MkScen(<<PairRule(10, pk.c1, pk.pat, pk.x1), PairRule(20, pk.c2, pk.pat, pk.x2)>>, pk.rq, "On")

=============================================================================
