-------------------------------- MODULE Pool --------------------------------
(***************************************************************************)
(* Transaction recycling (waf.go newTransaction, transaction.go Close,     *)
(* TransactionVariables.reset, body_buffer.go Reset, sync.Pool).           *)
(*                                                                         *)
(* A Transaction object is a record over Fields; each field is "default"   *)
(* or "dirty".  A predecessor transaction dirties fields according to what *)
(* it does (Dirties), Close resets the fields of CloseResets and hands the *)
(* object to the pool, NewTransaction takes it back and re-initialises the *)
(* fields of NewResets.  C05: the object handed out by NewTransaction is   *)
(* in the state of a brand-new one, and a body reader handed out before    *)
(* Close yields no data afterwards.                                        *)
(*                                                                         *)
(* The two reset lists are the ones of the code at the pinned commit; the  *)
(* conformance check (harness/props/c05.go) keeps them honest: the dirty   *)
(* set it observes on the real object after every predecessor must be      *)
(* inside Dirties, and the real recycled object must be pristine.          *)
(***************************************************************************)
EXTENDS Integers, Sequences, FiniteSets, TLC, Json

\* per-transaction state, grouped as the property lists it
Fields == { "variables",            \* every collection of TransactionVariables (incl. TX, captures TX.0-9, MATCHED_*)
            "matchedRules", "interruption", "detectionOnlyInterruption",
            "SkipAfter", "Skip", "AllowType",                                  \* flow control
            "ruleRemoveByID", "ruleRemoveByIDRanges", "ruleRemoveTargetByID",  \* per-transaction exclusions
            "RuleEngine", "AuditEngine", "AuditLogParts", "audit",             \* engine / audit overrides
            "RequestBodyAccess", "RequestBodyLimit", "ResponseBodyAccess", "ResponseBodyLimit",
            "ForceRequestBodyVariable", "ForceResponseBodyVariable",
            "lastPhase", "Capture", "stopWatches",
            "debugLogger",                                                     \* ctl:debugLogLevel replaces the transaction's logger
            "requestBodyBuffer", "responseBodyBuffer",                         \* length, spill file, readers
            "transformationCache" }

\* what a predecessor can do (one token = one trigger header value / driver behaviour)
Tokens == { "match", "setvar", "capture", "deny1", "deny2", "deny3", "deny4",
            "ctlEngine", "ctlReqAccess", "ctlReqLimit", "ctlAuditEngine", "ctlAuditParts",
            "ctlForceReqBody", "ctlRespAccess", "ctlRmId", "ctlRmRange", "ctlRmTarget", "ctlDebugLevel", "ctlRespProcessor",
            "allow", "allowRequest", "skip", "skipAfter",
            "spill", "respBody", "noLogging", "closeTwice", "keepReader", "tfCache", "otherArgs" }

Always == {"variables", "lastPhase", "stopWatches", "matchedRules", "Capture"}   \* any transaction that runs its phases
Dirties(tok) ==
  CASE tok = "match"          -> {"matchedRules", "variables", "audit"}
    [] tok = "setvar"         -> {"variables", "matchedRules", "audit"}
    [] tok = "capture"        -> {"variables", "matchedRules", "Capture", "audit"}
    [] tok \in {"deny1", "deny2", "deny3", "deny4"} -> {"interruption", "matchedRules", "variables", "audit"}
    [] tok = "ctlEngine"      -> {"RuleEngine", "matchedRules", "detectionOnlyInterruption", "audit"}
    [] tok = "ctlReqAccess"   -> {"RequestBodyAccess", "matchedRules", "audit"}
    [] tok = "ctlReqLimit"    -> {"RequestBodyLimit", "matchedRules", "audit"}
    [] tok = "ctlAuditEngine" -> {"AuditEngine", "matchedRules", "audit"}
    [] tok = "ctlAuditParts"  -> {"AuditLogParts", "matchedRules", "audit"}
    [] tok = "ctlForceReqBody" -> {"ForceRequestBodyVariable", "matchedRules", "audit"}
    [] tok = "ctlRespAccess"  -> {"ResponseBodyAccess", "matchedRules", "audit"}
    [] tok = "ctlDebugLevel"  -> {"debugLogger", "matchedRules", "audit"}
    [] tok = "ctlRespProcessor" -> {"variables", "matchedRules", "audit"}   \* the processor fails on the body: the RES_BODY_ERROR family is set
    [] tok = "ctlRmId"        -> {"ruleRemoveByID", "matchedRules", "audit"}
    [] tok = "ctlRmRange"     -> {"ruleRemoveByIDRanges", "matchedRules", "audit"}
    [] tok = "ctlRmTarget"    -> {"ruleRemoveTargetByID", "matchedRules", "audit"}
    [] tok \in {"allow", "allowRequest"} -> {"AllowType", "matchedRules", "audit"}
    [] tok = "skip"           -> {"Skip", "matchedRules", "audit"}
    [] tok = "skipAfter"      -> {"SkipAfter", "matchedRules", "audit"}
    [] tok = "spill"          -> {"requestBodyBuffer", "variables"}
    [] tok = "respBody"       -> {"responseBodyBuffer", "variables"}
    [] tok = "otherArgs"      -> {"variables"}     \* argument names the next transaction does not use
    [] tok = "keepReader"     -> {"requestBodyBuffer"}
    [] tok = "tfCache"        -> {"transformationCache", "matchedRules", "audit"}
    [] OTHER                  -> {}     \* noLogging, closeTwice: behaviours of the driver

\* transaction.go Close: variables.reset(), both body buffers Reset()
CloseResets == {"variables", "requestBodyBuffer", "responseBodyBuffer"}
\* waf.go newTransaction: every scalar field is assigned; maps are re-made; the transformation cache
\* is emptied at the start of every phase (rulegroup.go Eval) which is before any use
NewResets == Fields \ {"variables", "requestBodyBuffer", "responseBodyBuffer", "transformationCache"}
UnobservableWhenDirty == {"transformationCache"}

CONSTANTS MaxTokens, MaxPreds

VARIABLES obj,      \* the pooled object: [Fields -> {"default", "dirty"}]
          where,    \* "inUse" | "pooled"
          readers,  \* readers handed out by the object's current/previous lives: set of [life, alive]
          life,     \* how many times the object was handed out
          hist,     \* predecessor history: sequence of sets of tokens
          cur       \* tokens performed by the transaction in flight

vars == <<obj, where, readers, life, hist, cur>>

Pristine == [f \in Fields |-> "default"]

Init ==
  /\ obj = Pristine /\ where = "inUse" /\ readers = {} /\ life = 1 /\ hist = << >> /\ cur = {}

Do(tok) ==
  /\ where = "inUse" /\ Cardinality(cur) < MaxTokens /\ tok \notin cur
  /\ obj' = [f \in Fields |-> IF f \in Dirties(tok) \cup Always THEN "dirty" ELSE obj[f]]
  /\ readers' = IF tok = "keepReader" THEN readers \cup {[life |-> life, alive |-> TRUE]} ELSE readers
  /\ cur' = cur \cup {tok}
  /\ UNCHANGED <<where, life, hist>>

\* Close (once, or twice with "closeTwice": the second Close acts on the same object again)
Close ==
  /\ where = "inUse" /\ cur # {}
  /\ obj' = [f \in Fields |-> IF f \in CloseResets THEN "default" ELSE obj[f]]
  /\ readers' = {[r EXCEPT !.alive = FALSE] : r \in readers}      \* BodyBuffer.Reset closes every reader
  /\ where' = "pooled"
  /\ hist' = Append(hist, cur)
  /\ cur' = {}
  /\ UNCHANGED life

New ==
  /\ where = "pooled" /\ Len(hist) <= MaxPreds
  /\ obj' = [f \in Fields |-> IF f \in NewResets THEN "default" ELSE obj[f]]
  /\ where' = "inUse" /\ life' = life + 1
  /\ UNCHANGED <<readers, hist, cur>>

Next == (\E t \in Tokens : Do(t)) \/ Close \/ New
Spec == Init /\ [][Next]_vars

\* C05: what NewTransaction hands out is in the state of a brand-new object
FreshAfterNew ==
  (where = "inUse" /\ cur = {}) => \A f \in Fields \ UnobservableWhenDirty : obj[f] = "default"
\* readers of earlier lives are dead
ReadersDead == \A r \in readers : r.life < life => ~r.alive

\* emission of the histories for the conformance harness
Emit == (where = "inUse" /\ cur = {} /\ hist # << >>) =>
          PrintT(<<"OUT", ToJson([hist |-> [i \in 1..Len(hist) |-> hist[i]]])>>)
=============================================================================
