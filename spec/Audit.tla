-------------------------------- MODULE Audit --------------------------------
(***************************************************************************)
(* Audit and error logging of a finished transaction (transaction.go       *)
(* ProcessLogging / AuditLog / MatchRule, actions log, nolog, auditlog,    *)
(* noauditlog, ctl:auditEngine).                                           *)
(*                                                                         *)
(* A case fixes the audit engine (configured, optionally switched by ctl), *)
(* the relevant-status pattern, the rule engine mode, the logging flags of *)
(* the rules that fire, whether one of them is disruptive, the response    *)
(* status and the audit parts.  The specification gives: whether exactly   *)
(* one audit record is written, which rules it lists, and how often the    *)
(* error callback fires (C19).                                             *)
(*                                                                         *)
(* Law FormatStable (checked on the real formatters, every format): the    *)
(* bytes a formatter returns for a record are that record for good - they  *)
(* still read the same, and carry the same transaction id, after any       *)
(* number of later records were formatted (a writer may queue them).       *)
(***************************************************************************)
EXTENDS Integers, Sequences, FiniteSets, TLC, Json

FlagSeqs == { << >>, <<"log">>, <<"nolog">>, <<"auditlog">>, <<"noauditlog">>,
              <<"nolog", "auditlog">>, <<"log", "noauditlog">>, <<"auditlog", "nolog">> }

\* logging flags of a rule: SecRule/SecAction defaults are (no log, no audit); phase 2 inherits the
\* built-in default actions "log,auditlog"; the rule's own actions apply in order
RECURSIVE Fold(_, _)
Fold(fl, seq) ==
  IF seq = << >> THEN fl
  ELSE LET a == Head(seq) IN
       Fold(CASE a = "log"        -> [log |-> TRUE,  audit |-> TRUE]
              [] a = "nolog"      -> [log |-> FALSE, audit |-> FALSE]
              [] a = "auditlog"   -> [fl EXCEPT !.audit = TRUE]
              [] a = "noauditlog" -> [fl EXCEPT !.audit = FALSE]
              [] OTHER -> fl, Tail(seq))
Flags(phase, seq) == Fold(IF phase = 2 THEN [log |-> TRUE, audit |-> TRUE] ELSE [log |-> FALSE, audit |-> FALSE], seq)

Cases == [ ae    : {"On", "Off", "RelevantOnly"},          \* SecAuditEngine
           ctl   : {"", "On", "Off", "RelevantOnly"},      \* ctl:auditEngine executed by a phase-1 rule ("" = none)
           pat   : {"", "4", "5"},                         \* SecAuditLogRelevantStatus "^4" / "^5" ("" = unset)
           re    : {"On", "DetectionOnly"},                \* SecRuleEngine
           f1    : FlagSeqs, p1 : {1, 2},                  \* rule 10: always fires
           deny  : BOOLEAN, f2 : {<< >>, <<"log">>, <<"nolog">>, <<"nolog", "auditlog">>},   \* rule 20: phase-2 deny,status:403 (if deny)
           status : {200, 404, 500},                       \* response status given to ProcessResponseHeaders
           k     : BOOLEAN ]                               \* audit parts include K (matched rules)

CONSTANTS Slice, Slices
VARIABLES c, step
vars == <<c, step>>

Init == c \in {x \in Cases : (~x.deny => x.f2 = << >>) /\ ((x.status + 7 * (IF x.deny THEN 1 ELSE 0)) % Slices = Slice)} /\ step = 0
Next == step = 0 /\ step' = 1 /\ UNCHANGED c
Spec == Init /\ [][Next]_vars

Engine(x) == IF x.ctl = "" THEN x.ae ELSE x.ctl
Interrupted(x) == x.deny /\ x.re = "On"
WouldBe(x) == x.deny /\ x.re = "DetectionOnly"
\* the status the relevance test looks at: the interruption's, the would-be interruption's, or the response's
StatusUsed(x) == IF x.deny THEN 403 ELSE x.status
\* after an interruption in phase 2 the response phases are not processed, so no response status exists
FirstDigit(n) == n \div 100
Matches(x) == (x.pat = "4" /\ FirstDigit(StatusUsed(x)) = 4) \/ (x.pat = "5" /\ FirstDigit(StatusUsed(x)) = 5)

Fired(x) == <<[id |-> 10, fl |-> Flags(x.p1, x.f1)]>> \o (IF x.deny THEN <<[id |-> 20, fl |-> Flags(2, x.f2)]>> ELSE << >>)
\* rule ids listed in the record (part K): exactly the fired rules that are audit-enabled
Listed(x) == IF x.k THEN {Fired(x)[i].id : i \in {j \in 1..Len(Fired(x)) : Fired(x)[j].fl.audit}} ELSE {}
\* the error callback fires once per fired rule with logging enabled
Callbacks(x) == {Fired(x)[i].id : i \in {j \in 1..Len(Fired(x)) : Fired(x)[j].fl.log}}

\* "yes" exactly one record, "no" none.  RelevantOnly without a relevant-status pattern: the
\* transaction is relevant exactly when a rule with audit logging enabled fired (the reading the
\* code documents at ProcessLogging; nothing else could make a transaction relevant then).
AuditRuleFired(x) == \E i \in 1..Len(Fired(x)) : Fired(x)[i].fl.audit
Record(x) ==
  CASE Engine(x) = "Off" -> "no"
    [] Engine(x) = "On"  -> "yes"
    [] OTHER -> IF x.pat = "" THEN (IF AuditRuleFired(x) THEN "yes" ELSE "no") ELSE IF Matches(x) THEN "yes" ELSE "no"

AtMostOneRecord == Record(c) \in {"yes", "no", "open"}
OffNeverLogs == Engine(c) = "Off" => Record(c) = "no"
NologAuditlogListedNotCalled ==
  (c.f1 = <<"nolog", "auditlog">> /\ c.k) => (10 \in Listed(c) /\ 10 \notin Callbacks(c))

Emit == step = 1 => PrintT(<<"OUT", ToJson([c |-> c, record |-> Record(c), listed |-> Listed(c), callbacks |-> Callbacks(c),
                                                 interrupted |-> Interrupted(c), engine |-> Engine(c)])>>)
=============================================================================
