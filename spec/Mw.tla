---------------------------------- MODULE Mw ----------------------------------
(***************************************************************************)
(* The net/http middleware (http/middleware.go, http/interceptor.go) as a  *)
(* function from a case to what the wrapped handler and the client may     *)
(* see.  A case fixes the rule placement (an unconditional deny in phase   *)
(* 1-4, or none), body access / limit action on both sides, the request    *)
(* body size relative to the request limit and whether its length is       *)
(* announced, and the handler's script: a sequence of operations           *)
(*   RB(n) read the whole request body in manner n   WH(s) WriteHeader(s)  *)
(*   W(k) Write k bytes   RF(k) ReadFrom a reader of k bytes   FL Flush    *)
(* C18: a request interrupted in a request phase never reaches the         *)
(* handler and the client gets the interruption's status and no handler    *)
(* output; a response interrupted in a response phase delivers none of the *)
(* handler's body; otherwise handler and client see exactly each other's   *)
(* data.                                                                   *)
(***************************************************************************)
EXTENDS Integers, Sequences, FiniteSets, TLC, Json

ReqLimit == 8
RespLimit == 8

Op(o, n) == [o |-> o, n |-> n]
Scripts ==
  { <<Op("W", 5)>>, <<Op("RB", 0), Op("W", 5)>>, <<Op("WH", 201), Op("W", 3), Op("W", 5)>>, <<Op("W", 8)>>, <<Op("W", 3), Op("FL", 0), Op("W", 9)>>,
    <<Op("FL", 0), Op("W", 4)>>, <<Op("RF", 12)>>, <<Op("WH", 404)>>, <<Op("WH", 204)>>, <<Op("WH", 304)>>,
    <<Op("RB", 0), Op("WH", 200), Op("RF", 8), Op("FL", 0)>>, <<Op("W", 4), Op("W", 4), Op("W", 4)>>, <<Op("RB", 0)>>,
    <<Op("WH", 500), Op("W", 20)>>,
    <<Op("WH", 103), Op("WH", 200), Op("W", 3)>>, <<Op("WH", 103), Op("WH", 404)>>,      \* an informational status is not the response status
    \* ways of reading the request body (RB n): 0 all at once, 1 a few bytes with Read and the rest with io.Copy
    \* (the reader's WriteTo, if it has one), 2 a loop of small reads, 3 io.Copy alone, 4 one byte, then all at once
    <<Op("RB", 1), Op("W", 5)>>, <<Op("RB", 2), Op("W", 5)>>, <<Op("RB", 3), Op("W", 5)>>, <<Op("RB", 4), Op("W", 5)>> }

Cases == [ deny : 0..4,                                    \* phase of an unconditional deny (0 = none)
           reqAccess : BOOLEAN, reqAction : {"Reject", "ProcessPartial"},
           respAccess : BOOLEAN, respAction : {"Reject", "ProcessPartial"},
           ctl : {"", "reqOn1", "respOn3"},                 \* a rule switching body access on at run time: ctl:requestBodyAccess=On in phase 1 / ctl:responseBodyAccess=On in phase 3
           badct : BOOLEAN,                                 \* the handler's Content-Type carries a malformed parameter section ("text/plain; charset"): still text/plain
           body : {0, 4, 8, 12}, known : BOOLEAN,           \* request body size; Content-Length announced or chunked
           script : Scripts ]

\* ---- handler script ----
RECURSIVE Written(_)
Written(s) == IF s = << >> THEN 0 ELSE (IF Head(s).o \in {"W", "RF"} THEN Head(s).n ELSE 0) + Written(Tail(s))
ExplicitStatus(s) == LET ws == {i \in 1..Len(s) : s[i].o = "WH" /\ s[i].n >= 200} IN
                     IF ws = {} THEN 200
                     ELSE LET f == CHOOSE i \in ws : \A j \in ws : i <= j IN
                          \* a WriteHeader after the first output is superfluous
                          IF \E j \in 1..(f - 1) : s[j].o \in {"W", "RF", "FL"} THEN 200 ELSE s[f].n
Touches(s) == \E i \in 1..Len(s) : s[i].o \in {"W", "RF", "FL", "WH"}   \* the response is started by the handler
ReadsBody(s) == \E i \in 1..Len(s) : s[i].o = "RB"
NoBodyStatus(st) == st \in {204, 304}

CONSTANTS Slice, Slices
VARIABLES c, step
EffReqAccess(x) == x.reqAccess \/ x.ctl = "reqOn1"
EffRespAccess(x) == x.respAccess \/ x.ctl = "respOn3"
Init == c \in {x \in Cases : /\ (x.deny = 4 => EffRespAccess(x))
                              /\ (x.badct => (EffRespAccess(x) /\ x.ctl = "" /\ x.deny \in {0, 4} /\ x.body = 0))        \* only where the response body is inspected
                              /\ (x.ctl = "reqOn1" => ~x.reqAccess) /\ (x.ctl = "respOn3" => ~x.respAccess)   \* only where the switch changes something          \* phase 4 needs an inspectable response body
                              /\ (x.deny \in {3, 4} => Touches(x.script)) \* a handler that never starts a response: left open
                              /\ (x.body = 0 => x.known)
                              /\ ((x.body + x.deny) % Slices = Slice)} /\ step = 0
Next == step = 0 /\ step' = 1 /\ UNCHANGED c
Spec == Init /\ [][Next]_<<c, step>>

\* ---- request side ----
OverReq(x) == EffReqAccess(x) /\ x.body >= ReqLimit
ReqBlocked(x) == x.deny = 1 \/ (OverReq(x) /\ x.reqAction = "Reject") \/ x.deny = 2
ReqStatus(x) == IF x.deny = 1 THEN 403
                ELSE IF OverReq(x) /\ x.reqAction = "Reject" THEN 413
                ELSE 403

\* ---- response side ----
Inspectable(x) == EffRespAccess(x)                      \* the handler sets a processable content type
OverResp(x) == Inspectable(x) /\ Written(x.script) >= RespLimit
RespBlocked(x) ==
  ~ReqBlocked(x) /\ ( (x.deny = 3 /\ Touches(x.script))
                      \/ (OverResp(x) /\ x.respAction = "Reject")
                      \/ (x.deny = 4 /\ Inspectable(x)) )
RespStatus(x) == IF x.deny = 3 /\ Touches(x.script) THEN 403
                 ELSE IF OverResp(x) /\ x.respAction = "Reject" THEN 500
                 ELSE 403

Expected(x) ==
  IF ReqBlocked(x)
    THEN [handlerInvoked |-> FALSE, handlerRead |-> 0 - 1, status |-> ReqStatus(x), bodyLen |-> 0, passthrough |-> FALSE]
  ELSE IF RespBlocked(x)
    THEN [handlerInvoked |-> TRUE, handlerRead |-> IF ReadsBody(x.script) THEN x.body ELSE 0 - 1,
          status |-> RespStatus(x), bodyLen |-> 0, passthrough |-> FALSE]
  ELSE [handlerInvoked |-> TRUE, handlerRead |-> IF ReadsBody(x.script) THEN x.body ELSE 0 - 1,
        status |-> ExplicitStatus(x.script), bodyLen |-> IF NoBodyStatus(ExplicitStatus(x.script)) THEN 0 ELSE Written(x.script),
        passthrough |-> TRUE]

\* design-level statements of C18 on the decision function
BlockedNeverReachesHandler == ReqBlocked(c) => ~Expected(c).handlerInvoked /\ Expected(c).bodyLen = 0
BlockedResponseLeaksNothing == RespBlocked(c) => Expected(c).bodyLen = 0
PassThroughIsIdentity == (~ReqBlocked(c) /\ ~RespBlocked(c)) => Expected(c).passthrough

Emit == step = 1 => PrintT(<<"OUT", ToJson([c |-> c, exp |-> Expected(c)])>>)
=============================================================================
