----------------------------- MODULE Grammar_MC -----------------------------
(***************************************************************************)
(* C07 (totality): compiling any directive text yields a WAF or an error,  *)
(* and any traffic through any accepted configuration returns normally.    *)
(* This module enumerates the configuration grammar: every vocabulary item *)
(* of the real registries (module Vocab is generated at check time from    *)
(* the sources under /repo: directives, actions, operators,                *)
(* transformations, variables, ctl options) in every syntactic role.       *)
(* A case is a skeleton; the Go harness spells it as SecLang text, adds    *)
(* byte-level mutations of it, compiles and drives traffic under recover() *)
(* and a watchdog.  The specification's statement is simply that every     *)
(* case has an outcome in {waf, error} - there is no third outcome.        *)
(***************************************************************************)
EXTENDS Vocab, Naturals, TLC, Json, FiniteSets, Sequences

VarRoles == {"plain", "count", "key", "rxkey", "rxopen", "neg", "negkey", "negrx", "macro", "macrokey", "setvarkey", "ctltarget", "updatetarget"}
OpArgs == {"good", "empty", "macro", "openmacro", "weird", "negated"}
ActSpellings == {"bare", "value", "quoted", "empty", "macro", "openmacro", "emptymacro", "plus", "minus", "bang", "dup", "upper"}
CtlVals == {"good", "boundary", "negative", "garbage", "empty"}
DirVals == {"good", "boundary", "negative", "garbage", "empty", "quoted"}

\* directives whose argument is one of a documented list of words (reference manual): every word is a case of its own (directive names as the registry spells them: lower case),
\* spelled "=<word>"; the audit log is switched on in every case, so each of them is also exercised at logging time
DirEnum == [d \in {"secauditlogtype", "secauditlogformat", "secauditengine", "secruleengine", "secrequestbodylimitaction",
                   "secresponsebodylimitaction", "secauditlogparts", "secdebugloglevel", "secauditlogrelevantstatus",
                   "secrequestbodyaccess", "secresponsebodyaccess", "secrequestbodylimit", "secresponsebodylimit",
                   "secrequestbodyinmemorylimit", "secargumentslimit"} |->
  CASE d = "secauditlogtype" -> {"=Serial", "=Concurrent", "=Https", "=Syslog"}
    [] d = "secauditlogformat" -> {"=Native", "=JSON", "=JsonLegacy", "=OCSF"}
    [] d = "secauditengine" -> {"=On", "=Off", "=RelevantOnly"}
    [] d = "secruleengine" -> {"=On", "=Off", "=DetectionOnly"}
    [] d \in {"secrequestbodylimitaction", "secresponsebodylimitaction"} -> {"=Reject", "=ProcessPartial"}
    [] d = "secauditlogparts" -> {"=ABCDEFGHIJKZ", "=ABZ", "=AHZ"}
    [] d = "secdebugloglevel" -> {"=0", "=3", "=9"}
    [] d = "secauditlogrelevantstatus" -> {"=^5", "=.*"}
    [] d \in {"secrequestbodyaccess", "secresponsebodyaccess"} -> {"=On", "=Off"}
    [] OTHER -> {"=1", "=7", "=1048576"}]
EnumCases == UNION {[f : {"dir"}, x : {d}, y : DirEnum[d]] : d \in DOMAIN DirEnum \cap Directives}

Cases ==
  [f : {"var"}, x : Variables, y : VarRoles]
  \cup [f : {"op"}, x : Operators, y : OpArgs]
  \cup [f : {"act"}, x : Actions, y : ActSpellings]
  \cup [f : {"tf"}, x : Transformations, y : {"single", "after-none", "twice", "multimatch"}]
  \cup [f : {"ctl"}, x : CtlOptions, y : CtlVals]
  \cup [f : {"dir"}, x : Directives, y : DirVals]
  \cup EnumCases

Outcomes == {"waf", "error"}

VARIABLES c
Init == c \in Cases
Next == UNCHANGED c
Spec == Init /\ [][Next]_c
Emit == PrintT(<<"OUT", ToJson(c)>>)
\* every vocabulary family is present (a generated Vocab that lost a registry would make the check vacuous)
VocabComplete == /\ Cardinality(Variables) >= 50 /\ Cardinality(Operators) >= 25 /\ Cardinality(Actions) >= 25
                 /\ Cardinality(Transformations) >= 25 /\ Cardinality(Directives) >= 40 /\ Cardinality(CtlOptions) >= 10
                 /\ Cardinality(EnumCases) >= 30
=============================================================================
