SPECIFICATION Spec
CONSTRAINT Mark
INVARIANTS NoLeakAcrossPhases DetectionOnlySilent
POSTCONDITION TraceAccepted
CHECK_DEADLOCK FALSE
