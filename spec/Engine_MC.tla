------------------------------ MODULE Engine_MC ------------------------------
(***************************************************************************)
(* Bounded instance of Engine: TLC picks a scenario of the configured      *)
(* family, then performs the transaction rule iteration by rule iteration  *)
(* (one action per iteration of RuleGroup.Eval's loop that is not          *)
(* phase-filtered, one action per phase boundary), choosing the runtime's  *)
(* iteration order anew at every rule evaluation.  Every terminal state    *)
(* emits <<"OUT", json>> = the scenario with an outcome the specification  *)
(* allows; the Go harness replays the scenario on the real library and     *)
(* checks that what it observes is one of the emitted outcomes.            *)
(***************************************************************************)
EXTENDS Scen, Json

CONSTANTS Family,      \* "flow" | "match" | ...
          N,           \* size parameter of the family
          MaxChain,
          Phases,
          Engines,
          Slice, Slices,  \* this TLC process explores slice Slice of Slices of the family
          CacheOn,        \* TRUE: interpret with the EngineCache layer
          CacheDesign     \* "positional" | "byValue": the key of the transformation cache

VARIABLES pick, scen, st, p, i, rxMode, done,
          lastBranch   \* observation only

vars == <<pick, scen, st, p, i, rxMode, done, lastBranch>>

Picks ==
  CASE Family = "flow"  -> FlowPicks(N, Phases, MaxChain, Engines, Slice, Slices)
    [] Family = "markers" -> MarkerPicks(N, Phases, Slice, Slices)
    [] Family = "modes"   -> ModePicks(N, Engines, Slice, Slices)
    [] Family = "select"  -> SelectPicks(N, Phases, Slice, Slices)
    [] Family = "select2" -> Sel2Picks(N, Phases, Slice, Slices)
    [] Family = "operate" -> OperatePicks(N, Phases, Slice, Slices)
    [] Family = "chain"   -> ChainPicks(N, MaxChain, Phases, Slice, Slices)
    [] Family = "acts"    -> ActsPicks(N, MaxChain > 0, Slice, Slices)
    [] Family = "cache"   -> CachePicks(N, MaxChain > 0, Slice, Slices)
    [] Family = "dirs"    -> DirPicks(MaxChain > 0, Slice, Slices)
    [] Family = "pair"    -> PairPicks(N, Slice, Slices)
ScenOf(pk) ==
  CASE Family = "flow"    -> FlowScen(pk)
    [] Family = "markers" -> MarkerScen(pk)
    [] Family = "modes"   -> ModeScen(pk)
    [] Family = "select"  -> SelectScen(pk)
    [] Family = "select2" -> Sel2Scen(pk)
    [] Family = "operate" -> OperateScen(pk)
    [] Family = "chain"   -> ChainScen(pk)
    [] Family = "acts"    -> ActsScen(pk)
    [] Family = "cache"   -> CacheScen(pk)
    [] Family = "dirs"    -> DirScen(pk)
    [] Family = "pair"    -> PairScen(pk)

HasRx(sc) ==
  \E ri \in 1..Len(sc.rules) : \E li \in 1..Len(sc.rules[ri].links) :
    \E ti \in 1..Len(sc.rules[ri].links[li].targets) :
      LET tg == sc.rules[ri].links[li].targets[ti] IN
      tg.sel.t = "rx" \/ \E ei \in 1..Len(tg.excl) : tg.excl[ei].t = "rx"
\* ... or in a run-time target exclusion carried by a ctl action
HasCtlRx(sc) ==
  \E ri \in 1..Len(sc.rules) : \E li \in 1..Len(sc.rules[ri].links) :
    \E ai \in 1..Len(sc.rules[ri].links[li].acts) :
      LET a == sc.rules[ri].links[li].acts[ai] IN
      a.a = "ctl" /\ a.s \in {"ruleRemoveTargetById", "ruleRemoveTargetByTag", "ruleRemoveTargetByMsg"} /\ a.k[1].sel.t = "rx"

Init ==
  /\ pick \in Picks
  /\ scen = ScenOf(pick)
  /\ rxMode \in (IF HasRx(scen) \/ HasCtlRx(scen) THEN {[args |-> ma, other |-> mo] : ma \in RxModes, mo \in {"orig", "fold"}} ELSE {RxMode("orig")})
  /\ st = [InitState(scen.engine) EXCEPT !.cacheOn = CacheOn, !.cacheKeyDesign = CacheDesign]
  /\ p = 1
  /\ i = 1
  /\ done = FALSE
  /\ lastBranch = "init"

\* families whose requests never hold two data under one variable need no order exploration
Orders == IF Family \in {"flow", "markers", "modes"} THEN {[k \in 1..Len(scen.req) |-> k]} ELSE Permutations(1..Len(scen.req))
\* scen is a function of pick: leave it out of the fingerprint
View == <<pick, st, p, i, rxMode, done>>

\* the rule list the interpreter runs: the configuration after its exclusion/update directives
Rules == ApplyDirs(scen.rules, scen.dirs)

\* index of the next rule at or after j that is not filtered out by its phase (Len+1 if none)
RECURSIVE NextIdx(_, _)
NextIdx(j, ph) ==
  IF j > Len(Rules) THEN j
  ELSE IF Rules[j].phase = 0 \/ Rules[j].phase = ph THEN j ELSE NextIdx(j + 1, ph)

\* One iteration of the rule loop
Step ==
  /\ ~done
  /\ (st.engine # "Off" \/ i > 1)      \* a phase is not entered with the engine off; switched off by ctl in the middle of a phase, the loop goes on (as RunPhase does)
  /\ ~(st.intr # None /\ p # 5)
  /\ LET j == NextIdx(i, p) IN
     /\ j <= Len(Rules)
     /\ \E ord \in Orders :
          LET res == StepRule(st, scen.req, ord, rxMode, Rules[j], p) IN
          /\ st' = res.st
          /\ lastBranch' = res.branch
     /\ i' = j + 1
  /\ UNCHANGED <<pick, scen, p, rxMode, done>>

\* End of the rule loop of phase p (also taken at once when the phase is not entered)
PhaseEnd ==
  /\ ~done
  /\ \/ (st.engine = "Off" /\ i = 1)
     \/ (st.intr # None /\ p # 5)
     \/ NextIdx(i, p) > Len(Rules)
  \* a phase that is not entered (engine off, or interrupted before its first rule) changes nothing;
  \* a phase that was entered ends with the resets even when it is left through the interruption break
  /\ st' = IF (st.engine = "Off" /\ i = 1) \/ (st.intr # None /\ p # 5 /\ i = 1) THEN st ELSE EndPhase(st, p)
  /\ IF p = 5 THEN done' = TRUE /\ p' = p /\ i' = i
              ELSE done' = FALSE /\ p' = p + 1 /\ i' = 1
  /\ lastBranch' = "phaseEnd"
  /\ UNCHANGED <<pick, scen, rxMode>>

Next == Step \/ PhaseEnd

Spec == Init /\ [][Next]_vars

(***************************************************************************)
(* Emission of the expected outcome (terminal states only).                *)
(***************************************************************************)
Emit == done => PrintT(<<"OUT", ToJson([scen |-> scen, rxMode |-> rxMode, out |-> Outcome(st), mayRefuse |-> DirsMayBeRefused(scen.rules, scen.dirs)])>>)

(***************************************************************************)
(* Design-level invariants of the interpreter (checked in every state).    *)
(***************************************************************************)
\* residual flow-control state never crosses a phase boundary (C08)
NoLeakAcrossPhases ==
  (i = 1 /\ ~done) => (st.skip = 0 /\ st.skipAfter = "" /\ st.allow # "phase"
                        /\ (p >= 3 => st.allow # "request"))

\* in DetectionOnly no interruption is ever recorded; allow is never set (C02, C08)
SwitchesEngine(sc) ==
  \E ri \in 1..Len(sc.rules) : \E li \in 1..Len(sc.rules[ri].links) : \E ai \in 1..Len(sc.rules[ri].links[li].acts) :
    sc.rules[ri].links[li].acts[ai].a = "ctl" /\ sc.rules[ri].links[li].acts[ai].s = "ruleEngine"
DetectionOnlySilent ==
  (scen.engine = "DetectionOnly" /\ ~SwitchesEngine(scen)) => (st.intr = None /\ st.allow = "unset")

\* rules fire in configuration order within a phase and each at most once per phase (C01)
RuleIdx(id) == CHOOSE j \in 1..Len(Rules) : Rules[j].id = id
FiredInOrder ==
  \A a, b \in 1..Len(st.fired) :
     (a < b /\ Rules[RuleIdx(st.fired[a].id)].phase = Rules[RuleIdx(st.fired[b].id)].phase)
        => RuleIdx(st.fired[a].id) < RuleIdx(st.fired[b].id)

\* every fired rule carries match data, every datum satisfied the link it belongs to
FiredHaveData == \A a \in 1..Len(st.fired) : st.fired[a].md # << >>

\* sharing transformation work never hands a rule a value other than its own transformation of
\* the datum it is looking at (C12)
CacheSound == ~st.unsound

\* an interruption is final, and nothing of phases 1-4 fires after it (C02)
InterruptFinal == [][st.intr # None => st'.intr = st.intr]_vars
NothingAfterInterrupt == [][(st.intr # None /\ p # 5) => st'.fired = st.fired]_vars
\* the logging phase is always reached and its rules are evaluated unless removed / skipped within it
LoggingReached == done => p = 5

=============================================================================
