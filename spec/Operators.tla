------------------------------ MODULE Operators ------------------------------
(***************************************************************************)
(* The documented predicates of the built-in operators (C15), as direct    *)
(* executable definitions over byte strings:                               *)
(*   @streq @contains @strmatch @beginsWith @endsWith @within              *)
(*   @eq @ge @gt @le @lt            (decimal integers; anything else is 0) *)
(*   @pm                            (ASCII-case-insensitive substring of   *)
(*                                   any listed phrase)                    *)
(*   @validateByteRange @validateUrlEncoding @validateUtf8Encoding         *)
(*   @ipMatch                       (CIDR membership)                      *)
(* Operators_MC evaluates them on the whole input domain and prints the    *)
(* truth table the real operators are compared with.                       *)
(***************************************************************************)
EXTENDS Bytes, TLC

\* ---- phrase lists: a byte string split at spaces ----
RECURSIVE SplitSpace(_, _)
SplitSpace(s, cur) ==
  IF s = << >> THEN (IF cur = << >> THEN << >> ELSE <<cur>>)
  ELSE IF Head(s) = 32 THEN (IF cur = << >> THEN << >> ELSE <<cur>>) \o SplitSpace(Tail(s), << >>)
  ELSE SplitSpace(Tail(s), Append(cur, Head(s)))
Phrases(arg) == SplitSpace(arg, << >>)
PmHolds(arg, v) == \E i \in 1..Len(Phrases(arg)) : Contains(Lower(v), Lower(Phrases(arg)[i]))

\* ---- byte ranges: a set of bytes ----
ByteRangeViolated(valid, v) == v # << >> /\ \E i \in 1..Len(v) : v[i] \notin valid

\* ---- URL encoding: every % is followed by two hex digits ----
UrlEncodingBad(v) == v # << >> /\ \E i \in 1..Len(v) : v[i] = 37 /\ ~(i + 2 <= Len(v) /\ IsHex(v[i + 1]) /\ IsHex(v[i + 2]))

\* ---- UTF-8 (1, 2 and 3 byte forms are enough for the alphabet; 0xF8..0xFF never valid) ----
IsCont(c) == c >= 128 /\ c <= 191
RECURSIVE Utf8Valid(_)
Utf8Valid(v) ==
  IF v = << >> THEN TRUE
  ELSE LET c == v[1] IN
       IF c < 128 THEN Utf8Valid(Tail(v))
       ELSE IF c >= 194 /\ c <= 223 THEN Len(v) >= 2 /\ IsCont(v[2]) /\ Utf8Valid(SubSeq(v, 3, Len(v)))
       ELSE IF c >= 224 /\ c <= 239 THEN
              /\ Len(v) >= 3 /\ IsCont(v[2]) /\ IsCont(v[3])
              /\ (c = 224 => v[2] >= 160) /\ (c = 237 => v[2] <= 159)
              /\ Utf8Valid(SubSeq(v, 4, Len(v)))
       ELSE FALSE

\* ---- the predicate of a (operator, argument) pair ----
Holds(op, arg, v) ==
  CASE op = "streq"      -> v = arg
    [] op = "contains"   -> Contains(v, arg)
    [] op = "strmatch"   -> Contains(v, arg)
    [] op = "beginsWith" -> HasPrefix(v, arg)
    [] op = "endsWith"   -> HasSuffix(v, arg)
    [] op = "within"     -> Contains(arg, v)
    [] op = "eq"         -> AtoiOr0(v) = AtoiOr0(arg)
    [] op = "ge"         -> AtoiOr0(v) >= AtoiOr0(arg)
    [] op = "gt"         -> AtoiOr0(v) > AtoiOr0(arg)
    [] op = "le"         -> AtoiOr0(v) <= AtoiOr0(arg)
    [] op = "lt"         -> AtoiOr0(v) < AtoiOr0(arg)
    [] op = "pm"         -> PmHolds(arg, v)
    [] op = "validateUrlEncoding"  -> UrlEncodingBad(v)
    [] op = "validateUtf8Encoding" -> ~Utf8Valid(v)
    [] OTHER -> FALSE

\* ---- CIDR membership over the 8-bit host space 10.0.0.0/24: address = last octet ----
RECURSIVE Pow2(_)
Pow2(n) == IF n = 0 THEN 1 ELSE 2 * Pow2(n - 1)
InCidr(a, base, plen) == (a \div Pow2(32 - plen)) = (base \div Pow2(32 - plen))     \* 24 <= plen <= 32
=============================================================================
