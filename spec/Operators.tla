------------------------------ MODULE Operators ------------------------------
(***************************************************************************)
(* The documented predicates of the built-in operators (C15), as direct    *)
(* executable definitions over byte strings:                               *)
(*   @streq @contains @strmatch @beginsWith @endsWith @within              *)
(*   @eq @ge @gt @le @lt            (decimal integers; anything else is 0) *)
(*   @pm                            (ASCII-case-insensitive substring of   *)
(*                                   any listed phrase)                    *)
(*   @validateByteRange @validateUrlEncoding @validateUtf8Encoding         *)
(*   @ipMatch                       (CIDR membership)                      *)
(* Operators_MC evaluates them on the whole input domain and prints the    *)
(* truth table the real operators are compared with.                       *)
(***************************************************************************)
EXTENDS Bytes, TLC

\* ---- phrase lists: a byte string split at spaces ----
RECURSIVE SplitSpace(_, _)
SplitSpace(s, cur) ==
  IF s = << >> THEN (IF cur = << >> THEN << >> ELSE <<cur>>)
  ELSE IF Head(s) = 32 THEN (IF cur = << >> THEN << >> ELSE <<cur>>) \o SplitSpace(Tail(s), << >>)
  ELSE SplitSpace(Tail(s), Append(cur, Head(s)))
Phrases(arg) == SplitSpace(arg, << >>)
PmHolds(arg, v) == \E i \in 1..Len(Phrases(arg)) : Contains(Lower(v), Lower(Phrases(arg)[i]))

\* ---- byte ranges: a set of bytes ----
ByteRangeViolated(valid, v) == v # << >> /\ \E i \in 1..Len(v) : v[i] \notin valid

\* ---- URL encoding: every % is followed by two hex digits ----
UrlEncodingBad(v) == v # << >> /\ \E i \in 1..Len(v) : v[i] = 37 /\ ~(i + 2 <= Len(v) /\ IsHex(v[i + 1]) /\ IsHex(v[i + 2]))

\* ---- UTF-8 (1, 2 and 3 byte forms are enough for the alphabet; 0xF8..0xFF never valid) ----
IsCont(c) == c >= 128 /\ c <= 191
RECURSIVE Utf8Valid(_)
Utf8Valid(v) ==
  IF v = << >> THEN TRUE
  ELSE LET c == v[1] IN
       IF c < 128 THEN Utf8Valid(Tail(v))
       ELSE IF c >= 194 /\ c <= 223 THEN Len(v) >= 2 /\ IsCont(v[2]) /\ Utf8Valid(SubSeq(v, 3, Len(v)))
       ELSE IF c >= 224 /\ c <= 239 THEN
              /\ Len(v) >= 3 /\ IsCont(v[2]) /\ IsCont(v[3])
              /\ (c = 224 => v[2] >= 160) /\ (c = 237 => v[2] <= 159)
              /\ Utf8Valid(SubSeq(v, 4, Len(v)))
       ELSE FALSE

\* ---- decimal integers of any length (TLC's own integers are 32 bit): sign and magnitude ----
\* The numeric comparisons are comparisons of the integers the two texts denote, however long the
\* texts are: "99999999999999999999" is greater than 1048576. A text that is not [+-]digits denotes 0.
RECURSIVE StripZeros(_)
StripZeros(d) == IF d # << >> /\ Head(d) = 48 THEN StripZeros(Tail(d)) ELSE d
DecMag(v) == IF ~IsInt(v) THEN << >> ELSE StripZeros(IF v[1] \in {43, 45} THEN Tail(v) ELSE v)
DecNeg(v) == IsInt(v) /\ v[1] = 45 /\ DecMag(v) # << >>
RECURSIVE LexLess(_, _)
LexLess(x, y) == x # << >> /\ (Head(x) < Head(y) \/ (Head(x) = Head(y) /\ LexLess(Tail(x), Tail(y))))      \* equal lengths
MagLess(x, y) == Len(x) < Len(y) \/ (Len(x) = Len(y) /\ LexLess(x, y))
DecLess(v, w) ==
  IF DecNeg(v) /\ ~DecNeg(w) THEN TRUE
  ELSE IF ~DecNeg(v) /\ DecNeg(w) THEN FALSE
  ELSE IF DecNeg(v) THEN MagLess(DecMag(w), DecMag(v))
  ELSE MagLess(DecMag(v), DecMag(w))
DecEq(v, w) == DecNeg(v) = DecNeg(w) /\ DecMag(v) = DecMag(w)
MaxMag64 == <<57,50,50,51,51,55,50,48,51,54,56,53,52,55,55,53,56,48,55>>     \* 9223372036854775807
MinMag64 == <<57,50,50,51,51,55,50,48,51,54,56,53,52,55,55,53,56,48,56>>     \* 9223372036854775808
Beyond64(v) == IF DecNeg(v) THEN MagLess(MinMag64, DecMag(v)) ELSE MagLess(MaxMag64, DecMag(v))
WideHolds(op, arg, v) ==
  CASE op = "eq" -> DecEq(v, arg)
    [] op = "ge" -> ~DecLess(v, arg)
    [] op = "gt" -> DecLess(arg, v)
    [] op = "le" -> ~DecLess(arg, v)
    [] op = "lt" -> DecLess(v, arg)
\* Choice_Beyond64: a machine integer cannot tell a text beyond the 64-bit range from the bound on
\* its side (or from another text beyond it); exactly those pairs are left open. Everything else,
\* including a text beyond the range against any number inside it, is decided.
SatMag(v) == IF Beyond64(v) THEN (IF DecNeg(v) THEN MinMag64 ELSE MaxMag64) ELSE DecMag(v)
WideOpen(arg, v) == (Beyond64(arg) \/ Beyond64(v)) /\ DecNeg(arg) = DecNeg(v) /\ SatMag(arg) = SatMag(v)

\* ---- the predicate of a (operator, argument) pair ----
Holds(op, arg, v) ==
  CASE op = "streq"      -> v = arg
    [] op = "contains"   -> Contains(v, arg)
    [] op = "strmatch"   -> Contains(v, arg)
    [] op = "beginsWith" -> HasPrefix(v, arg)
    [] op = "endsWith"   -> HasSuffix(v, arg)
    [] op = "within"     -> Contains(arg, v)
    [] op = "eq"         -> AtoiOr0(v) = AtoiOr0(arg)
    [] op = "ge"         -> AtoiOr0(v) >= AtoiOr0(arg)
    [] op = "gt"         -> AtoiOr0(v) > AtoiOr0(arg)
    [] op = "le"         -> AtoiOr0(v) <= AtoiOr0(arg)
    [] op = "lt"         -> AtoiOr0(v) < AtoiOr0(arg)
    [] op = "pm"         -> PmHolds(arg, v)
    [] op = "validateUrlEncoding"  -> UrlEncodingBad(v)
    [] op = "validateUtf8Encoding" -> ~Utf8Valid(v)
    [] OTHER -> FALSE

\* ---- CIDR membership over the 8-bit host space 10.0.0.0/24: address = last octet ----
RECURSIVE Pow2(_)
Pow2(n) == IF n = 0 THEN 1 ELSE 2 * Pow2(n - 1)
InCidr(a, base, plen) == (a \div Pow2(32 - plen)) = (base \div Pow2(32 - plen))     \* 24 <= plen <= 32
(***************************************************************************)
(* Capturing operators: text i of the match (0 = the whole match, then the *)
(* groups / the phrases found, in order) is stored in TX.i for i in 0..9;  *)
(* anything beyond the tenth text is dropped; a group that takes no part   *)
(* in the match leaves its TX.i empty.                                     *)
(***************************************************************************)
CaptureTX(texts) == [i \in 1..10 |-> IF i <= Len(texts) THEN texts[i] ELSE << >>]
CapLetters == <<97, 98, 99, 100, 101, 102, 103, 104, 105, 106, 107, 108>>
RECURSIVE CatSeq(_)
CatSeq(ss) == IF ss = << >> THEN << >> ELSE Head(ss) \o CatSeq(Tail(ss))
\* @rx with n one-letter groups (a)(b)(c)..; with opt the even groups are optional and absent from the input
RxCapCase(n, opt) ==
  LET absent(k) == opt /\ k % 2 = 0
      grp(k) == <<40, CapLetters[k], 41>> \o (IF absent(k) THEN <<63>> ELSE << >>)
      inp == CatSeq([k \in 1..n |-> IF absent(k) THEN << >> ELSE <<CapLetters[k]>>])
      texts == <<inp>> \o [k \in 1..n |-> IF absent(k) THEN << >> ELSE <<CapLetters[k]>>]
  IN [op |-> "rx", arg |-> CatSeq([k \in 1..n |-> grp(k)]), in |-> inp, tx |-> CaptureTX(texts), used |-> IF n + 1 < 10 THEN n + 1 ELSE 10]
\* @pm with n two-letter phrases pa pb pc .. all present in the input, in order
PmCapCase(n) ==
  LET ph(k) == <<112, CapLetters[k]>>
  IN [op |-> "pm", arg |-> CatSeq([k \in 1..n |-> ph(k) \o (IF k < n THEN <<32>> ELSE << >>)]),
      in |-> CatSeq([k \in 1..n |-> <<45>> \o ph(k)]), tx |-> CaptureTX([k \in 1..n |-> ph(k)]), used |-> IF n < 10 THEN n ELSE 10]
CapTable == {RxCapCase(n, o) : n \in 0..12, o \in BOOLEAN} \cup {PmCapCase(n) : n \in 1..12}
(***************************************************************************)
(* @rx: the dot matches every byte, the newline included, whatever else    *)
(* the pattern contains (a pattern that names a byte outside UTF-8 by an   *)
(* escape is matched byte-wise by another engine: the same must hold).     *)
(* Patterns  <pre>.<post>  on inputs  <pre bytes> NL <post bytes>.         *)
(***************************************************************************)
RxAtoms == << [pat |-> <<97>>, bytes |-> <<97>>],                         \* a
              [pat |-> <<92, 120, 102, 102>>, bytes |-> <<255>>],         \* \xff
              [pat |-> <<92, 120, 54, 49>>, bytes |-> <<97>>],            \* \x61
              [pat |-> <<91, 97, 45, 99, 93>>, bytes |-> <<98>>] >>       \* [a-c]
RxDotTable == {[arg |-> RxAtoms[i].pat \o <<46>> \o RxAtoms[j].pat, in |-> RxAtoms[i].bytes \o <<10>> \o RxAtoms[j].bytes, holds |-> TRUE] :
                 i \in 1..Len(RxAtoms), j \in 1..Len(RxAtoms)}
              \cup {[arg |-> RxAtoms[i].pat \o <<46>> \o RxAtoms[j].pat, in |-> RxAtoms[i].bytes \o RxAtoms[j].bytes, holds |-> FALSE] :
                 i \in 1..Len(RxAtoms), j \in 1..Len(RxAtoms)}
=============================================================================
