SPECIFICATION Spec
CONSTANTS
  MaxTokens = 2
  MaxPreds = 1
INVARIANTS FreshAfterNew ReadersDead Emit
CHECK_DEADLOCK FALSE
