------------------------------ MODULE Encode_MC ------------------------------
EXTENDS Encode, Json
CONSTANTS NameSet, ValAlphabet, MaxValLen, MaxPairs, Slice, Slices
VARIABLES pairs

RECURSIVE Strs(_)
\* values are concatenations of up to MaxValLen tokens: plain bytes, every reserved character, a non-UTF-8
\* byte, a form feed, a no-break space, double quotes (alone, as an empty quoted string, around a letter), and text that itself looks like an escape ("%25", "%41", a lone "%", "%2")
Tokens == {<<97>>, <<37, 50, 53>>, <<37, 52, 49>>, <<37>>, <<37, 50>>, <<43>>, <<38>>, <<61>>, <<32>>, <<255>>, <<12>>, <<194, 160>>, <<34>>, <<34, 34>>, <<34, 97, 34>>} \cup {<<c>> : c \in ValAlphabet}
RECURSIVE StrsK(_)
StrsK(n) == IF n = 0 THEN {<< >>} ELSE {q \o c : q \in StrsK(n - 1), c \in Tokens}
Strs(n) == UNION {StrsK(k) : k \in 0..n}
Names == {<<97>>, <<65>>, <<97, 32, 98>>, <<97, 37, 50, 53>>}    \* "a" "A" "a b" "a%25"
Pair == [n : Names, v : Strs(MaxValLen)]
RECURSIVE Lists(_)
Lists(n) == IF n = 0 THEN {<< >>} ELSE Lists(n - 1) \cup {Append(q, p) : q \in {x \in Lists(n - 1) : Len(x) = n - 1}, p \in Pair}

RECURSIVE Weight(_)
Weight(l) == IF l = << >> THEN 0 ELSE Len(l[1].v) + l[1].n[1] + (IF l[1].v = << >> THEN 0 ELSE l[1].v[Len(l[1].v)]) + 3 * Weight(Tail(l))
Init == pairs \in {l \in Lists(MaxPairs) : Weight(l) % Slices = Slice}
Next == UNCHANGED pairs
Spec == Init /\ [][Next]_pairs

\* the encoder and the reference decoder are inverse: nothing is lost, merged or decoded twice
RoundTrip == DecQuery(EncQuery(pairs)) = pairs
Emit == PrintT(<<"OUT", ToJson([pairs |-> pairs, query |-> EncQuery(pairs), cookie |-> EncCookie(pairs)])>>)
=============================================================================
