----------------------------- MODULE Engine_Trace -----------------------------
(***************************************************************************)
(* Trace validation for the rule interpreter: the event log recorded by    *)
(* the verif hooks of the real library (RuleGroup.Eval, doEvaluate,        *)
(* MatchRule) while it processes transactions is checked, event by event,  *)
(* against the actions of Engine.tla.                                      *)
(*                                                                         *)
(* One trace file holds many transactions.  Events (NDJSON):               *)
(*   {ev:"scen", scen}                  a new transaction starts (reset)   *)
(*   {ev:"phase", p, what:"begin"}      RuleGroup.Eval entered             *)
(*   {ev:"rule", p, idx, branch, ops}   one iteration of the rule loop;    *)
(*                                      ops = operator evaluations in      *)
(*                                      order [var,key,val,m]              *)
(*   {ev:"phase", p, what:"end", skip, skipAfter, allow}                   *)
(*   {ev:"done", out}                   projection of the finished tx      *)
(* Unlogged: the runtime's iteration order (inferred by TLC: there must be *)
(* SOME order that explains the logged operator evaluations) and the       *)
(* reading of regex keys.                                                  *)
(***************************************************************************)
EXTENDS Engine, Json, TLC, TLCExt

TraceLog == ndJsonDeserialize("trace.ndjson")

VARIABLES l,        \* index of the next event
          scen, st, p, i, rxMode, inPhase
vars == <<l, scen, st, p, i, rxMode, inPhase>>

Ev == TraceLog[l]
IsEvent(e) == l <= Len(TraceLog) /\ TraceLog[l].ev = e

NoScen == [rules |-> << >>, req |-> << >>, engine |-> "On", dirs |-> << >>]

Init ==
  /\ l = 1
  /\ scen = NoScen
  /\ st = InitState("On")
  /\ p = 0 /\ i = 1 /\ rxMode = RxMode("orig") /\ inPhase = FALSE
  /\ TLCSet(1, 0)

\* a new transaction (concatenated traces)
Reset ==
  /\ IsEvent("scen")
  /\ scen' = Ev.scen
  /\ st' = [InitState(Ev.scen.engine) EXCEPT !.logOps = TRUE]
  \* the ARGS family may read a regex key in any of the three ways (the pinned code applies the
  \* pattern as written to the folded key); every other collection selects at least the keys
  \* that match the pattern exactly as sent
  /\ rxMode' \in [args : RxModes, other : {"orig", "fold"}]
  /\ p' = 0 /\ i' = 1 /\ inPhase' = FALSE
  /\ l' = l + 1

PhaseBegin ==
  /\ IsEvent("phase") /\ Ev.what = "begin"
  /\ ~inPhase
  /\ Ev.p > p                        \* phases are entered in increasing order, each at most once
  /\ st.engine # "Off"
  /\ (st.intr = None \/ Ev.p = 5)    \* no rule phase is entered after an interruption
  /\ p' = Ev.p /\ i' = 1 /\ inPhase' = TRUE
  /\ UNCHANGED <<scen, st, rxMode>>
  /\ l' = l + 1

\* rules between i and idx-1 must all be filtered out by their phase
SkippedOK(from, to) == \A j \in from..(to - 1) : scen.rules[j].phase # 0 /\ scen.rules[j].phase # p

RuleStep ==
  /\ IsEvent("rule")
  /\ inPhase /\ Ev.p = p
  /\ Ev.idx >= i /\ Ev.idx <= Len(scen.rules)
  /\ SkippedOK(i, Ev.idx)
  /\ LET ord == [k \in 1..Len(scen.req) |-> k]
         \* the order of every walk over a collection is read off the logged evaluations
         res == StepRule([st EXCEPT !.guide = Ev.ops], scen.req, ord, rxMode, scen.rules[Ev.idx], p) IN
     /\ res.branch = Ev.branch
     /\ res.branch = "evaluated" => res.st.ops = Ev.ops
     /\ st' = [res.st EXCEPT !.guide = << >>]
  /\ i' = Ev.idx + 1
  /\ UNCHANGED <<scen, p, rxMode, inPhase>>
  /\ l' = l + 1

\* after a break (interruption / allow) the remaining rules are not iterated
Broke == l > 1 /\ TraceLog[l - 1].ev = "rule" /\ TraceLog[l - 1].branch \in {"interruptBreak", "allowBreak"}

PhaseEnd ==
  /\ IsEvent("phase") /\ Ev.what = "end"
  /\ inPhase /\ Ev.p = p
  /\ Broke \/ SkippedOK(i, Len(scen.rules) + 1)     \* every remaining rule belongs to another phase
  /\ LET st1 == EndPhase(st, p) IN
     /\ st1.skip = Ev.skip /\ st1.skipAfter = Ev.skipAfter
     \* allow:request has no effect after the request phases: "request" and "unset" are the same there
     /\ LET N(a) == IF a = "request" /\ p >= 2 THEN "unset" ELSE a IN N(st1.allow) = N(Ev.allow)
     /\ st' = st1
  /\ inPhase' = FALSE
  /\ UNCHANGED <<scen, p, i, rxMode>>
  /\ l' = l + 1

\* projection of the finished transaction
MdBags(md) == [k \in 1..Len(md) |-> BagOf(md[k])]
TxPairs(tx) == {<<tx[k].k, tx[k].v>> : k \in 1..Len(tx)}
Done ==
  /\ IsEvent("done")
  /\ ~inPhase
  /\ LET o == Outcome(st) IN
     /\ o.fired = Ev.out.fired
     /\ MdBags(o.md) = MdBags(Ev.out.md)
     /\ o.intr = Ev.out.intr
     /\ o.detIntr = Ev.out.detIntr
     /\ TxPairs(o.tx) = TxPairs(Ev.out.tx)
     /\ o.hsev = Ev.out.hsev
  /\ UNCHANGED <<scen, st, p, i, rxMode, inPhase>>
  /\ l' = l + 1

Next == Reset \/ PhaseBegin \/ RuleStep \/ PhaseEnd \/ Done
Spec == Init /\ [][Next]_vars

\* high-water mark of consumed events (single worker)
HW == TLCSet(1, IF TLCGet(1) < l THEN l ELSE TLCGet(1))
Mark == HW
InitHW == TLCSet(1, 0)
TraceAccepted ==
  IF TLCGet(1) = Len(TraceLog) + 1 THEN TRUE
  ELSE Print(<<"TRACE_REJECTED_AT", TLCGet(1), IF TLCGet(1) <= Len(TraceLog) THEN ToJson(TraceLog[TLCGet(1)]) ELSE "eof">>, FALSE)

\* invariants evaluated at every step of the real execution
NoLeakAcrossPhases == (~inPhase /\ p > 0) => (st.skip = 0 /\ st.skipAfter = "" /\ st.allow # "phase")
DetectionOnlySilent == scen.engine = "DetectionOnly" => st.intr = None
=============================================================================
