SPECIFICATION Spec
CONSTRAINT Mark
INVARIANTS NoLeakAcrossPhases
PROPERTIES DetectionOnlyNeverInterrupts InterruptionFinal
POSTCONDITION TraceAccepted
CHECK_DEADLOCK FALSE
