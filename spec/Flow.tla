-------------------------------- MODULE Flow --------------------------------
(***************************************************************************)
(* The control skeleton of rule evaluation for ARBITRARY compiled rules.    *)
(*                                                                         *)
(* Engine.tla interprets rules written in the small vocabulary of the      *)
(* scenario families.  This module keeps only what does not depend on the  *)
(* vocabulary: the residual state of a transaction (interruption, engine,  *)
(* skip counter, pending marker, allow scope, run-time removals), the      *)
(* branch the rule loop of RuleGroup.Eval must take for a rule given that  *)
(* state, the shape an evaluation must have (operator evaluations per      *)
(* chain level, non-disruptive actions once per matched value in the       *)
(* order written, the starter's flow / disruptive actions once and only    *)
(* for a completed chain, one match record per completed rule with one     *)
(* datum per satisfied value) and the effect of the executed actions on    *)
(* the residual state.  Operator verdicts are inputs: any operator, any    *)
(* target, any transformation - so executions of the repository's own      *)
(* test profiles and of the Core Rule Set can be checked against it        *)
(* (Flow_Trace.tla).                                                       *)
(*                                                                         *)
(* A rule r is a record                                                    *)
(*   id, phase, mark, tags, hasMsg, msg,                                   *)
(*   links : sequence of [op : BOOLEAN, nd : Seq(Act)]   (starter first)   *)
(*   fd    : Seq(Act)          flow and disruptive actions of the starter  *)
(* an action Act is [n, c, v, lo, hi]: name, ctl option, text argument,    *)
(* numeric arguments (skip count / id / id range, -1 when there is none).  *)
(***************************************************************************)
EXTENDS Integers, Sequences, FiniteSets

NoIntr == -1

InitFlow(engine) ==
  [engine |-> engine, intr |-> NoIntr, det |-> NoIntr,
   skip |-> 0, skipAfter |-> "", allow |-> "unset",
   rmRanges |-> {}, rmTags |-> {}, rmMsgs |-> {}]

\* the part of the state the implementation exposes as scalars (logged after every step)
Scalars(st) == [engine |-> st.engine, intr |-> st.intr, det |-> st.det,
                skip |-> st.skip, skipAfter |-> st.skipAfter, allow |-> st.allow]

SeqToSet(s) == {s[k] : k \in 1..Len(s)}

Removed(st, r) ==
  \/ \E g \in st.rmRanges : r.id >= g[1] /\ r.id <= g[2]
  \/ SeqToSet(r.tags) \cap st.rmTags # {}
  \/ (r.hasMsg /\ r.msg \in st.rmMsgs)

AllowStops(allow, p) ==
  CASE allow = "phase"   -> TRUE
    [] allow = "request" -> p \in {1, 2}
    [] allow = "all"     -> p # 5
    [] OTHER             -> FALSE

(* rulegroup.go RulesLoop: the tests are made in this order *)
Branch(st, r, p) ==
  IF st.intr # NoIntr /\ p # 5      THEN "interruptBreak"
  ELSE IF Removed(st, r)            THEN "removed"
  ELSE IF st.skipAfter # ""         THEN "pendingMarker"
  ELSE IF st.skip > 0               THEN "skipCounter"
  ELSE IF AllowStops(st.allow, p)   THEN "allowBreak"
  ELSE "evaluated"

Breaks(b) == b \in {"interruptBreak", "allowBreak"}

(***************************************************************************)
(* Effect of one executed action on the residual state.                    *)
(***************************************************************************)
EngineName(v) ==
  CASE v \in {"on", "On", "ON"} -> "On"
    [] v \in {"off", "Off", "OFF"} -> "Off"
    [] v \in {"detectiononly", "DetectionOnly", "DETECTIONONLY"} -> "DetectionOnly"
    [] OTHER -> ""

ApplyNd(st, a) ==
  IF a.n # "ctl" THEN st
  ELSE CASE a.c = "ruleEngine" ->
              IF EngineName(a.v) = "" THEN st ELSE [st EXCEPT !.engine = EngineName(a.v)]
         [] a.c = "ruleRemoveById" ->     \* one id is the range id-id; an unreadable argument is ignored
              IF a.lo < 0 THEN st ELSE [st EXCEPT !.rmRanges = @ \cup {<<a.lo, a.hi>>}]
         [] a.c = "ruleRemoveByTag" -> [st EXCEPT !.rmTags = @ \cup {a.v}]
         [] a.c = "ruleRemoveByMsg" -> [st EXCEPT !.rmMsgs = @ \cup {a.v}]
         [] OTHER -> st

Disruptive == {"deny", "drop", "redirect"}

ApplyFd(st, a, rid) ==
  CASE a.n = "skip"      -> [st EXCEPT !.skip = a.lo]
    [] a.n = "skipafter" -> [st EXCEPT !.skipAfter = a.v]
    [] a.n = "allow"     -> IF st.engine = "On" THEN [st EXCEPT !.allow = a.v] ELSE st
    [] a.n \in Disruptive ->
         IF st.engine = "On" THEN (IF st.intr = NoIntr THEN [st EXCEPT !.intr = rid] ELSE st)
         ELSE IF st.engine = "DetectionOnly" THEN (IF st.det = NoIntr THEN [st EXCEPT !.det = rid] ELSE st)
         ELSE st
    [] OTHER -> st        \* pass, chain, block (never left in a compiled rule)

(***************************************************************************)
(* The shape of one evaluation.  steps is the recorded sequence of         *)
(*   [t |-> "op",  lv, m]        an operator evaluation on chain level lv  *)
(*   [t |-> "act", lv, n, k]     an action about to run (k = "nd" | "fd")  *)
(* An automaton reads it:                                                  *)
(*   lv    current chain level                                             *)
(*   any   some value of this level satisfied the operator                 *)
(*   pend  non-disruptive actions still to run for the value just matched  *)
(*   fdn   number of flow / disruptive actions run so far                  *)
(*   nmd   values matched so far over all levels                           *)
(*   ok    the sequence is well-formed so far                              *)
(***************************************************************************)
NLinks(r) == Len(r.links)
Names(acts) == [k \in 1..Len(acts) |-> acts[k].n]

\* a link without operator (SecAction, SecMarker) is satisfied once, by nothing
A0(r, st) ==
  LET first == r.links[1] IN
  [lv |-> 0, any |-> ~first.op, pend |-> IF first.op THEN << >> ELSE first.nd,
   fdn |-> 0, nmd |-> IF first.op THEN 0 ELSE 1, ok |-> TRUE, st |-> st]

\* once a level is satisfied and its actions have run, a following link without operator is entered at once
RECURSIVE Norm(_, _)
Norm(r, a) ==
  IF a.ok /\ a.pend = << >> /\ a.any /\ a.fdn = 0 /\ a.lv + 1 < NLinks(r) /\ ~r.links[a.lv + 2].op
  THEN LET b == [a EXCEPT !.lv = @ + 1, !.pend = r.links[a.lv + 2].nd, !.nmd = @ + 1] IN
       IF b.pend = << >> THEN Norm(r, b) ELSE b
  ELSE a

StepA(r, a, s) ==
  IF ~a.ok THEN a
  ELSE IF s.t = "op" THEN
    \* the actions of the previous match have all run; no operator after the flow actions;
    \* the next level only after this one was satisfied
    IF a.pend # << >> \/ a.fdn > 0 THEN [a EXCEPT !.ok = FALSE]
    ELSE IF s.lv = a.lv /\ r.links[a.lv + 1].op THEN
      [a EXCEPT !.any = a.any \/ s.m,
                !.pend = IF s.m THEN r.links[a.lv + 1].nd ELSE << >>,
                !.nmd = IF s.m THEN @ + 1 ELSE @]
    ELSE IF s.lv = a.lv + 1 /\ a.any /\ s.lv < NLinks(r) /\ r.links[s.lv + 1].op THEN
      [a EXCEPT !.lv = s.lv, !.any = s.m,
                !.pend = IF s.m THEN r.links[s.lv + 1].nd ELSE << >>,
                !.nmd = IF s.m THEN @ + 1 ELSE @]
    ELSE [a EXCEPT !.ok = FALSE]
  ELSE IF s.k = "nd" THEN
    \* exactly the link's non-disruptive actions, in the order written, once per matched value
    IF a.pend # << >> /\ Head(a.pend).n = s.n /\ s.lv = a.lv /\ a.fdn = 0
    THEN [a EXCEPT !.pend = Tail(@), !.st = ApplyNd(@, Head(a.pend))]
    ELSE [a EXCEPT !.ok = FALSE]
  ELSE
    \* flow / disruptive actions of the starter: only once every link is satisfied, in order
    IF a.pend = << >> /\ a.lv = NLinks(r) - 1 /\ a.any
       /\ a.fdn < Len(r.fd) /\ r.fd[a.fdn + 1].n = s.n
    THEN [a EXCEPT !.fdn = @ + 1,
                   !.st = ApplyFd(@, r.fd[a.fdn + 1], IF r.id = 0 THEN r.parent ELSE r.id)]
    ELSE [a EXCEPT !.ok = FALSE]

RECURSIVE RunA(_, _, _, _)
RunA(r, a, steps, k) == IF k > Len(steps) THEN a ELSE RunA(r, Norm(r, StepA(r, a, steps[k])), steps, k + 1)

Completed(r, a) == a.lv = NLinks(r) - 1 /\ a.any

(* The evaluation of rule r from residual state st explained by the recorded steps:            *)
(* ok, the successor state, whether a match record is due and how many data it carries.       *)
Evaluate(st, r, steps) ==
  LET a == RunA(r, Norm(r, A0(r, st)), steps, 1) IN
  [ok |-> /\ a.ok
          /\ a.pend = << >>
          \* (a satisfied level followed by nothing is a next link whose targets selected no value:
          \*  the chain is not completed)
          \* every flow / disruptive action of a completed chain ran, none otherwise
          /\ a.fdn = (IF Completed(r, a) THEN Len(r.fd) ELSE 0),
   st |-> a.st,
   matched |-> Completed(r, a) /\ r.id # 0,
   nmd |-> a.nmd]

(***************************************************************************)
(* One iteration of the rule loop.                                         *)
(***************************************************************************)
StepLoop(st, r, p, steps) ==
  LET b == Branch(st, r, p) IN
  CASE b = "pendingMarker" ->
         [branch |-> b, ok |-> TRUE, matched |-> FALSE, nmd |-> 0,
          st |-> IF r.mark = st.skipAfter THEN [st EXCEPT !.skipAfter = ""] ELSE st]
    [] b = "skipCounter" ->
         [branch |-> b, ok |-> TRUE, matched |-> FALSE, nmd |-> 0, st |-> [st EXCEPT !.skip = @ - 1]]
    [] b = "allowBreak" ->
         [branch |-> b, ok |-> TRUE, matched |-> FALSE, nmd |-> 0,
          st |-> IF st.allow = "request" /\ p = 2 THEN [st EXCEPT !.allow = "unset"] ELSE st]
    [] b = "evaluated" ->
         LET e == Evaluate(st, r, steps) IN
         [branch |-> b, ok |-> e.ok, matched |-> e.matched, nmd |-> e.nmd, st |-> e.st]
    [] OTHER ->
         [branch |-> b, ok |-> TRUE, matched |-> FALSE, nmd |-> 0, st |-> st]

EndPhase(st, p) ==
  [st EXCEPT !.skip = 0, !.skipAfter = "", !.allow = IF @ = "phase" THEN "unset" ELSE @]
=============================================================================
