SPECIFICATION Spec
CONSTANTS
  Family = "flow"
  N = 2
  MaxChain = 1
  Phases = {1, 2}
  Engines = {"On", "DetectionOnly"}
INVARIANTS Emit NoLeakAcrossPhases DetectionOnlySilent FiredInOrder FiredHaveData LoggingReached
PROPERTIES InterruptFinal NothingAfterInterrupt
CHECK_DEADLOCK FALSE
VIEW View
