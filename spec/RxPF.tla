-------------------------------- MODULE RxPF --------------------------------
(***************************************************************************)
(* A denotational semantics of the regular-expression fragment the         *)
(* @rx prefilter reasons about (internal/operators/rxprefilter.go, rx.go): *)
(* literals, character classes, any-char, concatenation, alternation,      *)
(* ? * +, line anchors (the operator compiles patterns with (?sm)), text   *)
(* anchors \A \z, and a pattern-wide (?i) flag.  An expression is a record *)
(*   [k |-> "lit", c]  [k |-> "cls", cs]  [k |-> "any"]                     *)
(*   [k |-> "cat" | "alt", x, y]  [k |-> "opt" | "star" | "plus", x]        *)
(*   [k |-> "bol" | "eol" | "bot" | "eot"]   [k |-> "grp", x] (a capturing  *)
(*   group written by the author: same language, one more capture)         *)
(* Matches(re, ci, s) says whether the pattern matches somewhere in s.     *)
(* C11: with the prefilter on, @rx must return exactly this, and the same  *)
(* captures as with the prefilter off.  RxPF_MC enumerates expressions to  *)
(* a depth bound and all inputs up to a length bound.                      *)
(***************************************************************************)
EXTENDS Integers, Sequences, FiniteSets, TLC

Fold(c) == IF c >= 65 /\ c <= 90 THEN c + 32 ELSE c
ChEq(ci, a, b) == IF ci THEN Fold(a) = Fold(b) ELSE a = b

\* Ends(re, ci, s, i): the set of positions j (i <= j <= Len(s)+1) such that re matches s[i..j)
RECURSIVE Ends(_, _, _, _)
RECURSIVE StarEnds(_, _, _, _, _)
StarEnds(x, ci, s, frontier, seen) ==
  LET next == (UNION {Ends(x, ci, s, j) : j \in frontier}) \ seen
  IN IF next = {} THEN seen ELSE StarEnds(x, ci, s, next, seen \cup next)
Ends(re, ci, s, i) ==
  CASE re.k = "lit"  -> IF i <= Len(s) /\ ChEq(ci, s[i], re.c) THEN {i + 1} ELSE {}
    [] re.k = "cls"  -> IF i <= Len(s) /\ \E c \in re.cs : ChEq(ci, s[i], c) THEN {i + 1} ELSE {}
    [] re.k = "any"  -> IF i <= Len(s) THEN {i + 1} ELSE {}          \* (?s): dot matches newline
    [] re.k = "cat"  -> UNION {Ends(re.y, ci, s, j) : j \in Ends(re.x, ci, s, i)}
    [] re.k = "alt"  -> Ends(re.x, ci, s, i) \cup Ends(re.y, ci, s, i)
    [] re.k = "grp"  -> Ends(re.x, ci, s, i)                            \* a capturing group: same language
    [] re.k = "opt"  -> {i} \cup Ends(re.x, ci, s, i)
    [] re.k = "star" -> StarEnds(re.x, ci, s, {i}, {i})
    [] re.k = "plus" -> LET first == Ends(re.x, ci, s, i) IN IF first = {} THEN {} ELSE StarEnds(re.x, ci, s, first, first)
    [] re.k = "bol"  -> IF i = 1 \/ (i > 1 /\ s[i - 1] = 10) THEN {i} ELSE {}      \* (?m)^
    [] re.k = "eol"  -> IF i = Len(s) + 1 \/ (i <= Len(s) /\ s[i] = 10) THEN {i} ELSE {}   \* (?m)$
    [] re.k = "bot"  -> IF i = 1 THEN {i} ELSE {}                                   \* \A
    [] re.k = "eot"  -> IF i = Len(s) + 1 THEN {i} ELSE {}                          \* \z
    [] OTHER -> {}

Matches(re, ci, s) == \E i \in 1..(Len(s) + 1) : Ends(re, ci, s, i) # {}

\* the shortest input the pattern can match at all (what a sound minimum-length check may use)
RECURSIVE MinLen(_)
MinLen(re) ==
  CASE re.k \in {"lit", "cls", "any"} -> 1
    [] re.k = "cat"  -> MinLen(re.x) + MinLen(re.y)
    [] re.k = "alt"  -> IF MinLen(re.x) < MinLen(re.y) THEN MinLen(re.x) ELSE MinLen(re.y)
    [] re.k \in {"plus", "grp"} -> MinLen(re.x)
    [] OTHER -> 0
=============================================================================
