---------------------------- MODULE SecLang_MC ----------------------------
(* Enumerates structured rule descriptions, every equivalent rendering of each, and every near-miss   *)
(* text obtained by deleting or duplicating one structural delimiter; checks that the reference reader *)
(* of SecLang.tla reads every rendering back as the description (RoundTrip) and emits, for each text,  *)
(* what the reference reader makes of it, to be compared with what the real parser compiles.           *)
EXTENDS SecLang, Json, SequencesExt
CONSTANTS Family,        \* "targets" | "op" | "acts" | "chain"
          Mutate,        \* TRUE: also the near-miss texts of the renderings selected by MutStyle
          AllStyles,     \* TRUE: every style combination, FALSE: a covering handful
          Slice, Slices
VARIABLES d, st, mut

T(col, neg, count, kk, key) == [col |-> col, neg |-> neg, count |-> count, kk |-> kk, key |-> key]
A(name, hasVal, val, needQ) == [name |-> name, hasVal |-> hasVal, val |-> val, needQ |-> needQ]
O(neg, name, arg) == [neg |-> neg, name |-> name, arg |-> arg]

DENY == A("deny", FALSE, << >>, FALSE)
ID == A("id", TRUE, <<"1">>, FALSE)
PH == A("phase", TRUE, <<"2">>, FALSE)
PASS == A("pass", FALSE, << >>, FALSE)
DefTargets == <<T("ARGS", FALSE, FALSE, "none", << >>)>>
DefOp == O(FALSE, "rx", <<"a">>)
DefActs == <<ID, PH, PASS>>

PlainKeys == {<<"k">>, <<"Kk">>, <<"k", COL, "k">>, <<"k", SL, "b">>, <<"k", ".", "b">>}
RxBodies == {<<"a">>, <<"a", PIPE, "b">>, <<"a", BS, SL, "b">>, <<"Ab", ".">>, <<"a", BS, BS>>, <<BS, "S">>, <<"^", "a", COL, "b", "$">>}
Cols == {"ARGS", "REQUEST_HEADERS"}
Singles == {T(c, FALSE, FALSE, "none", << >>) : c \in Cols} \cup {T(c, FALSE, TRUE, "none", << >>) : c \in Cols}
           \cup {T(c, FALSE, cnt, "plain", k) : c \in Cols, cnt \in BOOLEAN, k \in PlainKeys}
           \cup {T(c, FALSE, FALSE, kk, b) : c \in Cols, kk \in {"rx", "qrx"}, b \in RxBodies}
TargetLists == {<<t>> : t \in Singles}
   \cup {<<T("ARGS", FALSE, FALSE, "none", << >>), T("ARGS", TRUE, FALSE, "plain", k)>> : k \in {<<"k">>, <<"Kk">>}}
   \cup {<<T("REQUEST_HEADERS", FALSE, FALSE, "none", << >>), T("REQUEST_HEADERS", TRUE, FALSE, kk, b)>> : kk \in {"rx", "qrx"}, b \in {<<"a", PIPE, "b">>, <<"a", BS, SL, "b">>}}
   \cup {<<T("ARGS", FALSE, FALSE, kk, b), T("TX", FALSE, FALSE, "plain", <<"k">>)>> : kk \in {"rx", "qrx"}, b \in RxBodies}
   \cup {<<T("ARGS", FALSE, FALSE, "plain", k), T("TX", FALSE, TRUE, "none", << >>)>> : k \in PlainKeys}

Args == {<<"a">>, <<"a", SP, "b">>, <<"a", DQ, "b">>, <<"a", BS, "d">>, <<"a", BS, BS, "b">>, <<"a", COM, "b", COL, SQ>>, <<DQ>>, <<"a", DQ>>,
         <<"a", SP, SP, "b">>, <<"a", PIPE, "b">>, <<SQ, "a", SQ>>, <<"a", SL>>}
Ops == {O(n, nm, a) : n \in BOOLEAN, nm \in {"", "rx", "streq", "contains"}, a \in Args} \cup {O(n, "rx", << >>) : n \in BOOLEAN}

\* action values: [v, q] with q = cannot be written without quotes
Vals == { [v |-> <<"x">>, q |-> FALSE], [v |-> <<"Ab">>, q |-> FALSE], [v |-> <<"a", COL, "b">>, q |-> FALSE], [v |-> <<"a", PIPE, "b">>, q |-> FALSE],
          [v |-> <<"a", SP, "b">>, q |-> TRUE], [v |-> <<"a", COM, "b">>, q |-> TRUE], [v |-> <<"a", BS, SQ, "b">>, q |-> TRUE],
          [v |-> <<"a", BS, SQ>>, q |-> TRUE], [v |-> <<"a", BS, DQ, "b">>, q |-> TRUE], [v |-> <<"a", BS, BS>>, q |-> TRUE],
          [v |-> <<SP, "a">>, q |-> TRUE], [v |-> <<"a", COM, SP, "id", COL, "9">>, q |-> TRUE], [v |-> <<"a", COM, "deny">>, q |-> TRUE] }
ActLists == {<<ID, PH, A(n, TRUE, x.v, x.q), PASS>> : n \in {"msg", "logdata", "tag", "rev"}, x \in Vals}
   \cup {<<ID, A("tag", TRUE, x.v, x.q), A("tag", TRUE, <<"t2">>, FALSE), A("msg", TRUE, y.v, y.q), PASS>> : x \in Vals, y \in {z \in Vals : z.q}}
   \cup {<<ID, A("t", TRUE, <<"none">>, FALSE), A("t", TRUE, <<"lowercase">>, FALSE), A("nolog", FALSE, << >>, FALSE), PASS>>,
         <<ID, PH, A("deny", FALSE, << >>, FALSE), A("status", TRUE, <<"403">>, FALSE), A("capture", FALSE, << >>, FALSE)>>,
         <<ID, A("severity", TRUE, <<"2">>, FALSE), A("ver", TRUE, <<"v", ".", "1">>, FALSE), A("multimatch", FALSE, << >>, FALSE), PASS>>,
         <<ID, PH, A("block", FALSE, << >>, FALSE)>>,
         \* several disruptive actions, the first one leading the list: the last one written wins
         <<DENY, ID, PH, PASS>>, <<DENY, A("status", TRUE, <<"403">>, FALSE), ID, PH, A("drop", FALSE, << >>, FALSE)>>, <<ID, PASS, PH, DENY>>,
         <<ID>>}

CHAIN == A("chain", FALSE, << >>, FALSE)
\* chains: a starter carrying the disruptive action and 1-2 links (no id, no phase, no disruptive action of their own)
Starters == {[targets |-> DefTargets, op |-> DefOp, acts |-> <<ID, PH, A("msg", TRUE, x.v, x.q), DENY, CHAIN>>] : x \in {z \in Vals : z.v \in {<<"x">>, <<"a", COM, "b">>, <<"a", BS, SQ>>}}}
Links == {[targets |-> ts, op |-> o, acts |-> as] :
            ts \in {<<T("REQUEST_HEADERS", FALSE, FALSE, "plain", <<"Kk">>)>>, <<T("ARGS", FALSE, FALSE, "rx", <<"a", PIPE, "b">>)>>, <<T("TX", FALSE, TRUE, "none", << >>)>>},
            o \in {O(TRUE, "", <<"a", DQ>>), O(FALSE, "streq", <<"a", SP, "b">>)},
            as \in {<< >>, <<A("t", TRUE, <<"lowercase">>, FALSE)>>, <<A("tag", TRUE, <<"a", COM, "b">>, TRUE), A("capture", FALSE, << >>, FALSE)>>}}
WithChain(l) == [l EXCEPT !.acts = IF l.acts = << >> THEN <<CHAIN>> ELSE l.acts \o <<CHAIN>>]
BareLinks == {l \in Links : l.acts = << >>}
ChainSeqs == IF AllStyles
             THEN {<<s0, l>> : s0 \in Starters, l \in Links} \cup {<<s0, WithChain(l1), l2>> : s0 \in Starters, l1 \in Links, l2 \in BareLinks}
             ELSE LET S1 == {s0 \in Starters : s0.acts[3].val = <<"a", COM, "b">>} IN
                  {<<s0, l>> : s0 \in S1, l \in Links} \cup {<<s0, WithChain(l1), l2>> : s0 \in S1, l1 \in BareLinks, l2 \in BareLinks}

\* directives with one argument of 1, 2 and 3 characters
DirArgs == {[dir |-> "SecMarker", arg |-> a] : a \in {<<"A">>, <<"AB">>, <<"A", "-", "B">>}}
           \cup {[dir |-> "SecRuleRemoveById", arg |-> a] : a \in {<<"1">>, <<"10">>, <<"1", "-", "9">>}}
           \cup {[dir |-> "SecRuleRemoveByTag", arg |-> a] : a \in {<<"t">>, <<"tt">>, <<"t", ".", "t">>}}
           \cup {[dir |-> "SecRuleEngine", arg |-> a] : a \in {<<"On">>, <<"Off">>}}
           \cup {[dir |-> "SecRequestBodyLimit", arg |-> a] : a \in {<<"7">>, <<"77">>, <<"777">>}}
Descs == CASE Family = "dirarg"  -> DirArgs
           [] Family = "chain"   -> ChainSeqs
           [] Family = "targets" -> {[targets |-> ts, op |-> DefOp, acts |-> DefActs] : ts \in TargetLists}
           [] Family = "op"      -> {[targets |-> DefTargets, op |-> o, acts |-> as] : o \in Ops, as \in {DefActs, << >>}}
           [] Family = "acts"    -> {[targets |-> DefTargets, op |-> DefOp, acts |-> as] : as \in ActLists}

Style(ud, ua, qa, sc, ct, ind, cm) == [upDir |-> ud, upAct |-> ua, quoteAll |-> qa, spaceAfterComma |-> sc, cont |-> ct, indent |-> ind, comment |-> cm]
Plain == Style(FALSE, FALSE, FALSE, FALSE, "none", FALSE, "none")
Styles == IF AllStyles
          THEN {Style(ud, ua, qa, sc, ct, ind, cm) : ud \in BOOLEAN, ua \in BOOLEAN, qa \in BOOLEAN, sc \in BOOLEAN, ct \in {"none", "sections", "actions"}, ind \in BOOLEAN, cm \in {"none", "plain", "bs"}}
          ELSE {Plain, Style(TRUE, TRUE, TRUE, TRUE, "none", TRUE, "plain"), Style(FALSE, TRUE, FALSE, TRUE, "sections", TRUE, "bs"),
                Style(TRUE, FALSE, TRUE, FALSE, "actions", TRUE, "bs"), Style(FALSE, FALSE, TRUE, TRUE, "actions", FALSE, "none")}
MutStyle(s) == s = Plain \/ s = Style(FALSE, FALSE, TRUE, TRUE, "actions", FALSE, "none") \/ (AllStyles /\ s = Style(TRUE, TRUE, TRUE, TRUE, "sections", TRUE, "plain"))

NoMut == [kind |-> "none", pos |-> 0]
Structural(r) == r \notin {"c", "w", "nl", "cmt", "indent"}
DS == IF Family = "chain" THEN d ELSE <<d>>        \* the rules of the text
Rendered == IF Family = "dirarg" THEN RenderDir(d, st) ELSE RenderAll(DS, st)
Muts(ps) == {[kind |-> k, pos |-> i] : k \in {"del", "dup"}, i \in {j \in 1..Len(ps) : Structural(ps[j].r)}}
Apply(ps, m) == CASE m.kind = "none" -> ps
                  [] m.kind = "del" -> SubSeq(ps, 1, m.pos - 1) \o SubSeq(ps, m.pos + 1, Len(ps))
                  [] m.kind = "dup" -> SubSeq(ps, 1, m.pos) \o SubSeq(ps, m.pos, Len(ps))

DescSeq == SetToSeq(Descs)
Init == /\ \E i \in 1..Len(DescSeq) : i % Slices = Slice /\ d = DescSeq[i]
        /\ st \in Styles
        /\ mut = NoMut
Next == /\ Mutate /\ mut = NoMut /\ MutStyle(st)
        /\ mut' \in Muts(Rendered)
        /\ UNCHANGED <<d, st>>
Spec == Init /\ [][Next]_<<d, st, mut>>

Pieces == Apply(Rendered, mut)
\* every rendering of a description reads back as that description: the renderer is unambiguous under the reference reader
RoundTrip == mut = NoMut => IF Family = "dirarg" THEN ReadDir(Strs(Pieces)) = Ok([dir |-> FoldDir(d.dir), arg |-> d.arg])
                                                    ELSE ReadAll(Strs(Pieces)) = Ok([i \in 1..Len(DS) |-> Normal(DS[i])])
\* a mutated text either is rejected or reads as something; it never reads back as the original unless the delimiter was redundant
EmitDir == PrintT(<<"OUT", ToJson([fam |-> Family, dd |-> d, style |-> st, toks |-> Strs(Pieces),
                                   mut |-> [kind |-> mut.kind, pos |-> mut.pos, role |-> IF mut.kind = "none" THEN "" ELSE Rendered[mut.pos].r]])>>)
Emit == IF Family = "dirarg" THEN EmitDir ELSE PrintT(<<"OUT", ToJson([fam |-> Family, ds |-> [i \in 1..Len(DS) |-> Normal(DS[i])], style |-> st, toks |-> Strs(Pieces),
                                mut |-> [kind |-> mut.kind, pos |-> mut.pos, role |-> IF mut.kind = "none" THEN "" ELSE Rendered[mut.pos].r],
                                exp |-> ReadAll(Strs(Pieces))])>>)
=============================================================================
