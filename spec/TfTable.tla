------------------------------- MODULE TfTable -------------------------------
(***************************************************************************)
(* The process-wide table that numbers transformation chains               *)
(* (rule.go transformationID): every WAF under construction asks for the   *)
(* id of "<chain so far>+<name>"; the id is part of the key of the         *)
(* per-phase transformation cache, so two different chains sharing one id  *)
(* make a rule read another rule's cached value (C06: outcome equals the   *)
(* outcome alone; C12).                                                    *)
(*                                                                         *)
(* Builders (one per WAF being built) each register a sequence of chain    *)
(* names.  One registration is                                             *)
(*   lookup   read the id of the name, if it has one                       *)
(*   register give the name the next free id                               *)
(* Design "mutex"  : lookup and register are one critical section (the     *)
(*                   code as it is).                                       *)
(* Design "rwlock" : lookup under a read lock, register under the write    *)
(*                   lock WITHOUT looking again, the next id taken from    *)
(*                   the number of names (a plausible "optimisation"; TLC  *)
(*                   must refute it - design self-test).                   *)
(***************************************************************************)
EXTENDS Naturals, Sequences, FiniteSets, TLC

CONSTANTS Builders, Names, Design, MaxRegs

VARIABLES idToName,   \* sequence of names, position = id
          nameToId,   \* partial function name -> id
          pc, cur, left

vars == <<idToName, nameToId, pc, cur, left>>

Init == /\ idToName = << >> /\ nameToId = [n \in {} |-> 0]
        /\ pc = [b \in Builders |-> "idle"] /\ cur = [b \in Builders |-> CHOOSE n \in Names : TRUE]
        /\ left = [b \in Builders |-> MaxRegs]

Has(n) == n \in DOMAIN nameToId

Start(b) == /\ pc[b] = "idle" /\ left[b] > 0
            /\ \E n \in Names : cur' = [cur EXCEPT ![b] = n]
            /\ pc' = [pc EXCEPT ![b] = "lookup"] /\ left' = [left EXCEPT ![b] = @ - 1]
            /\ UNCHANGED <<idToName, nameToId>>

\* the code: one critical section
RegisterAtomic(b) ==
  /\ Design = "mutex" /\ pc[b] = "lookup"
  /\ IF Has(cur[b]) THEN UNCHANGED <<idToName, nameToId>>
     ELSE /\ idToName' = Append(idToName, cur[b])
          /\ nameToId' = [n \in DOMAIN nameToId \cup {cur[b]} |-> IF n = cur[b] THEN Len(idToName) + 1 ELSE nameToId[n]]
  /\ pc' = [pc EXCEPT ![b] = "idle"] /\ UNCHANGED <<cur, left>>

\* the refuted design: two steps
LookupShared(b) ==
  /\ Design = "rwlock" /\ pc[b] = "lookup"
  /\ pc' = [pc EXCEPT ![b] = IF Has(cur[b]) THEN "idle" ELSE "register"]
  /\ UNCHANGED <<idToName, nameToId, cur, left>>
RegisterBlind(b) ==
  /\ Design = "rwlock" /\ pc[b] = "register"
  /\ idToName' = Append(idToName, cur[b])
  /\ nameToId' = [n \in DOMAIN nameToId \cup {cur[b]} |-> IF n = cur[b] THEN Cardinality(DOMAIN nameToId) + 1 ELSE nameToId[n]]
  /\ pc' = [pc EXCEPT ![b] = "idle"] /\ UNCHANGED <<cur, left>>

Next == \E b \in Builders : Start(b) \/ RegisterAtomic(b) \/ LookupShared(b) \/ RegisterBlind(b)
Spec == Init /\ [][Next]_vars

\* every name has its own id and the two directions agree: what the transformation cache relies on
Injective == \A m, n \in DOMAIN nameToId : nameToId[m] = nameToId[n] => m = n
Agree == /\ Len(idToName) = Cardinality(DOMAIN nameToId)
         /\ \A n \in DOMAIN nameToId : nameToId[n] \in 1..Len(idToName) /\ idToName[nameToId[n]] = n
TableSound == Injective /\ Agree
=============================================================================
