------------------------------- MODULE Bytes -------------------------------
(***************************************************************************)
(* Byte strings as sequences of naturals 0..255, and the reference         *)
(* definitions (written byte-wise, with no knowledge of the Go code) of    *)
(* the string functions the rule language is documented to compute.        *)
(* The Go harness maps a sequence <<97,65>> to the bytes "aA" and back.    *)
(***************************************************************************)
EXTENDS Integers, Sequences, FiniteSets

B(s)      == s                       \* documentation only: a byte string
Empty     == << >>

IsUpper(c) == c >= 65 /\ c <= 90
IsLower(c) == c >= 97 /\ c <= 122
IsDigit(c) == c >= 48 /\ c <= 57
IsSpace(c) == c \in {32, 9, 10, 11, 12, 13}     \* ' ' \t \n \v \f \r

LowerC(c) == IF IsUpper(c) THEN c + 32 ELSE c
UpperC(c) == IF IsLower(c) THEN c - 32 ELSE c

Lower(s)  == [i \in 1..Len(s) |-> LowerC(s[i])]
Upper(s)  == [i \in 1..Len(s) |-> UpperC(s[i])]
FoldEq(a, b) == Lower(a) = Lower(b)

Sub(s, i, j) == SubSeq(s, i, j)                  \* 1-based inclusive

HasPrefix(s, p) == Len(p) <= Len(s) /\ SubSeq(s, 1, Len(p)) = p
HasSuffix(s, p) == Len(p) <= Len(s) /\ SubSeq(s, Len(s) - Len(p) + 1, Len(s)) = p
ContainsAt(s, p, i) == i + Len(p) - 1 <= Len(s) /\ SubSeq(s, i, i + Len(p) - 1) = p
Contains(s, p) == \E i \in 1..(Len(s) + 1) : ContainsAt(s, p, i)

RemoveWhitespace(s) == SelectSeq(s, LAMBDA c : ~(IsSpace(c) \/ c = 160))
RemoveNulls(s)      == SelectSeq(s, LAMBDA c : c # 0)
ReplaceNulls(s)     == [i \in 1..Len(s) |-> IF s[i] = 0 THEN 32 ELSE s[i]]

RECURSIVE TrimLeft(_)
TrimLeft(s) == IF s # << >> /\ IsSpace(Head(s)) THEN TrimLeft(Tail(s)) ELSE s
RECURSIVE TrimRight(_)
TrimRight(s) == IF s # << >> /\ IsSpace(s[Len(s)]) THEN TrimRight(SubSeq(s, 1, Len(s) - 1)) ELSE s
Trim(s) == TrimLeft(TrimRight(s))

\* compressWhitespace: every run of whitespace becomes one space
RECURSIVE CompressWS(_, _)
CompressWS(s, inRun) ==
  IF s = << >> THEN << >>
  ELSE IF IsSpace(Head(s)) \/ Head(s) = 160
       THEN (IF inRun THEN << >> ELSE <<32>>) \o CompressWS(Tail(s), TRUE)
       ELSE <<Head(s)>> \o CompressWS(Tail(s), FALSE)
CompressWhitespace(s) == CompressWS(s, FALSE)

\* decimal rendering of a natural / integer
RECURSIVE ItoaNat(_)
ItoaNat(n) == IF n < 10 THEN <<48 + n>> ELSE ItoaNat(n \div 10) \o <<48 + (n % 10)>>
Itoa(n) == IF n < 0 THEN <<45>> \o ItoaNat(0 - n) ELSE ItoaNat(n)

AllDigits(s) == s # << >> /\ \A i \in 1..Len(s) : IsDigit(s[i])
RECURSIVE DigitsVal(_, _)
DigitsVal(s, acc) == IF s = << >> THEN acc ELSE DigitsVal(Tail(s), acc * 10 + (Head(s) - 48))
\* strict decimal integer syntax: optional sign then digits
IsInt(s) == \/ AllDigits(s)
            \/ (Len(s) >= 2 /\ s[1] \in {43, 45} /\ AllDigits(Tail(s)))
IntVal(s) == IF AllDigits(s) THEN DigitsVal(s, 0)
             ELSE IF s[1] = 45 THEN 0 - DigitsVal(Tail(s), 0) ELSE DigitsVal(Tail(s), 0)
\* the documented numeric reading of operators: non-numeric text counts as 0
AtoiOr0(s) == IF IsInt(s) THEN IntVal(s) ELSE 0

HexDigit(n) == IF n < 10 THEN 48 + n ELSE 87 + n          \* lower-case hex
HexEncode(s) == IF s = << >> THEN << >>
                ELSE [i \in 1..(2 * Len(s)) |->
                        LET b == s[(i + 1) \div 2] IN
                        IF i % 2 = 1 THEN HexDigit(b \div 16) ELSE HexDigit(b % 16)]
IsHex(c) == IsDigit(c) \/ (c >= 97 /\ c <= 102) \/ (c >= 65 /\ c <= 70)
HexVal(c) == IF IsDigit(c) THEN c - 48 ELSE IF c >= 97 THEN c - 87 ELSE c - 55

Length(s) == Itoa(Len(s))

RECURSIVE FlattenSeq(_)
FlattenSeq(ss) == IF ss = << >> THEN << >> ELSE Head(ss) \o FlattenSeq(Tail(ss))

\* multiset (bag) of the elements of a sequence, as a function value -> count over a finite support
Range(s) == {s[i] : i \in 1..Len(s)}
Count(s, x) == Cardinality({i \in 1..Len(s) : s[i] = x})
BagOf(s) == [x \in Range(s) |-> Count(s, x)]

=============================================================================
