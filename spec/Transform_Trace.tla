--------------------------- MODULE Transform_Trace ---------------------------
(***************************************************************************)
(* Trace validation of pure functions: the recorded function table of the  *)
(* real transformations (one NDJSON record per evaluation) is read and     *)
(* every law of Transform.tla is evaluated on every record.                *)
(***************************************************************************)
EXTENDS Transform, Json, TLCExt
Table == ndJsonDeserialize("table.ndjson")
VARIABLES l
Init == l = 1
Next == l <= Len(Table) /\ l' = l + 1
Spec == Init /\ [][Next]_l
\* evaluated in every state = on every record
LawsHold == l <= Len(Table) => (Laws(Table[l]) \/ Print(<<"LAW_BROKEN", l, FirstBroken(Table[l]), ToJson(Table[l])>>, FALSE))
=============================================================================
