------------------------------ MODULE Tx_Trace ------------------------------
(***************************************************************************)
(* Trace validation for the Transaction API: call logs recorded from real  *)
(* transactions (one line per public call, written when the call returns:  *)
(* the call, what it returned, and the cheap scalar state read back from   *)
(* the transaction) are checked, call by call, against the actions of      *)
(* Tx.tla.  Every logged call must be a step of the specification whose    *)
(* successor state projects to the logged state; where Tx.tla leaves a     *)
(* choice open (bytes offered after a refused write) TLC searches the      *)
(* successors for one that explains the log.                               *)
(*                                                                         *)
(* One trace file holds many transactions.  Events (NDJSON):               *)
(*   {ev:"cfg", engine, k, p, q, req:{access,limit,mem,action}, resp:{..}} *)
(*        a new transaction on a WAF of that configuration (reset)         *)
(*   {ev:"call", name, k, mode, ret:{id,action,status}, lastPhase, fired,  *)
(*        intr:{..}, det:{..}, engine, reqStored, respStored, reqErr,      *)
(*        respErr}                                                         *)
(***************************************************************************)
EXTENDS Tx_MC, TLCExt

TraceLog == ndJsonDeserialize("tx_trace.ndjson")

VARIABLE l
tvars == <<cfg, st, lastPhase, rq, rs, reqBodyVar, logged, last, h, l>>

Ev == TraceLog[l]
IsEvent(e) == l <= Len(TraceLog) /\ TraceLog[l].ev = e

TInit ==
  /\ l = 1
  /\ cfg = [engine |-> "On", rules |-> << >>, req |-> Side(FALSE, 2, "Reject"), resp |-> Side(FALSE, 2, "Reject"), d |-> [k |-> "none", p |-> 0, q |-> 0]]
  /\ st = InitState("On")
  /\ lastPhase = 0 /\ rq = NoBody /\ rs = NoBody /\ reqBodyVar = Unset /\ logged = FALSE
  /\ last = [name |-> "init", arg |-> 0, ret |-> None, n |-> 0]
  /\ h = << >>
  /\ TLCSet(1, 0)

\* a new transaction on a freshly configured WAF
Reset ==
  /\ IsEvent("cfg")
  /\ LET dd == [k |-> Ev.k, p |-> Ev.p, q |-> Ev.q] IN
     cfg' = [engine |-> Ev.engine, rules |-> RulesOf(dd),
             req  |-> [access |-> Ev.req.access, limit |-> Ev.req.limit, mem |-> Ev.req.mem, action |-> Ev.req.action],
             resp |-> [access |-> Ev.resp.access, limit |-> Ev.resp.limit, mem |-> Ev.resp.mem, action |-> Ev.resp.action], d |-> dd]
  /\ st' = InitState(Ev.engine)
  /\ lastPhase' = 0 /\ rq' = NoBody /\ rs' = NoBody /\ reqBodyVar' = Unset /\ logged' = FALSE
  /\ last' = [name |-> "init", arg |-> 0, ret |-> None, n |-> 0]
  /\ h' = << >>
  /\ l' = l + 1

SameIntr(a, b) == a.id = b.id /\ a.action = b.action /\ a.status = b.status
\* a refusal at a body limit: the byte count returned with it is not specified
IsRefusal(r) == r.id = 0 /\ r.action = "deny" /\ r.status \in {413, 500}

CallStep ==
  /\ IsEvent("call")
  /\ Do([name |-> Ev.name, k |-> Ev.k, mode |-> Ev.mode])
  /\ SameIntr(last'.ret, Ev.ret)
  /\ lastPhase' = Ev.lastPhase
  /\ [i \in 1..Len(st'.fired) |-> st'.fired[i].id] = Ev.fired
  /\ SameIntr(st'.intr, Ev.intr)
  /\ SameIntr(st'.detIntr, Ev.det)
  /\ st'.engine = Ev.engine
  /\ Len(rq'.stored) = Ev.reqStored
  /\ Len(rs'.stored) = Ev.respStored
  /\ rq'.err = Ev.reqErr /\ rs'.err = Ev.respErr
  /\ h' = << >>
  /\ l' = l + 1

TNext == Reset \/ CallStep
TSpec == TInit /\ [][TNext]_tvars

HW == TLCSet(1, IF TLCGet(1) < l THEN l ELSE TLCGet(1))
Mark == HW
TraceAccepted ==
  IF TLCGet(1) = Len(TraceLog) + 1 THEN TRUE
  ELSE Print(<<"TRACE_REJECTED_AT", TLCGet(1), IF TLCGet(1) <= Len(TraceLog) THEN ToJson(TraceLog[TLCGet(1)]) ELSE "eof">>, FALSE)

\* the lifecycle invariants of Tx.tla, evaluated at every step of the real executions
TraceInterruptFinal == [][st.intr # None => st'.intr = st.intr \/ IsEvent("cfg")]_tvars
=============================================================================
