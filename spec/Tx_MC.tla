------------------------------- MODULE Tx_MC -------------------------------
(***************************************************************************)
(* Bounded instance of Tx: TLC picks a configuration, then explores every  *)
(* sequence of API calls.  The abstract state is finite, so with the       *)
(* witness path `h` outside the VIEW every reachable state is visited for  *)
(* call sequences of unbounded length, and every invariant of Tx is        *)
(* evaluated there.  Every transition (= every edge of the state graph)    *)
(* is printed as <<"OUT", json>> with a witness path, the call, the        *)
(* specified return value and the specified successor; the Go harness      *)
(* replays path + call on a real transaction and compares.                 *)
(***************************************************************************)
EXTENDS Tx, Json

CONSTANTS Engines, ReqLimits, Ks, Modes, DisruptKinds, Phases2, Qs, ReqShapes, RespShapes, EmitEdges, CallNames, Slice, Slices

VARIABLE h      \* witness path: sequence of [name, k]; outside the VIEW

allvars == <<cfg, st, lastPhase, rq, rs, reqBodyVar, logged, last, h>>
View == <<cfg, st, lastPhase, rq, rs, reqBodyVar, logged, last>>
\* for edge emission the last call is irrelevant: one edge per (abstract state, call)
ViewNoLast == <<cfg, st, lastPhase, rq, rs, reqBodyVar, logged>>

\* ---- configurations ----
ActLinkT(acts) == [targets |-> << >>, tfs |-> << >>, op |-> [name |-> "", arg |-> << >>, neg |-> FALSE], mm |-> FALSE, acts |-> acts, hasOp |-> FALSE]
RuleT(id, p, acts) == [id |-> id, phase |-> p, marker |-> "", links |-> <<ActLinkT(acts)>>, status |-> 0, sev |-> 0 - 1, tags |-> << >>, msg |-> ""]
Markers == [p \in 1..5 |-> RuleT(100 * p, p, << >>)]
KindActs(k) ==
  CASE k = "deny"     -> <<A("deny")>>
    [] k = "drop"     -> <<A("drop")>>
    [] k \in {"redirect", "redirect301", "redirect301late"} -> <<ARedirect(<<Lit(<<47, 114>>)>>)>>
    [] k = "deny401late" -> <<A("deny")>>
    [] k = "ctlDet"   -> <<ACtlEngine("DetectionOnly")>>
    [] k = "ctlOn"    -> <<ACtlEngine("On")>>
    [] k = "ctlOff"   -> <<ACtlEngine("Off")>>
    [] k = "ctlReqOn"   -> <<ACtlReqAccess("On")>>
    [] k = "ctlReqOff"  -> <<ACtlReqAccess("Off")>>
    [] k = "ctlRespOn"  -> <<ACtlRespAccess("On")>>
    [] k = "ctlRespOff" -> <<ACtlRespAccess("Off")>>
    [] k = "ctlReqLimit1" -> <<ACtlReqLimit(1)>>       \* the limits lowered (1) or raised (4) at run time
    [] k = "ctlReqLimit4" -> <<ACtlReqLimit(4)>>
    [] k = "ctlRespLimit1" -> <<ACtlRespLimit(1)>>
    [] OTHER          -> << >>
\* the status action of a special rule, and whether it is written after the disruptive action (the order of the
\* actions in the text must not matter: the interruption carries the rule's status)
KindStatus(k) == CASE k \in {"redirect301", "redirect301late"} -> 301 [] k = "deny401late" -> 401 [] OTHER -> 0
KindLate(k) == k \in {"redirect301late", "deny401late"}
SpecialRule(id, p, k) == [RuleT(id, p, KindActs(k)) EXCEPT !.status = KindStatus(k)] @@ [statusLast |-> KindLate(k)]
\* marker of every phase, plus (optionally) one special rule right after the marker of phase d.p,
\* plus (optionally) a second deny in phase d.q, plus a closing plain rule in those phases
RulesOf(d) ==
  LET extra(p) == (IF d.k # "none" /\ d.p = p THEN <<SpecialRule(100 * p + 1, p, d.k)>> ELSE << >>)
                  \o (IF d.q = p THEN <<RuleT(100 * p + 2, p, <<A("deny")>>)>> ELSE << >>)
      \* a plain rule closing every phase that holds a special rule: it shows whether the rule loop went on
      tail(p)  == IF extra(p) # << >> THEN <<RuleT(100 * p + 9, p, << >>)>> ELSE << >>
  IN FlattenSeq([p \in 1..5 |-> <<Markers[p]>> \o extra(p) \o tail(p)])

Side(access, limit, action) == [access |-> access, limit |-> limit, mem |-> limit, action |-> action]
SliceOfSet(S) == {x \in S : TRUE}

Disrupts == {[k |-> "none", p |-> 0, q |-> 0]}
            \cup [k : DisruptKinds, p : Phases2, q : Qs]

ShAccess(sh) == sh \in {"on/Reject", "on/ProcessPartial"}
ShAction(sh) == IF sh \in {"on/Reject", "off/Reject"} THEN "Reject" ELSE "ProcessPartial"

Cfgs == [engine : Engines,
         d : Disrupts,
         \* a shape is one of "on/Reject" "on/ProcessPartial" "off/Reject" "off/ProcessPartial"
         req  : {[access |-> ShAccess(sh), limit |-> l, mem |-> 1, action |-> ShAction(sh)] : sh \in ReqShapes, l \in ReqLimits},
         resp : {[access |-> ShAccess(sh), limit |-> 2, mem |-> 2, action |-> ShAction(sh)] : sh \in RespShapes}]

Init ==
  /\ \E c \in Cfgs :
       cfg = [engine |-> c.engine, rules |-> RulesOf(c.d), req |-> c.req, resp |-> c.resp, d |-> c.d]
  /\ st = InitState(cfg.engine)
  /\ lastPhase = 0
  /\ rq = NoBody /\ rs = NoBody
  /\ reqBodyVar = Unset
  /\ logged = FALSE
  /\ last = [name |-> "init", arg |-> 0, ret |-> None, n |-> 0]
  /\ h = << >>

Calls == {[name |-> n, k |-> 0, mode |-> ""] : n \in {"PRH", "PRB", "PRSH", "PRSB", "PL"} \cap CallNames}
         \cup (IF "WREQ" \in CallNames THEN {[name |-> "WREQ", k |-> k, mode |-> m] : k \in Ks, m \in Modes} ELSE {})
         \cup (IF "WRESP" \in CallNames THEN {[name |-> "WRESP", k |-> k, mode |-> m] : k \in Ks, m \in Modes} ELSE {})

Do(c) ==
  CASE c.name = "PRH"   -> ProcessRequestHeaders
    [] c.name = "PRB"   -> ProcessRequestBody
    [] c.name = "PRSH"  -> ProcessResponseHeaders
    [] c.name = "PRSB"  -> ProcessResponseBody
    [] c.name = "PL"    -> ProcessLogging
    [] c.name = "WREQ"  -> WriteReq(c.k, c.mode)
    [] c.name = "WRESP" -> WriteResp(c.k, c.mode)

Proj == [lastPhase |-> lastPhase', fired |-> [i \in 1..Len(st'.fired) |-> st'.fired[i].id],
         intr |-> st'.intr, detIntr |-> st'.detIntr, engine |-> st'.engine,
         reqStored |-> Len(rq'.stored), respStored |-> Len(rs'.stored),
         reqErr |-> rq'.err, respErr |-> rs'.err, reqBodyVar |-> reqBodyVar']

Next ==
  \E c \in Calls :
    /\ rq.supplied <= cfg.req.limit + 1 /\ rs.supplied <= cfg.resp.limit + 1    \* bound the supplied streams
    \* edge replay needs one specified successor per (path, call): what happens to bytes offered
    \* after a refusal is left open (Choice_AfterRefusal), so such calls are not replayed
    /\ EmitEdges => ~(c.name = "WREQ" /\ rq.refused) /\ ~(c.name = "WRESP" /\ rs.refused)
    /\ Do(c)
    /\ h' = Append(h, c)
    /\ (EmitEdges => PrintT(<<"OUT", ToJson([cfg |-> cfg, path |-> h', ret |-> last'.ret, n |-> last'.n, post |-> Proj])>>))

Spec == Init /\ [][Next]_allvars

InterruptFinalMC == [][st.intr # None => st'.intr = st.intr]_allvars
NothingAfterInterruptMC ==
  [][st.intr # None => \A i \in (Len(st.fired) + 1)..Len(st'.fired) :
         \E j \in 1..Len(cfg.rules) : cfg.rules[j].id = st'.fired[i].id /\ cfg.rules[j].phase = 5]_allvars
=============================================================================
