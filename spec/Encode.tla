-------------------------------- MODULE Encode --------------------------------
(***************************************************************************)
(* C03: every piece of request data is visible to rules under its          *)
(* documented variable, byte-exact, decoded exactly once.                  *)
(*                                                                         *)
(* The data a client means to send is a sequence of (name, value) pairs of *)
(* byte strings.  This module contains an INDEPENDENT encoder of that data *)
(* into a query string / urlencoded body (percent-encoding of every byte   *)
(* that is not unreserved) and into a Cookie header, the reference decoder *)
(* (Dec(Enc(x)) = x is checked by TLC), and for every way of sending the   *)
(* data the bag of (key, value) pairs each documented variable must then   *)
(* hold.  JSON, XML and multipart documents are serialised by the harness  *)
(* with the Go standard library; their expected exposure (flattened names, *)
(* array indices and lengths, attribute and text values) is defined here.  *)
(***************************************************************************)
EXTENDS Bytes, TLC

Unreserved(c) == IsDigit(c) \/ IsUpper(c) \/ IsLower(c) \/ c \in {45, 46, 95, 126}     \* - . _ ~
HexU(n) == IF n < 10 THEN 48 + n ELSE 55 + n                                          \* upper-case hex
PctByte(c) == IF Unreserved(c) THEN <<c>> ELSE <<37, HexU(c \div 16), HexU(c % 16)>>
Pct(s) == FlattenSeq([i \in 1..Len(s) |-> PctByte(s[i])])

\* query string / urlencoded body: name=value joined by &
RECURSIVE EncQuery(_)
EncQuery(pairs) ==
  IF pairs = << >> THEN << >>
  ELSE Pct(pairs[1].n) \o <<61>> \o Pct(pairs[1].v) \o (IF Len(pairs) > 1 THEN <<38>> \o EncQuery(Tail(pairs)) ELSE << >>)

\* reference decoder: split at &, then at the first =, percent-decode each side once
PctDecode(s) ==      \* as UrlDecodeR in Transform.tla: %XX -> byte, + -> space
  LET RECURSIVE D(_)
      D(t) == IF t = << >> THEN << >>
              ELSE IF t[1] = 37 /\ Len(t) >= 3 /\ IsHex(t[2]) /\ IsHex(t[3]) THEN <<16 * HexVal(t[2]) + HexVal(t[3])>> \o D(SubSeq(t, 4, Len(t)))
              ELSE IF t[1] = 43 THEN <<32>> \o D(Tail(t))
              ELSE <<t[1]>> \o D(Tail(t))
  IN D(s)
RECURSIVE SplitOn(_, _, _)
SplitOn(s, sep, cur) ==
  IF s = << >> THEN <<cur>>
  ELSE IF Head(s) = sep THEN <<cur>> \o SplitOn(Tail(s), sep, << >>) ELSE SplitOn(Tail(s), sep, Append(cur, Head(s)))
CutEq(seg) ==
  LET idx == {i \in 1..Len(seg) : seg[i] = 61} IN
  IF idx = {} THEN [n |-> seg, v |-> << >>]
  ELSE LET i == CHOOSE i \in idx : \A j \in idx : i <= j IN [n |-> SubSeq(seg, 1, i - 1), v |-> SubSeq(seg, i + 1, Len(seg))]
DecQuery(wire) ==
  LET segs == SelectSeq(SplitOn(wire, 38, << >>), LAMBDA g : g # << >>)
  IN [i \in 1..Len(segs) |-> [n |-> PctDecode(CutEq(segs[i]).n), v |-> PctDecode(CutEq(segs[i]).v)]]

\* Cookie header: name=value joined by "; " -- cookies are NOT url-decoded; names are non-empty tokens
RECURSIVE EncCookie(_)
EncCookie(pairs) ==
  IF pairs = << >> THEN << >>
  ELSE pairs[1].n \o <<61>> \o pairs[1].v \o (IF Len(pairs) > 1 THEN <<59, 32>> \o EncCookie(Tail(pairs)) ELSE << >>)

\* what each variable must expose, as a sequence of [k, v] (compared as a bag)
KV(pairs) == [i \in 1..Len(pairs) |-> [k |-> pairs[i].n, v |-> pairs[i].v]]
NamesOf(pairs) == [i \in 1..Len(pairs) |-> [k |-> pairs[i].n, v |-> pairs[i].n]]
=============================================================================
