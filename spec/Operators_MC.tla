---------------------------- MODULE Operators_MC ----------------------------
EXTENDS Operators, Json
CONSTANTS Alphabet, MaxLen
VARIABLES s
RECURSIVE Strs(_)
Strs(n) == IF n = 0 THEN {<< >>} ELSE Strs(n - 1) \cup {Append(q, c) : q \in {x \in Strs(n - 1) : Len(x) = n - 1}, c \in Alphabet}

a == <<97>>   aA == <<97, 65>>   Aa == <<65, 97>>   one == <<49>>   m1 == <<45, 49>>   zero == <<48>>   ex == <<120>>
\* the (operator, argument) pairs of the table, in a fixed order shared with the Go harness
Pairs == << <<"streq", a>>, <<"streq", aA>>, <<"contains", a>>, <<"contains", aA>>, <<"strmatch", Aa>>,
            <<"beginsWith", a>>, <<"beginsWith", aA>>, <<"endsWith", a>>, <<"endsWith", Aa>>,
            <<"within", <<97, 32, 98, 32, 97, 65>> >>,
            <<"eq", one>>, <<"eq", m1>>, <<"eq", zero>>, <<"eq", ex>>, <<"ge", one>>, <<"ge", m1>>, <<"gt", zero>>, <<"gt", m1>>, <<"le", one>>, <<"le", m1>>, <<"lt", one>>, <<"lt", zero>>,
            <<"pm", <<97, 98, 32, 65, 97>> >>, <<"pm", <<97>> >>, <<"pm", <<98, 97, 98>> >>,
            <<"validateUrlEncoding", << >> >>, <<"validateUtf8Encoding", << >> >> >>
ByteRanges == << {97, 98, 0}, {65}, 0..255, 1..254 >>       \* "97-98,0" "65" "0-255" "1-254"

Init == s \in Strs(MaxLen)
Next == UNCHANGED s
Spec == Init /\ [][Next]_s

Row == [i \in 1..Len(Pairs) |-> Holds(Pairs[i][1], Pairs[i][2], s)]
BrRow == [i \in 1..Len(ByteRanges) |-> ByteRangeViolated(ByteRanges[i], s)]
\* model-level theorems
ContainsReflexive == Contains(s, s) /\ HasPrefix(s, << >>) /\ HasSuffix(s, s)
EqIsGeAndLe == \A i \in 1..Len(Pairs) : Pairs[i][1] = "eq" => (Holds("eq", Pairs[i][2], s) <=> (Holds("ge", Pairs[i][2], s) /\ Holds("le", Pairs[i][2], s)))
FullRangeNeverViolated == ~ByteRangeViolated(0..255, s)
\* CIDR table: address 10.0.0.x against 10.0.0.<base>/<plen>
Cidrs == << <<0, 30>>, <<5, 32>>, <<4, 31>>, <<5, 30>>, <<128, 25>>, <<0, 24>> >>
CidrTable == [x \in 1..256 |-> [i \in 1..Len(Cidrs) |-> InCidr(x - 1, Cidrs[i][1], Cidrs[i][2])]]
Emit == /\ PrintT(<<"OUT", ToJson([in |-> s, row |-> Row, br |-> BrRow])>>)
        /\ (s = << >> => PrintT(<<"OUT", ToJson([cidr |-> CidrTable])>>))
=============================================================================
