---------------------------- MODULE Operators_MC ----------------------------
EXTENDS Operators, Json
CONSTANTS Alphabet, MaxLen
VARIABLES s
RECURSIVE Strs(_)
Strs(n) == IF n = 0 THEN {<< >>} ELSE Strs(n - 1) \cup {Append(q, c) : q \in {x \in Strs(n - 1) : Len(x) = n - 1}, c \in Alphabet}

a == <<97>>   aA == <<97, 65>>   Aa == <<65, 97>>   one == <<49>>   m1 == <<45, 49>>   zero == <<48>>   ex == <<120>>
\* the (operator, argument) pairs of the table, in a fixed order shared with the Go harness
Pairs == << <<"streq", a>>, <<"streq", aA>>, <<"contains", a>>, <<"contains", aA>>, <<"strmatch", Aa>>,
            <<"beginsWith", a>>, <<"beginsWith", aA>>, <<"endsWith", a>>, <<"endsWith", Aa>>,
            <<"within", <<97, 32, 98, 32, 97, 65>> >>,
            <<"eq", one>>, <<"eq", m1>>, <<"eq", zero>>, <<"eq", ex>>, <<"ge", one>>, <<"ge", m1>>, <<"gt", zero>>, <<"gt", m1>>, <<"le", one>>, <<"le", m1>>, <<"lt", one>>, <<"lt", zero>>,
            <<"pm", <<97, 98, 32, 65, 97>> >>, <<"pm", <<97>> >>, <<"pm", <<98, 97, 98>> >>,
            <<"pm", <<97, 65, 32, 32, 98, 98>> >>, <<"pm", <<97, 255, 98>> >>, <<"pm", <<195, 169>> >>,
            <<"validateUrlEncoding", << >> >>, <<"validateUtf8Encoding", << >> >> >>
ByteRanges == << {97, 98, 0}, {65}, 0..255, 1..254 >>       \* "97-98,0" "65" "0-255" "1-254"

Init == s \in Strs(MaxLen)
Next == UNCHANGED s
Spec == Init /\ [][Next]_s

Row == [i \in 1..Len(Pairs) |-> Holds(Pairs[i][1], Pairs[i][2], s)]
BrRow == [i \in 1..Len(ByteRanges) |-> ByteRangeViolated(ByteRanges[i], s)]
\* model-level theorems
ContainsReflexive == Contains(s, s) /\ HasPrefix(s, << >>) /\ HasSuffix(s, s)
EqIsGeAndLe == \A i \in 1..Len(Pairs) : Pairs[i][1] = "eq" => (Holds("eq", Pairs[i][2], s) <=> (Holds("ge", Pairs[i][2], s) /\ Holds("le", Pairs[i][2], s)))
FullRangeNeverViolated == ~ByteRangeViolated(0..255, s)
\* CIDR table: address 10.0.0.x against 10.0.0.<base>/<plen>
Cidrs == << <<0, 30>>, <<5, 32>>, <<4, 31>>, <<5, 30>>, <<128, 25>>, <<0, 24>> >>
CidrTable == [x \in 1..256 |-> [i \in 1..Len(Cidrs) |-> InCidr(x - 1, Cidrs[i][1], Cidrs[i][2])]]

\* ---- numbers of any length: the five comparisons over long decimal texts ----
WideBodies == << <<48>>, <<49>>, <<49,48,52,56,53,55,54>>, <<49,48,52,56,53,55,55>>,
                 <<57,50,50,51,51,55,50,48,51,54,56,53,52,55,55,53,56,48,54>>, MaxMag64, MinMag64,
                 <<57,50,50,51,51,55,50,48,51,54,56,53,52,55,55,53,56,48,57>>,
                 <<57,57,57,57,57,57,57,57,57,57,57,57,57,57,57,57,57,57,57,57>>,
                 <<49,56,52,52,54,55,52,52,48,55,51,55,48,57,53,53,49,54,49,54>>,
                 <<49,56,52,52,54,55,52,52,48,55,51,55,48,57,53,53,49,54,49,55>>,
                 <<48,48,48,48,48,48,48,48,48,48,48,48,48,48,48,48,48,48,48,48,48,48,49>>,
                 <<49,48,52,56,53,55,54,120>>, <<49,101,57,57>> >>
WideSigns == << << >>, <<45>>, <<43>> >>
WideTexts == {WideSigns[i] \o WideBodies[j] : i \in 1..Len(WideSigns), j \in 1..Len(WideBodies)}
WideArgs == { <<48>>, <<49,48,52,56,53,55,54>>, MaxMag64, <<45>> \o MinMag64, <<45,49>>,
              <<57,57,57,57,57,57,57,57,57,57,57,57,57,57,57,57,57,57,57,57>> }
WideOps == {"eq", "ge", "gt", "le", "lt"}
WideTable == {[op |-> o, arg |-> wa, in |-> v, holds |-> WideHolds(o, wa, v), open |-> WideOpen(wa, v)] : o \in WideOps, wa \in WideArgs, v \in WideTexts}
\* model-level: on texts short enough for TLC's own integers the two readings agree
WideAgreesWithNarrow == \A i \in 1..Len(Pairs) : Pairs[i][1] \in WideOps => (Holds(Pairs[i][1], Pairs[i][2], s) <=> WideHolds(Pairs[i][1], Pairs[i][2], s))
WideTrichotomy == s = << >> => \A wa \in WideArgs, v \in WideTexts : (DecLess(v, wa) /\ ~DecEq(v, wa) /\ ~DecLess(wa, v)) \/ (~DecLess(v, wa) /\ DecEq(v, wa) /\ ~DecLess(wa, v)) \/ (~DecLess(v, wa) /\ ~DecEq(v, wa) /\ DecLess(wa, v))
Emit == /\ PrintT(<<"OUT", ToJson([in |-> s, row |-> Row, br |-> BrRow])>>)
        /\ (s = << >> => PrintT(<<"OUT", ToJson([cidr |-> CidrTable])>>))
        /\ (s = << >> => PrintT(<<"OUT", ToJson([wide |-> WideTable])>>))
        /\ (s = << >> => PrintT(<<"OUT", ToJson([cap |-> CapTable])>>))
        /\ (s = << >> => PrintT(<<"OUT", ToJson([rxdot |-> RxDotTable])>>))
=============================================================================
