----------------------------- MODULE Flow_Trace -----------------------------
(***************************************************************************)
(* Trace validation of the rule loop for arbitrary rule sets: the events   *)
(* recorded by the verif hooks while the real library processes the        *)
(* transactions of the repository's test profiles, of the Core Rule Set    *)
(* and of generated rule sets must be, event by event, steps of Flow.tla.  *)
(*                                                                         *)
(* Events (NDJSON, one file holds many WAFs and transactions):             *)
(*  {ev:"cfg", phases}      a WAF: the phase of every rule in loop order   *)
(*  {ev:"tx", engine}       a new transaction                              *)
(*  {ev:"phase", what:"begin"|"end", p, st}                                *)
(*  {ev:"rule", p, idx, branch, r, steps, matched, nmd, st}                *)
(*                          one iteration of the loop that was not         *)
(*                          filtered out by the rule's phase               *)
(*  {ev:"call", name, st}   a public Transaction method returned           *)
(* st is the scalar residual state read back from the transaction after    *)
(* the step.  Unlogged: the run-time removal sets (kept by the spec).      *)
(***************************************************************************)
EXTENDS Flow, Json, TLC, TLCExt

TraceLog == ndJsonDeserialize("trace.ndjson")

VARIABLES l, phases, st, p, i, inPhase, done, broke
vars == <<l, phases, st, p, i, inPhase, done, broke>>

Ev == TraceLog[l]
IsEvent(e) == l <= Len(TraceLog) /\ TraceLog[l].ev = e

Init ==
  /\ l = 1 /\ phases = << >> /\ st = InitFlow("On")
  /\ p = 0 /\ i = 1 /\ inPhase = FALSE /\ done = {} /\ broke = FALSE
  /\ TLCSet(1, 0)

Cfg ==
  /\ IsEvent("cfg") /\ ~inPhase
  /\ phases' = Ev.phases
  /\ UNCHANGED <<st, p, i, inPhase, done, broke>>
  /\ l' = l + 1

NewTx ==
  /\ IsEvent("tx") /\ ~inPhase
  /\ st' = InitFlow(Ev.engine)
  /\ p' = 0 /\ i' = 1 /\ done' = {} /\ broke' = FALSE
  /\ UNCHANGED <<phases, inPhase>>
  /\ l' = l + 1

\* Outside the rule loop the only change the library itself makes to the residual state is the
\* interruption of a body that reaches a Reject limit (rule id 0), and only while the engine is On.
Call ==
  /\ IsEvent("call") /\ ~inPhase
  /\ LET s == Ev.st IN
     /\ [Scalars(st) EXCEPT !.intr = s.intr] = s
     /\ (s.intr # st.intr => (st.intr = NoIntr /\ s.intr = 0 /\ st.engine = "On"
                              /\ Ev.name \in {"WriteRequestBody", "ReadRequestBodyFrom", "ProcessRequestBody",
                                              "WriteResponseBody", "ReadResponseBodyFrom", "ProcessResponseBody"}))
     /\ st' = [st EXCEPT !.intr = s.intr]
  /\ UNCHANGED <<phases, p, i, inPhase, done, broke>>
  /\ l' = l + 1

PhaseBegin ==
  /\ IsEvent("phase") /\ Ev.what = "begin" /\ ~inPhase
  /\ st.engine # "Off"                       \* with the engine off no rule is evaluated
  /\ (Ev.p \in 1..4 => Ev.p \notin done)     \* the rules of a request / response phase run at most once
  /\ Scalars(st) = Ev.st                     \* nothing leaked in between the phases
  /\ p' = Ev.p /\ i' = 1 /\ inPhase' = TRUE /\ broke' = FALSE
  /\ done' = done \cup {Ev.p}
  /\ UNCHANGED <<phases, st>>
  /\ l' = l + 1

\* rules between i and idx-1 are passed over without an event only if they belong to another phase
SkippedOK(from, to) == \A j \in from..(to - 1) : phases[j] # 0 /\ phases[j] # p

RuleStep ==
  /\ IsEvent("rule") /\ inPhase /\ ~broke
  /\ Ev.p = p
  /\ Ev.idx >= i /\ Ev.idx <= Len(phases)
  /\ phases[Ev.idx] = Ev.r.phase
  \* the interruption is noticed at the very next iteration, whatever phase that rule belongs to;
  \* otherwise rules of other phases are passed over silently and only those
  /\ IF st.intr # NoIntr /\ p # 5 THEN Ev.idx = i
     ELSE SkippedOK(i, Ev.idx) /\ Ev.r.phase \in {0, p}
  /\ LET res == StepLoop(st, Ev.r, p, Ev.steps) IN
     /\ res.branch = Ev.branch
     /\ res.ok
     /\ res.matched = Ev.matched
     /\ (res.matched => res.nmd = Ev.nmd)
     /\ Scalars(res.st) = Ev.st
     /\ st' = res.st
     /\ broke' = Breaks(res.branch)
  /\ i' = Ev.idx + 1
  /\ UNCHANGED <<phases, p, inPhase, done>>
  /\ l' = l + 1

PhaseEnd ==
  /\ IsEvent("phase") /\ Ev.what = "end" /\ inPhase /\ Ev.p = p
  /\ broke \/ (IF st.intr # NoIntr /\ p # 5 THEN i > Len(phases) ELSE SkippedOK(i, Len(phases) + 1))
  /\ LET st1 == EndPhase(st, p) IN
     /\ Scalars(st1) = Ev.st
     /\ st' = st1
  /\ inPhase' = FALSE /\ broke' = FALSE
  /\ UNCHANGED <<phases, p, i, done>>
  /\ l' = l + 1

Next == Cfg \/ NewTx \/ Call \/ PhaseBegin \/ RuleStep \/ PhaseEnd
Spec == Init /\ [][Next]_vars

Mark == TLCSet(1, IF TLCGet(1) < l THEN l ELSE TLCGet(1))
TraceAccepted ==
  IF TLCGet(1) = Len(TraceLog) + 1 THEN TRUE
  ELSE Print(<<"TRACE_REJECTED_AT", TLCGet(1), IF TLCGet(1) <= Len(TraceLog) THEN ToJson(TraceLog[TLCGet(1)]) ELSE "eof">>, FALSE)

\* invariants evaluated at every step of the real executions
NoLeakAcrossPhases == ~inPhase => (st.skip = 0 /\ st.skipAfter = "" /\ st.allow # "phase")
DetectionOnlyNeverInterrupts == [][st.engine = "DetectionOnly" /\ st'.engine = "DetectionOnly" => st'.intr = st.intr]_vars
InterruptionFinal == [][(st.intr # NoIntr /\ ~IsEvent("tx")) => st'.intr = st.intr]_vars
=============================================================================
