------------------------------ MODULE SecLang ------------------------------
(* The SecRule text format as a token language: a renderer from structured rule descriptions to text,  *)
(* the line assembler (comments, indentation, continuation) and a reference reader that splits a rule *)
(* line into targets / operator / action list and scans each part with ONE escape rule:               *)
(*   a delimiter is escaped iff it is preceded by an odd run of backslashes.                          *)
(* Text is a sequence of tokens; a token is a one-character delimiter or an opaque word, so the only  *)
(* thing a scanner can get wrong is which delimiters it honours - exactly what the hand-written       *)
(* scanners of internal/seclang differ in.                                                           *)
EXTENDS Sequences, Naturals, FiniteSets, TLC

DQ == "\""
SQ == "'"
BS == "\\"
SP == " "
PIPE == "|"
COL == ":"
COM == ","
SL == "/"
BANG == "!"
AMP == "&"
AT == "@"
NL == "\n"
HASH == "#"

P(s, r) == [s |-> s, r |-> r]
Content(toks) == [i \in 1..Len(toks) |-> P(toks[i], "c")]
Strs(ps) == [i \in 1..Len(ps) |-> ps[i].s]

RECURSIVE Join(_, _)
Join(ss, sep) == IF ss = << >> THEN << >> ELSE IF Len(ss) = 1 THEN ss[1] ELSE ss[1] \o sep \o Join(Tail(ss), sep)

Most(s) == SubSeq(s, 1, Len(s) - 1)
Last(s) == s[Len(s)]

(* ---------------------------------------------------------------- letter case of names *)
Upper(w) == CASE w = "id" -> "ID" [] w = "msg" -> "MSG" [] w = "tag" -> "Tag" [] w = "pass" -> "PASS" [] w = "phase" -> "Phase"
              [] w = "logdata" -> "LogData" [] w = "t" -> "T" [] w = "rev" -> "REV" [] w = "ver" -> "Ver" [] w = "nolog" -> "NoLog"
              [] w = "status" -> "STATUS" [] w = "deny" -> "Deny" [] w = "capture" -> "CAPTURE" [] w = "chain" -> "Chain"
              [] w = "setvar" -> "SetVar" [] w = "severity" -> "Severity" [] w = "multimatch" -> "multiMatch"
              [] w = "block" -> "Block" [] w = "drop" -> "DROP" [] w = "secrule" -> "SECRULE" [] w = "secaction" -> "SecAction" [] OTHER -> w
Fold(w) == CASE w = "ID" -> "id" [] w = "MSG" -> "msg" [] w = "Tag" -> "tag" [] w = "PASS" -> "pass" [] w = "Phase" -> "phase"
              [] w = "LogData" -> "logdata" [] w = "T" -> "t" [] w = "REV" -> "rev" [] w = "Ver" -> "ver" [] w = "NoLog" -> "nolog"
              [] w = "STATUS" -> "status" [] w = "Deny" -> "deny" [] w = "CAPTURE" -> "capture" [] w = "Chain" -> "chain"
              [] w = "SetVar" -> "setvar" [] w = "Severity" -> "severity" [] w = "multiMatch" -> "multimatch"
              [] w = "Block" -> "block" [] w = "DROP" -> "drop" [] w = "SECRULE" -> "secrule" [] w = "SecRule" -> "secrule" [] w = "SecAction" -> "secaction" [] OTHER -> w

UpperDir(w) == CASE w = "SecMarker" -> "SECMARKER" [] w = "SecRuleRemoveById" -> "secruleremovebyid" [] w = "SecRuleRemoveByTag" -> "SecRuleREMOVEByTag"
                 [] w = "SecRuleEngine" -> "SECRULEENGINE" [] w = "SecRequestBodyLimit" -> "secrequestbodylimit" [] OTHER -> w
FoldDir(w) == CASE w \in {"SecMarker", "SECMARKER"} -> "secmarker" [] w \in {"SecRuleRemoveById", "secruleremovebyid"} -> "secruleremovebyid"
                [] w \in {"SecRuleRemoveByTag", "SecRuleREMOVEByTag"} -> "secruleremovebytag" [] w \in {"SecRuleEngine", "SECRULEENGINE"} -> "secruleengine"
                [] w \in {"SecRequestBodyLimit", "secrequestbodylimit"} -> "secrequestbodylimit" [] OTHER -> w

(* ---------------------------------------------------------------- descriptions and rendering *)
\* target: [col, neg, count, kk \in {"none","plain","rx","qrx"}, key : token sequence]
\* op:     [neg, name ("" = implicit rx), arg : token sequence]
\* act:    [name, hasVal, val : token sequence, needQ : the value cannot be written without quotes]
\* style:  [upDir, upAct, quoteAll, spaceAfterComma, cont \in {"none","sections","actions"}, indent, comment \in {"none","plain","bs"}]

RenderKey(t) ==
  CASE t.kk = "none"  -> << >>
    [] t.kk = "plain" -> <<P(COL, "t.colon")>> \o Content(t.key)
    [] t.kk = "rx"    -> <<P(COL, "t.colon"), P(SL, "t.rx.open")>> \o Content(t.key) \o <<P(SL, "t.rx.close")>>
    [] t.kk = "qrx"   -> <<P(COL, "t.colon"), P(SQ, "t.q.open"), P(SL, "t.rx.open")>> \o Content(t.key) \o <<P(SL, "t.rx.close"), P(SQ, "t.q.close")>>

RenderTarget(t) == (IF t.neg THEN <<P(BANG, "t.neg")>> ELSE << >>) \o (IF t.count THEN <<P(AMP, "t.count")>> ELSE << >>)
                   \o <<P(t.col, "w")>> \o RenderKey(t)
RenderTargets(ts) == Join([i \in 1..Len(ts) |-> RenderTarget(ts[i])], <<P(PIPE, "t.sep")>>)

RECURSIVE EscDQ(_)
EscDQ(toks) == IF toks = << >> THEN << >> ELSE
                 (IF toks[1] = DQ THEN <<P(BS, "op.esc"), P(DQ, "c")>> ELSE <<P(toks[1], "c")>>) \o EscDQ(Tail(toks))
RenderOp(op) == <<P(DQ, "op.open")>> \o (IF op.neg THEN <<P(BANG, "op.neg")>> ELSE << >>)
                \o (IF op.name # "" THEN <<P(AT, "op.at"), P(op.name, "w")>> \o (IF op.arg # << >> THEN <<P(SP, "op.sp")>> ELSE << >>) ELSE << >>)
                \o EscDQ(op.arg) \o <<P(DQ, "op.close")>>

RenderAct(a, st) == <<P(IF st.upAct THEN Upper(a.name) ELSE a.name, "w")>> \o
   (IF ~a.hasVal THEN << >> ELSE <<P(COL, "a.colon")>> \o
      (IF a.needQ \/ st.quoteAll THEN <<P(SQ, "a.q.open")>> \o Content(a.val) \o <<P(SQ, "a.q.close")>> ELSE Content(a.val)))
Indent(st) == IF st.indent THEN <<P(SP, "indent"), P(SP, "indent")>> ELSE << >>
Break(st) == <<P(BS, "cont"), P(NL, "nl")>> \o Indent(st)
ActSep(st) == <<P(COM, "a.sep")>> \o (IF st.cont = "actions" THEN Break(st) ELSE IF st.spaceAfterComma THEN <<P(SP, "a.sp")>> ELSE << >>)
RenderActs(as, st) == <<P(DQ, "a.open")>> \o Join([i \in 1..Len(as) |-> RenderAct(as[i], st)], ActSep(st)) \o <<P(DQ, "a.close")>>

SectionSep(st) == <<P(SP, "sp")>> \o (IF st.cont = "sections" THEN Break(st) ELSE << >>)
Render(d, st) ==
   (IF st.comment = "plain" THEN <<P(HASH, "cmt"), P(SP, "cmt"), P("SecRule", "cmt"), P(NL, "nl")>>
    ELSE IF st.comment = "bs" THEN <<P(HASH, "cmt"), P(SP, "cmt"), P("C:", "cmt"), P(BS, "cmt"), P("waf", "cmt"), P(BS, "cmt"), P(NL, "nl")>>   \* a comment that ends in a backslash is still only a comment
    ELSE << >>)
   \o Indent(st) \o <<P(IF st.upDir THEN Upper("secrule") ELSE "SecRule", "w"), P(SP, "sp")>>
   \o RenderTargets(d.targets) \o SectionSep(st) \o RenderOp(d.op)
   \o (IF d.acts = << >> THEN << >> ELSE SectionSep(st) \o RenderActs(d.acts, st))

(* ---------------------------------------------------------------- line assembly *)
RECURSIVE SplitOn(_, _)
SplitOn(toks, sep) ==   \* sequence of token sequences
  IF \A i \in 1..Len(toks) : toks[i] # sep THEN <<toks>>
  ELSE LET k == CHOOSE i \in 1..Len(toks) : toks[i] = sep /\ \A j \in 1..(i - 1) : toks[j] # sep
       IN <<SubSeq(toks, 1, k - 1)>> \o SplitOn(SubSeq(toks, k + 1, Len(toks)), sep)

RECURSIVE TrimL(_)
TrimL(s) == IF s # << >> /\ s[1] = SP THEN TrimL(Tail(s)) ELSE s
RECURSIVE TrimR(_)
TrimR(s) == IF s # << >> /\ Last(s) = SP THEN TrimR(Most(s)) ELSE s
Trim(s) == TrimR(TrimL(s))

\* logical lines: every physical line is trimmed, blank and comment lines vanish, a trailing backslash glues the next line on
RECURSIVE Assemble(_, _)
Assemble(lines, buf) ==
  IF lines = << >> THEN (IF buf = << >> THEN << >> ELSE <<buf>>)
  ELSE LET l == Trim(lines[1]) IN
       IF l = << >> \/ l[1] = HASH THEN Assemble(Tail(lines), buf)
       ELSE IF Last(l) = BS THEN Assemble(Tail(lines), buf \o Most(l))
       ELSE <<buf \o l>> \o Assemble(Tail(lines), << >>)
LogicalLines(toks) == Assemble(SplitOn(toks, NL), << >>)

(* ---------------------------------------------------------------- the one escape rule *)
RECURSIVE BSRun(_, _)
BSRun(toks, i) == IF i >= 1 /\ toks[i] = BS THEN 1 + BSRun(toks, i - 1) ELSE 0   \* backslashes ending at position i
Escaped(toks, i) == BSRun(toks, i - 1) % 2 = 1

\* first position >= from holding delimiter d unescaped; 0 if none
FirstFree(toks, from, d) == LET S == {i \in from..Len(toks) : toks[i] = d /\ ~Escaped(toks, i)} IN
                            IF S = {} THEN 0 ELSE CHOOSE i \in S : \A j \in S : i <= j

(* ---------------------------------------------------------------- reading the targets *)
RECURSIVE DropWhile(_, _)
DropWhile(s, c) == IF s # << >> /\ s[1] = c THEN DropWhile(Tail(s), c) ELSE s
Rej(why) == [ok |-> FALSE, why |-> why]
Ok(v) == [ok |-> TRUE, v |-> v]
Tgt(col, neg, count, kk, key) == [col |-> col, neg |-> neg, count |-> count, kk |-> kk, key |-> key]
TR(t, rest, more) == [ok |-> TRUE, t |-> t, rest |-> rest, more |-> more]

\* one target starting at the head of toks; rest starts after the separating pipe (or is empty)
ReadTarget(toks) ==
  LET neg   == toks # << >> /\ toks[1] = BANG
      t1    == DropWhile(toks, BANG)               \* a repeated prefix says nothing new: !!X reads as !X, &&X as &X
      count == t1 # << >> /\ t1[1] = AMP
      t2    == DropWhile(t1, AMP)
  IN IF t2 = << >> \/ t2[1] \in {PIPE, COL, SL, SQ, BS, BANG, AMP, DQ, COM, AT, SP} THEN Rej("target-name-missing")
     ELSE LET col == t2[1]   t3 == Tail(t2) IN
       IF t3 = << >> THEN TR(Tgt(col, neg, count, "none", << >>), << >>, FALSE)
       ELSE IF t3[1] = PIPE THEN TR(Tgt(col, neg, count, "none", << >>), Tail(t3), TRUE)
       ELSE IF t3[1] # COL THEN Rej("target-name-followed-by-junk")
       ELSE LET k == Tail(t3) IN
         IF k = << >> \/ k[1] = PIPE THEN Rej("target-empty-key")                            \* "COL:" with nothing selected
         ELSE IF k[1] = SL \/ (k[1] = SQ /\ Len(k) >= 2 /\ k[2] = SL) THEN
            LET q     == k[1] = SQ
                body0 == IF q THEN Tail(Tail(k)) ELSE Tail(k)
                close == FirstFree(body0, 1, SL)
            IN IF close = 0 THEN Rej("target-regex-left-open")
               ELSE LET body  == SubSeq(body0, 1, close - 1)
                        after == SubSeq(body0, close + 1, Len(body0))
                        qok   == ~q \/ (after # << >> /\ after[1] = SQ)
                        a2    == IF q /\ qok THEN Tail(after) ELSE after
                    IN IF ~qok THEN Rej("target-quote-left-open")
                       ELSE IF a2 = << >> THEN TR(Tgt(col, neg, count, "rx", body), << >>, FALSE)
                       ELSE IF a2[1] = PIPE THEN TR(Tgt(col, neg, count, "rx", body), Tail(a2), TRUE)
                       ELSE Rej("target-text-after-regex")                                            \* text after the closing slash
         ELSE LET S   == {i \in 1..Len(k) : k[i] = PIPE}
                  end == IF S = {} THEN Len(k) + 1 ELSE CHOOSE i \in S : \A j \in S : i <= j
              IN TR(Tgt(col, neg, count, "plain", SubSeq(k, 1, end - 1)), SubSeq(k, end + 1, Len(k)), S # {})

RECURSIVE ReadTargets(_)
ReadTargets(toks) ==
  LET r == ReadTarget(toks) IN
  IF ~r.ok THEN r
  ELSE IF ~r.more THEN Ok(<<r.t>>)
  ELSE IF r.rest = << >> THEN Rej("target-trailing-pipe")                                          \* trailing pipe
  ELSE LET more == ReadTargets(r.rest) IN IF ~more.ok THEN more ELSE Ok(<<r.t>> \o more.v)

(* ---------------------------------------------------------------- reading the operator *)
RECURSIVE UnescDQ(_)
UnescDQ(toks) == IF toks = << >> THEN << >>
                 ELSE IF Len(toks) >= 2 /\ toks[1] = BS /\ toks[2] = DQ THEN <<DQ>> \o UnescDQ(Tail(Tail(toks)))
                 ELSE <<toks[1]>> \o UnescDQ(Tail(toks))

ReadOp(body0) ==
  LET body == UnescDQ(body0) IN
  IF body = << >> \/ body[1] \notin {AT, BANG} THEN Ok([neg |-> FALSE, name |-> << >>, arg |-> Trim(body)])
  ELSE IF body = <<BANG>> THEN Ok([neg |-> TRUE, name |-> << >>, arg |-> << >>])
  ELSE IF body[1] = BANG /\ body[2] # AT THEN Ok([neg |-> TRUE, name |-> << >>, arg |-> Trim(Tail(body))])
  ELSE LET neg == body[1] = BANG
           b   == IF neg THEN Tail(Tail(body)) ELSE Tail(body)      \* after the @
           S   == {i \in 1..Len(b) : b[i] = SP}
           end == IF S = {} THEN Len(b) + 1 ELSE CHOOSE i \in S : \A j \in S : i <= j
       IN IF end = 1 THEN Rej("operator-name-missing")                                        \* "@" with no name
          ELSE Ok([neg |-> neg, name |-> SubSeq(b, 1, end - 1), arg |-> Trim(SubSeq(b, end + 1, Len(b)))])

(* ---------------------------------------------------------------- reading the action list *)
\* quote state before position i: inside single quotes iff an odd number of unescaped quotes precede
InQuote(toks, i) == Cardinality({j \in 1..(i - 1) : toks[j] = SQ /\ ~Escaped(toks, j)}) % 2 = 1

ReadAct(a0) ==
  LET a == Trim(a0) IN
  IF a = << >> THEN Rej("action-empty")
  ELSE LET S   == {i \in 1..Len(a) : a[i] = COL /\ ~InQuote(a, i)}
           c   == IF S = {} THEN 0 ELSE CHOOSE i \in S : \A j \in S : i <= j
           key == Trim(IF c = 0 THEN a ELSE SubSeq(a, 1, c - 1))
           v0  == IF c = 0 THEN << >> ELSE Trim(SubSeq(a, c + 1, Len(a)))
           v   == IF Len(v0) >= 2 /\ v0[1] = SQ /\ Last(v0) = SQ THEN SubSeq(v0, 2, Len(v0) - 1) ELSE v0
       IN IF Len(key) # 1 THEN Rej("action-name-malformed")
          ELSE Ok([name |-> Fold(key[1]), hasVal |-> c # 0, val |-> v])

RECURSIVE SplitActs(_, _, _)
SplitActs(toks, from, i) ==   \* split on commas outside quotes
  IF i > Len(toks) THEN <<SubSeq(toks, from, Len(toks))>>
  ELSE IF toks[i] = COM /\ ~InQuote(toks, i) /\ ~Escaped(toks, i) THEN <<SubSeq(toks, from, i - 1)>> \o SplitActs(toks, i + 1, i + 1)
  ELSE SplitActs(toks, from, i + 1)

ReadActs(body) ==
  IF InQuote(body, Len(body) + 1) THEN Rej("action-quote-left-open")                                 \* a quote left open
  ELSE LET parts == SplitActs(body, 1, 1)
           acts  == [i \in 1..Len(parts) |-> ReadAct(parts[i])]
       IN IF \E i \in 1..Len(acts) : ~acts[i].ok THEN (CHOOSE x \in {acts[i] : i \in 1..Len(acts)} : ~x.ok) ELSE Ok([i \in 1..Len(acts) |-> acts[i].v])

(* ---------------------------------------------------------------- reading a rule line *)
ReadRuleLine(line) ==
  IF Len(line) < 3 \/ Fold(line[1]) # "secrule" \/ line[2] # SP THEN Rej("not-a-secrule-line")
  ELSE LET data == Trim(SubSeq(line, 3, Len(line)))
           S    == {i \in 1..Len(data) : data[i] = SP}
       IN IF S = {} THEN Rej("rule-without-operator")
          ELSE LET sp   == CHOOSE i \in S : \A j \in S : i <= j
                   vars == SubSeq(data, 1, sp - 1)
                   r1   == TrimL(SubSeq(data, sp + 1, Len(data)))
               IN IF r1 = << >> \/ r1[1] # DQ THEN Rej("operator-not-quoted")
                  ELSE LET close == FirstFree(r1, 2, DQ) IN
                    IF close = 0 THEN Rej("operator-quote-left-open")
                    ELSE LET opb == SubSeq(r1, 2, close - 1)
                             r2  == TrimL(SubSeq(r1, close + 1, Len(r1)))
                             ts  == ReadTargets(vars)
                             op  == ReadOp(opb)
                         IN IF ~ts.ok THEN ts ELSE IF ~op.ok THEN op
                            ELSE IF r2 = << >> THEN Ok([targets |-> ts.v, op |-> op.v, acts |-> << >>])
                            ELSE IF Len(r2) < 2 \/ r2[1] # DQ \/ Last(r2) # DQ \/ Escaped(r2, Len(r2)) THEN Rej("actions-not-quoted")
                            ELSE LET ab == SubSeq(r2, 2, Len(r2) - 1) IN
                              IF FirstFree(ab, 1, DQ) # 0 THEN Rej("actions-bare-double-quote")              \* a bare double quote inside the action list
                              ELSE LET as == ReadActs(ab) IN
                                IF ~as.ok THEN as ELSE Ok([targets |-> ts.v, op |-> op.v, acts |-> as.v])

\* a text holding a sequence of rules (a chain starter and its links, or unrelated rules)
RECURSIVE ReadLines(_)
ReadLines(ls) == IF ls = << >> THEN Ok(<< >>)
                 ELSE LET r == ReadRuleLine(ls[1]) IN
                      IF ~r.ok THEN r
                      ELSE LET more == ReadLines(Tail(ls)) IN IF ~more.ok THEN more ELSE Ok(<<r.v>> \o more.v)
ReadAll(toks) == ReadLines(LogicalLines(toks))

\* a text holding exactly one rule
Read(toks) == LET ls == LogicalLines(toks) IN IF Len(ls) # 1 THEN Rej("not-one-logical-line") ELSE ReadRuleLine(ls[1])

\* a directive with one argument; the argument may be written between double quotes whatever its length
RenderDir(dd, st) ==
   Indent(st) \o <<P(IF st.upDir THEN UpperDir(dd.dir) ELSE dd.dir, "w"), P(SP, "sp")>>
   \o (IF st.quoteAll THEN <<P(DQ, "d.open")>> \o Content(dd.arg) \o <<P(DQ, "d.close")>> ELSE Content(dd.arg))
ReadDirLine(line) ==
  IF Len(line) < 3 \/ line[2] # SP THEN Rej("not-a-directive-line")
  ELSE LET a0 == Trim(SubSeq(line, 3, Len(line)))
           a  == IF Len(a0) >= 2 /\ a0[1] = DQ /\ Last(a0) = DQ THEN SubSeq(a0, 2, Len(a0) - 1) ELSE a0
       IN Ok([dir |-> FoldDir(line[1]), arg |-> a])
ReadDir(toks) == LET ls == LogicalLines(toks) IN IF Len(ls) # 1 THEN Rej("not-one-logical-line") ELSE ReadDirLine(ls[1])

\* several rules one after the other, each on its own (possibly continued, indented, commented) lines
RECURSIVE RenderAll(_, _)
RenderAll(ds, st) == IF ds = << >> THEN << >> ELSE Render(ds[1], st) \o (IF Len(ds) > 1 THEN <<P(NL, "nl")>> \o (IF st.comment # "none" THEN <<P(NL, "nl")>> ELSE << >>) ELSE << >>) \o RenderAll(Tail(ds), st)

\* what a description reads back as
NormalAct(a) == [name |-> a.name, hasVal |-> a.hasVal, val |-> a.val]
NormalOp(op) == [neg |-> op.neg, name |-> IF op.name = "" THEN << >> ELSE <<op.name>>, arg |-> op.arg]
NormalTarget(t) == [t EXCEPT !.kk = IF t.kk = "qrx" THEN "rx" ELSE t.kk]    \* quoting a regex key is spelling only
Normal(d) == [targets |-> [i \in 1..Len(d.targets) |-> NormalTarget(d.targets[i])], op |-> NormalOp(d.op), acts |-> [i \in 1..Len(d.acts) |-> NormalAct(d.acts[i])]]
=============================================================================
