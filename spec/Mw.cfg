SPECIFICATION Spec
CONSTANTS
  Slice = 0
  Slices = 1
INVARIANTS BlockedNeverReachesHandler BlockedResponseLeaksNothing PassThroughIsIdentity Emit
CHECK_DEADLOCK FALSE
