--------------------------------- MODULE Tx ---------------------------------
(***************************************************************************)
(* The public Transaction API as a state machine: one action per entry     *)
(* point (transaction.go ProcessRequestHeaders / WriteRequestBody /        *)
(* ReadRequestBodyFrom / ProcessRequestBody / ProcessResponseHeaders /     *)
(* WriteResponseBody / ReadResponseBodyFrom / ProcessResponseBody /        *)
(* ProcessLogging), the body buffers (body_buffer.go) and the rule         *)
(* interpreter of Engine.tla as the body of every phase.                   *)
(*                                                                         *)
(* The guards are the ones properties C02 and C10 state.  Where they are   *)
(* silent the action is nondeterministic and every reading is a successor  *)
(* (named choices); a conforming implementation must land in one of them.  *)
(*                                                                         *)
(* Bytes of a body are modelled by their position in the supplied stream   *)
(* (1, 2, 3, ...) so "the stored bytes are a prefix of the supplied ones"  *)
(* is literal.                                                             *)
(***************************************************************************)
EXTENDS Engine

VARIABLES cfg,        \* constant after Init: [engine, rules, req, resp]; req/resp = [access, limit, mem, action]
          st,         \* interpreter state (Engine!InitState)
          lastPhase,  \* 0..5
          rq, rs,     \* body buffers: [supplied (count), stored (Seq Nat), refused, phaseRan, err]
          reqBodyVar, \* REQUEST_BODY as seen by phase 2 ("unset" until the body phase ran with a body)
          logged,     \* ProcessLogging has been called
          last        \* observation: the last call [name, arg, ret, n]

vars == <<cfg, st, lastPhase, rq, rs, reqBodyVar, logged, last>>

NoBody == [supplied |-> 0, stored |-> << >>, refused |-> FALSE, err |-> FALSE]
Unset  == <<0 - 1>>     \* marker for "REQUEST_BODY was never populated"

Off == st.engine = "Off"
\* body access in force: the configured one unless a ctl action changed it
Access(side, ov) == IF ov = "cfg" THEN side.access ELSE ov = "On"
ReqAccess  == Access(cfg.req, st.reqAccess)
RespAccess == Access(cfg.resp, st.respAccess)

\* The limit action in force.  DetectionOnly never disrupts: it processes the part of the body
\* that fits (waf.go applies this at configuration time; the same holds after ctl:ruleEngine).
\* A WAF configured in DetectionOnly has its limit actions turned into ProcessPartial for good
\* (waf.go NewWAF), whatever ctl:ruleEngine does later.
EffAction(side) == IF st.engine = "DetectionOnly" \/ cfg.engine = "DetectionOnly" THEN "ProcessPartial" ELSE side.action

NewBytes(buf, k) == [j \in 1..k |-> buf.supplied + j]
Ret(name, arg, r, n) == last' = [name |-> name, arg |-> arg, ret |-> r, n |-> n]

NoOrd == << >>
Run(s, p) == RunPhase(s, << >>, NoOrd, RxMode("orig"), cfg.rules, p)

(***************************************************************************)
(* Phase calls                                                             *)
(***************************************************************************)
ProcessRequestHeaders ==
  /\ IF Off THEN Ret("PRH", 0, None, 0) /\ UNCHANGED <<st, lastPhase>>
     ELSE IF lastPhase >= 1 \/ st.intr # None
       THEN Ret("PRH", 0, st.intr, 0) /\ UNCHANGED <<st, lastPhase>>      \* at most once; interruption is final
       ELSE /\ st' = Run(st, 1) /\ lastPhase' = 1
            /\ Ret("PRH", 0, st'.intr, 0)
  /\ UNCHANGED <<cfg, rq, rs, reqBodyVar, logged>>

\* the body phase proper; used by ProcessRequestBody and by the write paths that reach a ProcessPartial limit
BodyPhaseReq(s, lp) ==       \* returns [st, lastPhase, ran]
  IF s.intr # None \/ s.engine = "Off" THEN [st |-> s, lastPhase |-> lp, ran |-> FALSE]
  ELSE IF lp = 1 THEN [st |-> Run(s, 2), lastPhase |-> 2, ran |-> TRUE]
  ELSE [st |-> s, lastPhase |-> lp, ran |-> FALSE]

ProcessRequestBody ==
  /\ IF Off THEN Ret("PRB", 0, None, 0) /\ UNCHANGED <<st, lastPhase, reqBodyVar>>
     ELSE IF st.intr # None THEN Ret("PRB", 0, st.intr, 0) /\ UNCHANGED <<st, lastPhase, reqBodyVar>>
     ELSE IF lastPhase = 1
       THEN /\ st' = Run(st, 2) /\ lastPhase' = 2
            /\ reqBodyVar' = IF ReqAccess /\ rq.stored # << >> THEN rq.stored ELSE reqBodyVar
            /\ Ret("PRB", 0, st'.intr, 0)
       ELSE \* out of order (before the headers phase, or a second time): never evaluated again
            Ret("PRB", 0, None, 0) /\ UNCHANGED <<st, lastPhase, reqBodyVar>>
  /\ UNCHANGED <<cfg, rq, rs, logged>>

ProcessResponseHeaders ==
  /\ IF Off THEN Ret("PRSH", 0, None, 0) /\ UNCHANGED <<st, lastPhase>>
     ELSE IF lastPhase >= 3 \/ st.intr # None
       THEN Ret("PRSH", 0, st.intr, 0) /\ UNCHANGED <<st, lastPhase>>
       ELSE /\ st' = Run(st, 3) /\ lastPhase' = 3
            /\ Ret("PRSH", 0, st'.intr, 0)
  /\ UNCHANGED <<cfg, rq, rs, reqBodyVar, logged>>

ProcessResponseBody ==
  /\ IF Off THEN Ret("PRSB", 0, None, 0) /\ UNCHANGED <<st, lastPhase>>
     ELSE IF st.intr # None THEN Ret("PRSB", 0, st.intr, 0) /\ UNCHANGED <<st, lastPhase>>
     ELSE IF lastPhase = 3
       THEN /\ st' = Run(st, 4) /\ lastPhase' = 4
            /\ Ret("PRSB", 0, st'.intr, 0)
       ELSE Ret("PRSB", 0, None, 0) /\ UNCHANGED <<st, lastPhase>>
  /\ UNCHANGED <<cfg, rq, rs, reqBodyVar, logged>>

ProcessLogging ==
  /\ ~logged
  /\ logged' = TRUE
  /\ IF Off THEN UNCHANGED <<st, lastPhase>>
     ELSE st' = Run(st, 5) /\ lastPhase' = 5            \* the logging phase always runs
  /\ Ret("PL", 0, None, 0)
  /\ UNCHANGED <<cfg, rq, rs, reqBodyVar>>

(***************************************************************************)
(* Body writes.  side = "req" | "resp"; k = number of bytes offered;       *)
(* mode = "slice" (Write*Body), "known" (Read*BodyFrom, reader with Len),  *)
(* "unknown" (reader without Len: copies what fits, then decides).         *)
(* Returns through `last`: the interruption reported and the bytes taken.  *)
(***************************************************************************)
Refusal(side) == [id |-> 0, action |-> "deny", status |-> IF side = "req" THEN 413 ELSE 500, data |-> << >>]

\* result of offering k bytes to buffer b of a side with configuration c
\*   [b, st, lastPhase, ret, n]
Offer(sideName, c0, b, k, mode) ==
  LET ov    == IF sideName = "req" THEN st.reqLimit ELSE st.respLimit      \* limit set at run time by ctl (0 = none)
      c     == [c0 EXCEPT !.access = IF sideName = "req" THEN ReqAccess ELSE RespAccess, !.limit = IF ov = 0 THEN c0.limit ELSE ov]
      len   == Len(b.stored)
      act   == EffAction(c)
      room  == IF c.limit >= len THEN c.limit - len ELSE 0      \* a limit lowered below what is buffered leaves no room
      reach == len + k >= c.limit            \* the cumulative size reaches the limit
      b1    == [b EXCEPT !.supplied = @ + k]
  IN
  IF Off \/ ~c.access THEN {[b |-> b1, st |-> st, lastPhase |-> lastPhase, ret |-> None, n |-> 0, ranBody |-> FALSE]}
  ELSE IF b.refused /\ ~(reach /\ act = "Reject")
    THEN \* Choice_AfterRefusal: the body was refused (Reject) and the transaction interrupted; whether
         \* bytes offered afterwards are dropped or still buffered (when they fit) is not specified
         {[b |-> b1, st |-> st, lastPhase |-> lastPhase, ret |-> st.intr, n |-> 0, ranBody |-> FALSE],
          [b |-> [b1 EXCEPT !.stored = @ \o SubSeq(NewBytes(b, k), 1, IF k <= room THEN k ELSE room)],
           st |-> st, lastPhase |-> lastPhase, ret |-> st.intr, n |-> IF k <= room THEN k ELSE room, ranBody |-> FALSE]}
  ELSE IF len = c.limit
    THEN \* the limit was reached before: later bytes are ignored
         {[b |-> b1, st |-> st, lastPhase |-> lastPhase,
           ret |-> IF act = "Reject" THEN st.intr ELSE None, n |-> 0, ranBody |-> FALSE]}
  ELSE IF reach /\ act = "Reject" /\ mode # "unknown"
    THEN \* refused: nothing of this write is stored, the transaction is interrupted (unless already)
         LET s1 == IF st.intr = None THEN [st EXCEPT !.intr = Refusal(sideName)] ELSE st IN
         {[b |-> [b1 EXCEPT !.refused = TRUE, !.err = TRUE], st |-> s1, lastPhase |-> lastPhase, ret |-> s1.intr, n |-> 0, ranBody |-> FALSE]}
  ELSE IF reach /\ act = "Reject"
    THEN \* reader of unknown length: the bytes that fit are copied, then the body is refused
         LET s1 == IF st.intr = None THEN [st EXCEPT !.intr = Refusal(sideName)] ELSE st IN
         {[b |-> [b1 EXCEPT !.stored = @ \o SubSeq(NewBytes(b, k), 1, room), !.refused = TRUE, !.err = TRUE],
           st |-> s1, lastPhase |-> lastPhase, ret |-> s1.intr, n |-> room, ranBody |-> FALSE]}
  ELSE IF reach
    THEN \* ProcessPartial: exactly the first `limit` bytes are kept and the body phase runs (once)
         LET b2 == [b1 EXCEPT !.stored = @ \o SubSeq(NewBytes(b, k), 1, room), !.err = TRUE]
             ph == IF sideName = "req"
                     THEN BodyPhaseReq(st, lastPhase)
                     ELSE IF st.intr # None \/ lastPhase # 3 THEN [st |-> st, lastPhase |-> lastPhase, ran |-> FALSE]
                          ELSE [st |-> Run(st, 4), lastPhase |-> 4, ran |-> TRUE]
         IN {[b |-> b2, st |-> ph.st, lastPhase |-> ph.lastPhase, ret |-> ph.st.intr, n |-> room, ranBody |-> ph.ran]}
  ELSE {[b |-> [b1 EXCEPT !.stored = @ \o NewBytes(b, k)], st |-> st, lastPhase |-> lastPhase, ret |-> st.intr, n |-> k, ranBody |-> FALSE]}

WriteReq(k, mode) ==
  /\ \E r \in Offer("req", cfg.req, rq, k, mode) :
       /\ rq' = r.b /\ st' = r.st /\ lastPhase' = r.lastPhase
       /\ reqBodyVar' = IF r.ranBody /\ r.b.stored # << >> THEN r.b.stored ELSE reqBodyVar
       /\ Ret(IF mode = "slice" THEN "WRB" ELSE IF mode = "known" THEN "RRBK" ELSE "RRBU", k, r.ret, r.n)
  /\ UNCHANGED <<cfg, rs, logged>>

WriteResp(k, mode) ==
  /\ \E r \in Offer("resp", cfg.resp, rs, k, mode) :
       /\ rs' = r.b /\ st' = r.st /\ lastPhase' = r.lastPhase
       /\ Ret(IF mode = "slice" THEN "WRSB" ELSE IF mode = "known" THEN "RRSBK" ELSE "RRSBU", k, r.ret, r.n)
  /\ UNCHANGED <<cfg, rq, reqBodyVar, logged>>

(***************************************************************************)
(* Properties (C02, C10)                                                   *)
(***************************************************************************)
\* how often the rules of phase p have been evaluated = occurrences of its marker rule
EvalCount(p) == Cardinality({i \in 1..Len(st.fired) : st.fired[i].id = 100 * p})

\* rules of the request and response phases are evaluated at most once, whatever the call order
AtMostOnce == \A p \in 1..4 : EvalCount(p) <= 1

\* an interruption is final
InterruptFinal == [][st.intr # None => st'.intr = st.intr]_vars

\* after an interruption nothing of phases 1-4 fires any more
NothingAfterInterrupt ==
  [][st.intr # None => \A i \in (Len(st.fired) + 1)..Len(st'.fired) :
         \E j \in 1..Len(cfg.rules) : cfg.rules[j].id = st'.fired[i].id /\ cfg.rules[j].phase = 5]_vars

\* every later phase call reports that same interruption (ProcessLogging returns nothing)
SameInterruptionReported ==
  (st.intr # None /\ st.engine # "Off" /\ last.name \in {"PRH", "PRB", "PRSH", "PRSB"}) => last.ret = st.intr      \* (a transaction switched off by ctl reports nothing any more)

\* in DetectionOnly no call returns or records an interruption
DetectionOnlySilent ==
  cfg.engine = "DetectionOnly" /\ (\A j \in 1..Len(cfg.rules) : \A a \in 1..Len(cfg.rules[j].links[1].acts) : cfg.rules[j].links[1].acts[a].a # "ctl")
     => (st.intr = None /\ last.ret = None)

\* with the engine Off (and never switched) no rule is evaluated
OffEvaluatesNothing ==
  cfg.engine = "Off" => st.fired = << >>

\* byte-faithful buffering: the stored bytes are the first bytes supplied, at most `limit` of them
IsPrefixOfSupplied(b) == \A j \in 1..Len(b.stored) : b.stored[j] = j
\* (bytes offered while body access is switched off are not buffered: the prefix law is stated for
\* transactions whose body access is not changed by ctl)
\* (... nor its limit: bytes cut off at a limit that ctl raises afterwards leave a gap; the laws are stated for
\* transactions whose access and limits stay as configured, the edge replay covers the others)
Faithful == /\ ((~rq.refused /\ st.reqAccess = "cfg" /\ st.reqLimit = 0) => IsPrefixOfSupplied(rq)) /\ (st.reqLimit = 0 => Len(rq.stored) <= cfg.req.limit)
            /\ ((~rs.refused /\ st.respAccess = "cfg" /\ st.respLimit = 0) => IsPrefixOfSupplied(rs)) /\ (st.respLimit = 0 => Len(rs.stored) <= cfg.resp.limit)

\* Reject: refused exactly when the cumulative size reaches the limit (engine On throughout)
RejectExact ==
  (cfg.engine = "On" /\ cfg.req.action = "Reject" /\ cfg.req.access /\ st.engine = "On" /\ st.reqAccess = "cfg"
     /\ (\A j \in 1..Len(cfg.rules) : \A a \in 1..Len(cfg.rules[j].links[1].acts) : cfg.rules[j].links[1].acts[a].a # "ctl"))
     => (rq.refused <=> rq.supplied >= cfg.req.limit)

\* ProcessPartial: once the limit is reached exactly `limit` bytes are kept
PartialExact ==
  (cfg.req.action = "ProcessPartial" /\ cfg.req.access /\ st.reqAccess = "cfg" /\ cfg.engine # "Off" /\ st.engine # "Off" /\ rq.supplied >= cfg.req.limit
     /\ (\A j \in 1..Len(cfg.rules) : \A a \in 1..Len(cfg.rules[j].links[1].acts) : cfg.rules[j].links[1].acts[a].a # "ctl"))
     => Len(rq.stored) = cfg.req.limit

\* what the body phase saw is what is stored (same bytes for the processor, the variable and the reader)
BodyVarIsStoredPrefix ==
  (reqBodyVar # Unset /\ st.reqAccess = "cfg" /\ st.reqLimit = 0) => (\A j \in 1..Len(reqBodyVar) : reqBodyVar[j] = j) /\ Len(reqBodyVar) <= Len(rq.stored)

=============================================================================
