----------------------------- MODULE Layout_MC -----------------------------
(***************************************************************************)
(* The line level of the configuration text (C16): a text is a sequence of *)
(* physical lines; the line assembler of the parser drops comment and      *)
(* blank lines, joins a line that ends in a backslash with the next one    *)
(* and hands every assembled line to the directive reader.  The format     *)
(* puts no bound on the length of a line or of an opaque word.             *)
(*                                                                         *)
(* Kinds of physical lines:                                                *)
(*   rule         a complete one-line rule (SecAction with its own id)     *)
(*   ruleLong     the same with an opaque word (msg value) of Long bytes   *)
(*   contRule     one rule written over two physical lines (backslash)     *)
(*   comment      a comment line        commentLong  one of Long bytes     *)
(*   blank        an empty line                                            *)
(* Ending of the text: the last line is followed by a newline ("nl"), by   *)
(* nothing ("none"), or ends in a continuation mark with nothing to        *)
(* continue with ("cont").                                                 *)
(*                                                                         *)
(* Law Layout: the compiled rules are exactly the rules of the rule lines, *)
(* in order - or the text is rejected with an error where the reading is   *)
(* open (a line beyond a length the implementation may refuse, a dangling  *)
(* continuation).  A text is never compiled into FEWER rules than it       *)
(* holds: that is "silently altered".                                      *)
(***************************************************************************)
EXTENDS Naturals, Sequences, TLC, Json
CONSTANTS MaxLines
VARIABLES lines, ending

Kinds == {"rule", "ruleLong", "contRule", "comment", "commentLong", "blank"}
Endings == {"nl", "none", "cont"}
RuleKinds == {"rule", "ruleLong", "contRule"}
LongKinds == {"ruleLong", "commentLong"}

RECURSIVE Seqs(_)
Seqs(n) == IF n = 0 THEN {<< >>} ELSE Seqs(n - 1) \cup {Append(q, k) : q \in {x \in Seqs(n - 1) : Len(x) = n - 1}, k \in Kinds}

Init == lines \in (Seqs(MaxLines) \ {<< >>}) /\ ending \in Endings
Next == UNCHANGED <<lines, ending>>
Spec == Init /\ [][Next]_<<lines, ending>>

\* the rule of line i carries the id i
RuleIds(ls) == LET F[i \in 0..Len(ls)] == IF i = 0 THEN << >> ELSE IF ls[i] \in RuleKinds THEN Append(F[i - 1], i) ELSE F[i - 1] IN F[Len(ls)]
\* a dangling continuation only means something after a line that holds text
Dangling == ending = "cont" /\ lines[Len(lines)] # "blank"
\* Choice_LineLimit / Choice_DanglingContinuation: rejecting with an error is allowed here, dropping rules never is
MayReject == (\E i \in 1..Len(lines) : lines[i] \in LongKinds) \/ Dangling
\* a dangling mark after a comment line continues the comment: nothing is lost either way
Expect == [ids |-> RuleIds(lines), mayReject |-> MayReject]

\* model-level sanity: every rule line is expected exactly once, in order
IdsAscending == \A i, j \in 1..Len(RuleIds(lines)) : i < j => RuleIds(lines)[i] < RuleIds(lines)[j]
Emit == PrintT(<<"OUT", ToJson([lines |-> lines, ending |-> ending, ids |-> Expect.ids, mayReject |-> Expect.mayReject])>>)
=============================================================================
