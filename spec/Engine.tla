------------------------------- MODULE Engine -------------------------------
(***************************************************************************)
(* The rule interpreter of Coraza as the rule language documents it:       *)
(* phases, per-rule evaluation (targets -> selection -> exclusions ->      *)
(* count -> transformations -> operator -> negation), chains, multiMatch,  *)
(* per-match non-disruptive actions, once-per-chain disruptive and flow    *)
(* actions, skip / skipAfter / allow residual state, run-time removals     *)
(* (ctl), interruption recording per engine mode.                          *)
(*                                                                         *)
(* Everything is a pure operator over an interpreter state record `st`, so *)
(* the same definitions serve three uses:                                  *)
(*   - Engine_MC   : TLC enumerates scenarios, steps rule by rule (one     *)
(*                   action per rule evaluation = one iteration of         *)
(*                   RuleGroup.Eval's loop) and emits expected outcomes    *)
(*                   that the Go harness replays against the real library  *)
(*   - Engine_Trace: the event log of a real transaction is checked step   *)
(*                   by step against StepRule                              *)
(*   - Tx.tla      : uses RunPhase as the body of the Process* actions     *)
(*                                                                         *)
(* Anchors: internal/corazawaf/rulegroup.go Eval, rule.go doEvaluate /     *)
(* matchVariable, transaction.go GetField / matchVariable / MatchRule,     *)
(* internal/actions/*.go, internal/collections/*.go.                       *)
(***************************************************************************)
EXTENDS Bytes, TLC

None == [id |-> 0, action |-> "none", status |-> 0, data |-> << >>]

(***************************************************************************)
(* Value expressions (macro expansion): a sequence of parts, each either a *)
(* literal or %{COLLECTION.key}.                                           *)
(***************************************************************************)
Lit(b)      == [t |-> "lit", c |-> "", k |-> b]
Mac(c, k)   == [t |-> "mac", c |-> c, k |-> k]

(***************************************************************************)
(* Request data: a sequence of entries [c, k, v] (collection, key, value). *)
(* Collections that hold request data directly:                            *)
(***************************************************************************)
BaseCols == {"ARGS_GET", "ARGS_POST", "REQUEST_HEADERS", "REQUEST_COOKIES", "RESPONSE_HEADERS"}

\* Which base collections a rule variable draws from, in documented order.
Sources(col) ==
  CASE col = "ARGS"                  -> <<"ARGS_GET", "ARGS_POST">>
    [] col = "ARGS_NAMES"            -> <<"ARGS_GET", "ARGS_POST">>
    [] col = "ARGS_GET_NAMES"        -> <<"ARGS_GET">>
    [] col = "ARGS_POST_NAMES"       -> <<"ARGS_POST">>
    [] col = "REQUEST_HEADERS_NAMES" -> <<"REQUEST_HEADERS">>
    [] col = "REQUEST_COOKIES_NAMES" -> <<"REQUEST_COOKIES">>
    [] col \in BaseCols              -> <<col>>
    [] OTHER                         -> << >>
IsNames(col) == col \in {"ARGS_NAMES", "ARGS_GET_NAMES", "ARGS_POST_NAMES",
                         "REQUEST_HEADERS_NAMES", "REQUEST_COOKIES_NAMES"}

(***************************************************************************)
(* Key patterns (the regex-key sub-language the model covers):             *)
(*   [m |-> "prefix", lit]  /^lit/     [m |-> "has", lit]  /lit/           *)
(*   [m |-> "exact", lit]   /^lit$/                                        *)
(* rxMode is the reading of "regex key" the run assumes -- the property    *)
(* does not say whether the pattern is applied to the key as sent, or      *)
(* case-insensitively, so every reading is allowed (Choice_RxKey):         *)
(*   "orig"   pattern against the key as sent, case-sensitively            *)
(*   "fold"   case-insensitively (both folded)                             *)
(*   "folded" the pattern as written against the folded key                *)
(***************************************************************************)
RxModes == {"orig", "fold", "folded"}
PatMatches(pat, key) ==
  CASE pat.m = "prefix" -> HasPrefix(key, pat.lit)
    [] pat.m = "has"    -> Contains(key, pat.lit)
    [] pat.m = "exact"  -> key = pat.lit
    [] OTHER            -> FALSE
RxKeyMatches(pat, key, rxMode) ==
  CASE rxMode = "orig"   -> PatMatches(pat, key)
    [] rxMode = "fold"   -> PatMatches([pat EXCEPT !.lit = Lower(pat.lit)], Lower(key))
    [] rxMode = "folded" -> PatMatches(pat, Lower(key))
    [] OTHER             -> FALSE

(***************************************************************************)
(* Selectors: [t |-> "all"] | [t |-> "key", k] | [t |-> "rx", pat]         *)
(***************************************************************************)
SelAll      == [t |-> "all", k |-> << >>, pat |-> [m |-> "", lit |-> << >>]]
SelKey(k)   == [t |-> "key", k |-> k, pat |-> [m |-> "", lit |-> << >>]]
SelRx(p)    == [t |-> "rx", k |-> << >>, pat |-> p]

\* rxMode is a record [args, other]: the reading used for the ARGS family and for every other
\* collection (an implementation may treat them differently; both are left open)
ArgsFamily == {"ARGS", "ARGS_GET", "ARGS_POST", "ARGS_NAMES", "ARGS_GET_NAMES", "ARGS_POST_NAMES"}
ModeFor(rxMode, col) == IF col \in ArgsFamily THEN rxMode.args ELSE rxMode.other
RxMode(m) == [args |-> m, other |-> m]

SelMatchesC(sel, key, rxMode, col) ==
  CASE sel.t = "all" -> TRUE
    [] sel.t = "key" -> FoldEq(sel.k, key)        \* string keys are case-insensitive
    [] sel.t = "rx"  -> RxKeyMatches(sel.pat, key, ModeFor(rxMode, col))
    [] OTHER         -> FALSE

(***************************************************************************)
(* The interpreter state.                                                  *)
(***************************************************************************)
InitState(engine) ==
  [ tx        |-> << >>,        \* TX collection: sequence of [k (folded), v]
    mvar      |-> << >>,        \* MATCHED_VAR
    mvarName  |-> << >>,        \* MATCHED_VAR_NAME
    ruleMsg   |-> << >>,        \* RULE:msg - the message of the rule being evaluated (empty if it has none)
    mvars     |-> << >>,        \* MATCHED_VARS: sequence of [n, v]
    skip      |-> 0,
    skipAfter |-> "",
    allow     |-> "unset",
    engine    |-> engine,
    intr      |-> None,
    detIntr   |-> None,
    rmIds     |-> {},           \* run-time removals (ctl:ruleRemoveById / ByTag / ByMsg)
    rmRanges  |-> {},           \* set of <<lo, hi>>
    rmTags    |-> {},
    rmMsgs    |-> {},
    rmTgts    |-> << >>,        \* run-time target removals: sequence of [by, id, hi, tag, col, sel]
    fired     |-> << >>,        \* sequence of [id, md]
    hsev      |-> 255,
    nops      |-> 0,            \* number of operator evaluations so far (observation)
    logOps    |-> FALSE,        \* trace validation only: keep the operator evaluations of the current rule
    ops       |-> << >>,        \* [var, key, val, m] per operator evaluation of the current rule
    guide     |-> << >>,
    phase     |-> 0,            \* the phase being evaluated (ctl options are honoured up to a phase)
    reqAccess |-> "cfg",        \* ctl:requestBodyAccess / responseBodyAccess overrides: "cfg" | "On" | "Off"
    reqLimit  |-> 0,            \* ctl:requestBodyLimit / responseBodyLimit overrides (0 = the configured limit)
    respLimit |-> 0,
    respAccess |-> "cfg",
    cacheOn   |-> FALSE,        \* EngineCache layer: share transformation results between rules of a phase
    cache     |-> {},           \* set of [k, v]: k = CacheKey(...), v = transformed value
    unsound   |-> FALSE,
    cacheKeyDesign |-> "positional" ]       \* history: some operator evaluation received a value other than the rule's
                                \* own transformation of the datum it was looking at (C12)       \* trace validation only: the logged operator evaluations of the current
                                \* rule; the order in which each target's data is walked is read off it

TxGet(st, k) ==
  LET lk == Lower(k)
      idx == {i \in 1..Len(st.tx) : st.tx[i].k = lk}
  IN IF idx = {} THEN << >> ELSE st.tx[CHOOSE i \in idx : TRUE].v
TxHas(st, k) == \E i \in 1..Len(st.tx) : st.tx[i].k = Lower(k)
TxDel(st, k) ==
  [st EXCEPT !.tx = SelectSeq(st.tx, LAMBDA e : e.k # Lower(k))]
TxSet(st, k, v) ==
  LET lk == Lower(k) IN
  IF TxHas(st, k)
    THEN [st EXCEPT !.tx = [i \in 1..Len(st.tx) |-> IF st.tx[i].k = lk THEN [k |-> lk, v |-> v] ELSE st.tx[i]]]
    ELSE [st EXCEPT !.tx = Append(st.tx, [k |-> lk, v |-> v])]

\* the bytes of a collection name (TLA+ strings are atoms, so this is a table)
ColBytes(col) ==
  CASE col = "ARGS"            -> <<65,82,71,83>>
    [] col = "ARGS_GET"        -> <<65,82,71,83,95,71,69,84>>
    [] col = "ARGS_POST"       -> <<65,82,71,83,95,80,79,83,84>>
    [] col = "ARGS_NAMES"      -> <<65,82,71,83,95,78,65,77,69,83>>
    [] col = "ARGS_GET_NAMES"  -> <<65,82,71,83,95,71,69,84,95,78,65,77,69,83>>
    [] col = "ARGS_POST_NAMES" -> <<65,82,71,83,95,80,79,83,84,95,78,65,77,69,83>>
    [] col = "REQUEST_HEADERS" -> <<82,69,81,85,69,83,84,95,72,69,65,68,69,82,83>>
    [] col = "REQUEST_HEADERS_NAMES" -> <<82,69,81,85,69,83,84,95,72,69,65,68,69,82,83,95,78,65,77,69,83>>
    [] col = "REQUEST_COOKIES" -> <<82,69,81,85,69,83,84,95,67,79,79,75,73,69,83>>
    [] col = "REQUEST_COOKIES_NAMES" -> <<82,69,81,85,69,83,84,95,67,79,79,75,73,69,83,95,78,65,77,69,83>>
    [] col = "RESPONSE_HEADERS" -> <<82,69,83,80,79,78,83,69,95,72,69,65,68,69,82,83>>
    [] col = "TX"              -> <<84,88>>
    [] col = "MATCHED_VAR"     -> <<77,65,84,67,72,69,68,95,86,65,82>>
    [] col = "MATCHED_VARS"    -> <<77,65,84,67,72,69,68,95,86,65,82,83>>
    [] OTHER                   -> << >>
\* MATCHED_VAR_NAME: "ARGS:foo", or "ARGS" when the datum has no key
VarName(col, key) == IF key = << >> THEN ColBytes(col) ELSE ColBytes(col) \o <<58>> \o key

ExpandPart(st, p) ==
  CASE p.t = "lit" -> p.k
    [] p.t = "mac" /\ p.c = "TX"           -> TxGet(st, p.k)
    [] p.t = "mac" /\ p.c = "MATCHED_VAR"  -> st.mvar
    [] p.t = "mac" /\ p.c = "MATCHED_VAR_NAME" -> st.mvarName
    [] p.t = "mac" /\ p.c = "RULE" /\ p.k = <<109, 115, 103>> -> st.ruleMsg       \* %{rule.msg}
    [] OTHER -> << >>
Expand(st, ve) == FlattenSeq([i \in 1..Len(ve) |-> ExpandPart(st, ve[i])])

(***************************************************************************)
(* Target selection (Transaction.GetField as documented).                  *)
(*   tgt = [col, sel, count, excl]   excl: sequence of selectors           *)
(* `ord` is the iteration order the runtime happens to use: a permutation  *)
(* of the request's entry indices.  Nothing observable may depend on it    *)
(* (C04); it is explicit so that TLC explores every order.                 *)
(***************************************************************************)
Datum(var, key, val) == [var |-> var, key |-> key, val |-> val]

\* entries of `req` (by index, in the order `ord`) that a variable exposes
BaseSelect(req, ord, col) ==
  LET srcs == Sources(col)
      pick(src) == SelectSeq(ord, LAMBDA i : req[i].c = src)
  IN FlattenSeq([s \in 1..Len(srcs) |-> pick(srcs[s])])

Excluded(exs, key, rxMode, col) ==
  \E j \in 1..Len(exs) : SelMatchesC(exs[j], key, rxMode, col)

\* run-time target removals that apply to rule r (chain links are looked up under the starter) / variable col
RmTgtApplies(e, r) ==
  CASE e.by = "id"  -> r.id >= e.id /\ r.id <= e.hi
    [] e.by = "tag" -> \E t \in 1..Len(r.tags) : r.tags[t] = e.tag
    [] e.by = "msg" -> r.msg # "" /\ r.msg = e.tag
    [] OTHER        -> FALSE
RmExcl(st, r, col) ==
  LET hits == SelectSeq(st.rmTgts, LAMBDA e : RmTgtApplies(e, r) /\ e.col = col)
  IN [i \in 1..Len(hits) |-> hits[i].sel]

SelectData(st, req, ord, rxMode, r, tgt) ==
  LET exs  == tgt.excl \o RmExcl(st, r, tgt.col)
      raw  ==
        CASE tgt.col = "TX" ->
               LET hit == SelectSeq(st.tx, LAMBDA e : SelMatchesC(tgt.sel, e.k, rxMode, "TX"))
               IN [i \in 1..Len(hit) |-> Datum("TX", hit[i].k, hit[i].v)]
          [] tgt.col = "MATCHED_VAR" -> <<Datum("MATCHED_VAR", << >>, st.mvar)>>
          [] tgt.col = "MATCHED_VARS" ->
               [i \in 1..Len(st.mvars) |-> Datum("MATCHED_VARS", st.mvars[i].n, st.mvars[i].v)]
          [] OTHER ->
               LET idx == SelectSeq(BaseSelect(req, ord, tgt.col),
                                    LAMBDA i : SelMatchesC(tgt.sel, req[i].k, rxMode, tgt.col))
               IN [j \in 1..Len(idx) |->
                     Datum(tgt.col, req[idx[j]].k,
                           IF IsNames(tgt.col) THEN req[idx[j]].k ELSE req[idx[j]].v)]
      kept == SelectSeq(raw, LAMBDA d : ~Excluded(exs, d.key, rxMode, tgt.col))
  IN IF tgt.count
       THEN \* the key reported for a count is not specified (the selector text, folded or not): left empty
            <<Datum(tgt.col, << >>, Itoa(Len(kept)))>>
       ELSE kept

(***************************************************************************)
(* Transformations and operators available to scenarios (the full          *)
(* vocabulary is the subject of Transform.tla / Operators.tla).            *)
(***************************************************************************)
RECURSIVE HexDecodeE(_)
HexDecodeE(s) == IF Len(s) < 2 THEN << >> ELSE <<16 * HexVal(s[1]) + HexVal(s[2])>> \o HexDecodeE(SubSeq(s, 3, Len(s)))
HexOk(s) == Len(s) % 2 = 0 /\ \A i \in 1..Len(s) : IsHex(s[i])
Tf1(name, s) ==
  CASE name = "lowercase"          -> Lower(s)
    [] name = "uppercase"          -> Upper(s)
    [] name = "length"             -> Length(s)
    [] name = "trim"               -> Trim(s)
    [] name = "removeWhitespace"   -> RemoveWhitespace(s)
    [] name = "compressWhitespace" -> CompressWhitespace(s)
    [] name = "removeNulls"        -> RemoveNulls(s)
    [] name = "hexEncode"          -> HexEncode(s)
    [] name = "hexDecode"          -> IF HexOk(s) THEN HexDecodeE(s) ELSE s    \* a step that reports an error leaves the value as it was
    [] name = "none"               -> s
    [] OTHER                       -> s
RECURSIVE Tf(_, _)
Tf(tfs, s) == IF tfs = << >> THEN s ELSE Tf(Tail(tfs), Tf1(Head(tfs), s))
\* multiMatch: the original, then every intermediate value a transformation reports as changed.
\* A transformation must report "changed" when its output differs (C14); it MAY also do so when
\* the output happens to equal the input.  Choice_OverReport names the transformations of this
\* vocabulary that always report "changed" in the implementation (length.go, hex_encode.go).
OverReports(name) == name \in {"length", "hexEncode"}
RECURSIVE MMVals(_, _)
MMVals(tfs, s) ==
  IF tfs = << >> THEN << >>
  ELSE LET n == Tf1(Head(tfs), s) IN
       IF n # s \/ OverReports(Head(tfs)) THEN <<n>> \o MMVals(Tail(tfs), n) ELSE MMVals(Tail(tfs), s)
Seen(r, v) == IF r.mm THEN <<v>> \o MMVals(r.tfs, v) ELSE <<Tf(r.tfs, v)>>

\* op = [name, arg (value expression), neg]
OpHolds(st, op, v) ==
  LET a == Expand(st, op.arg) IN
  CASE op.name = "unconditionalMatch" -> TRUE
    [] op.name = "noMatch"            -> FALSE
    [] op.name = "streq"              -> v = a
    [] op.name = "contains"           -> Contains(v, a)
    [] op.name = "beginsWith"         -> HasPrefix(v, a)
    [] op.name = "endsWith"           -> HasSuffix(v, a)
    [] op.name = "rx"                 -> Contains(v, a)      \* literal patterns only
    [] op.name = "eq"                 -> AtoiOr0(v) = AtoiOr0(a)
    [] op.name = "ge"                 -> AtoiOr0(v) >= AtoiOr0(a)
    [] op.name = "gt"                 -> AtoiOr0(v) > AtoiOr0(a)
    [] op.name = "le"                 -> AtoiOr0(v) <= AtoiOr0(a)
    [] op.name = "lt"                 -> AtoiOr0(v) < AtoiOr0(a)
    [] OTHER                          -> FALSE
OpMatches(st, op, v) == OpHolds(st, op, v) # op.neg

(***************************************************************************)
(* Actions.  act = [a, k, op, v, n, s]                                     *)
(*   setvar : k key expression, op in {"set","add","sub","del"}, v value   *)
(*   ctl    : s option, v argument                                         *)
(*   skip n | skipAfter s | allow s(scope) | deny/drop/redirect/pass/block *)
(*   status is rule data (r.status), severity r.sev, capture r.capture     *)
(***************************************************************************)
Itoa2(n) == CASE n = 1 -> "1" [] n = 2 -> "2" [] n = 3 -> "3" [] n = 4 -> "4" [] OTHER -> "9"
A(name)          == [a |-> name, k |-> << >>, op |-> "", v |-> << >>, n |-> 0, s |-> ""]
ASetvar(k, op, v) == [A("setvar") EXCEPT !.k = k, !.op = op, !.v = v]
ASkip(n)         == [A("skip") EXCEPT !.n = n]
ASkipAfter(m)    == [A("skipAfter") EXCEPT !.s = m]
AAllow(scope)    == [A("allow") EXCEPT !.s = scope]
ARedirect(u)     == [A("redirect") EXCEPT !.v = u]
ACtlRmId(id)     == [A("ctl") EXCEPT !.s = "ruleRemoveById", !.n = id]
ACtlRmRange(lo, hi) == [A("ctl") EXCEPT !.s = "ruleRemoveByIdRange", !.n = lo, !.v = <<hi>>]
ACtlRmTag(t)     == [A("ctl") EXCEPT !.s = "ruleRemoveByTag", !.op = t]
ACtlRmMsg(m)     == [A("ctl") EXCEPT !.s = "ruleRemoveByMsg", !.op = m]
ACtlRmTgt(id, col, sel) == [A("ctl") EXCEPT !.s = "ruleRemoveTargetById", !.n = id, !.k = <<[col |-> col, sel |-> sel]>>]
ACtlRmTgtTag(t, col, sel) == [A("ctl") EXCEPT !.s = "ruleRemoveTargetByTag", !.op = t, !.k = <<[col |-> col, sel |-> sel]>>]
ACtlRmTgtMsg(m, col, sel) == [A("ctl") EXCEPT !.s = "ruleRemoveTargetByMsg", !.op = m, !.k = <<[col |-> col, sel |-> sel]>>]
ACtlEngine(m)    == [A("ctl") EXCEPT !.s = "ruleEngine", !.op = m]
ACtlReqAccess(v) == [A("ctl") EXCEPT !.s = "requestBodyAccess", !.op = v]
ACtlRespAccess(v) == [A("ctl") EXCEPT !.s = "responseBodyAccess", !.op = v]
ACtlReqLimit(n) == [A("ctl") EXCEPT !.s = "requestBodyLimit", !.op = Itoa2(n), !.n = n]
ACtlRespLimit(n) == [A("ctl") EXCEPT !.s = "responseBodyLimit", !.op = Itoa2(n), !.n = n]

NonDisruptive(act) == act.a \in {"setvar", "ctl"}
FlowOrDisruptive(act) == act.a \in {"skip", "skipAfter", "allow", "deny", "drop", "redirect", "pass", "block"}

DoSetvar(st, act) ==
  LET key == Expand(st, act.k)
      val == Expand(st, act.v)
      cur == TxGet(st, key)
  IN CASE act.op = "del" -> TxDel(st, key)
       [] act.op = "set" -> TxSet(st, key, val)
       [] act.op \in {"add", "sub"} ->
            \* arithmetic is defined on integers; anything else leaves the documented result open,
            \* scenario generators only produce integer operands
            IF (cur = << >> \/ IsInt(cur)) /\ IsInt(val)
              THEN LET c == IF cur = << >> THEN 0 ELSE IntVal(cur)
                       d == IntVal(val)
                   IN TxSet(st, key, Itoa(IF act.op = "add" THEN c + d ELSE c - d))
              ELSE st
       [] OTHER -> st

DoCtl(st, act) ==
  CASE act.s = "ruleRemoveById"       -> [st EXCEPT !.rmIds = @ \cup {act.n}]
    [] act.s = "ruleRemoveByIdRange"  -> [st EXCEPT !.rmRanges = @ \cup {<<act.n, act.v[1]>>}]
    [] act.s = "ruleRemoveByTag"      -> [st EXCEPT !.rmTags = @ \cup {act.op}]
    [] act.s = "ruleRemoveByMsg"      -> [st EXCEPT !.rmMsgs = @ \cup {act.op}]
    [] act.s = "ruleRemoveTargetById" -> [st EXCEPT !.rmTgts = Append(@, [by |-> "id", id |-> act.n, hi |-> act.n, tag |-> "", col |-> act.k[1].col, sel |-> act.k[1].sel])]
    [] act.s = "ruleRemoveTargetByTag" -> [st EXCEPT !.rmTgts = Append(@, [by |-> "tag", id |-> 0, hi |-> 0, tag |-> act.op, col |-> act.k[1].col, sel |-> act.k[1].sel])]
    [] act.s = "ruleRemoveTargetByMsg" -> [st EXCEPT !.rmTgts = Append(@, [by |-> "msg", id |-> 0, hi |-> 0, tag |-> act.op, col |-> act.k[1].col, sel |-> act.k[1].sel])]
    [] act.s = "ruleEngine"           -> [st EXCEPT !.engine = act.op]
    \* body access can be switched until the corresponding headers phase is over
    [] act.s = "requestBodyLimit"     -> [st EXCEPT !.reqLimit = act.n]
    [] act.s = "responseBodyLimit"    -> [st EXCEPT !.respLimit = act.n]
    [] act.s = "requestBodyAccess"    -> IF st.phase <= 1 THEN [st EXCEPT !.reqAccess = act.op] ELSE st
    [] act.s = "responseBodyAccess"   -> IF st.phase <= 3 THEN [st EXCEPT !.respAccess = act.op] ELSE st
    [] OTHER -> st

DoNonDisruptive(st, act) ==
  CASE act.a = "setvar" -> DoSetvar(st, act)
    [] act.a = "ctl"    -> DoCtl(st, act)
    [] OTHER            -> st

RECURSIVE RunActs(_, _)
RunActs(st, acts) ==      \* the non-disruptive actions of a link, in order
  IF acts = << >> THEN st
  ELSE RunActs(IF NonDisruptive(Head(acts)) THEN DoNonDisruptive(st, Head(acts)) ELSE st, Tail(acts))

\* Recording an interruption per engine mode (Transaction.Interrupt).
\* The first interruption is final: a disruptive logging-phase rule that fires after the
\* transaction was interrupted does not replace it (C02).
Interrupt(st, it) ==
  CASE st.engine = "On" -> IF st.intr = None THEN [st EXCEPT !.intr = it] ELSE st
    [] st.engine = "DetectionOnly" -> IF st.detIntr = None THEN [st EXCEPT !.detIntr = it] ELSE st
    [] OTHER -> st

RedirectStatus(s) == IF s \in {301, 302, 303, 307} THEN s ELSE 302

DoFlowDisruptive(st, r, act) ==
  CASE act.a = "skip"      -> [st EXCEPT !.skip = act.n]
    [] act.a = "skipAfter" -> [st EXCEPT !.skipAfter = act.s]
    [] act.a = "allow"     -> IF st.engine = "On" THEN [st EXCEPT !.allow = act.s] ELSE st
    [] act.a = "deny"      -> Interrupt(st, [id |-> r.id, action |-> "deny",
                                             status |-> IF r.status = 0 THEN 403 ELSE r.status, data |-> << >>])
    [] act.a = "drop"      -> Interrupt(st, [id |-> r.id, action |-> "drop", status |-> r.status, data |-> << >>])
    [] act.a = "redirect"  -> Interrupt(st, [id |-> r.id, action |-> "redirect",
                                             status |-> RedirectStatus(r.status), data |-> Expand(st, act.v)])
    [] OTHER -> st      \* pass, block without a default action
RECURSIVE RunFlow(_, _, _)
RunFlow(st, r, acts) ==
  IF acts = << >> THEN st
  ELSE RunFlow(IF FlowOrDisruptive(Head(acts)) THEN DoFlowDisruptive(st, r, Head(acts)) ELSE st, r, Tail(acts))

(***************************************************************************)
(* One link (the starter or a chained rule):                               *)
(*   link = [targets, tfs, op, mm, acts, hasOp]                            *)
(* Returns [st, md]: md = the match data of this link, in evaluation       *)
(* order; st with MATCHED_* updated and the link's non-disruptive actions  *)
(* run once per matched value.                                             *)
(***************************************************************************)
MatchVariable(st, d) ==
  LET name == VarName(d.var, d.key) IN
  [st EXCEPT !.mvar = d.val, !.mvarName = name, !.mvars = Append(@, [n |-> name, v |-> d.val])]

(***************************************************************************)
(* EngineCache layer (rule.go transformArg, rulegroup.go transformationKey) *)
(* The per-phase cache maps CacheKey(datum, position, prefix of the         *)
(* transformation list) to the transformed value.  The key design is this  *)
(* one operator; everything else follows the code: longest cached prefix   *)
(* first, every intermediate step is stored, TX is never cached, the cache *)
(* is emptied when a phase starts.                                         *)
(*   as implemented at the pinned commit: <<key, position, variable, prefix>> *)
(*   (the identity of the key STRING and the index of the datum in the     *)
(*   list its target produced - not the identity of the value)             *)
(***************************************************************************)
CacheKeyPositional(d, pos, prefix) == <<d.key, pos, d.var, prefix>>
CacheKeyByValue(d, pos, prefix)    == <<d.key, d.val, d.var, prefix>>
CacheKey(st, d, pos, prefix) ==
  IF st.cacheKeyDesign = "positional" THEN CacheKeyPositional(d, pos, prefix) ELSE CacheKeyByValue(d, pos, prefix)

CachedTf(st, link, d, pos) ==          \* returns [st, v]
  IF link.tfs = << >> THEN [st |-> st, v |-> d.val]
  ELSE IF d.var = "TX" \/ ~st.cacheOn THEN [st |-> st, v |-> Tf(link.tfs, d.val)]
  ELSE LET n     == Len(link.tfs)
           K(i)  == CacheKey(st, d, pos, SubSeq(link.tfs, 1, i))
           hits  == {i \in 1..n : \E e \in st.cache : e.k = K(i)}
           start == IF hits = {} THEN 0 ELSE CHOOSE i \in hits : \A j \in hits : j <= i
           v0    == IF start = 0 THEN d.val ELSE (CHOOSE e \in st.cache : e.k = K(start)).v
           fills == {[k |-> K(i), v |-> Tf(SubSeq(link.tfs, start + 1, i), v0)] : i \in (start + 1)..n}
           v     == IF start = n THEN v0 ELSE Tf(SubSeq(link.tfs, start + 1, n), v0)
       IN [st |-> [st EXCEPT !.cache = {e \in @ : ~(\E f \in fills : f.k = e.k)} \cup fills,
                             !.unsound = @ \/ (v # Tf(link.tfs, d.val))],
           v  |-> v]

\* the operator is tried on every value of `vs` (one value, or the multiMatch sequence) of datum d
RECURSIVE EvalSeen(_, _, _, _, _)
EvalSeen(st, link, d, vs, md) ==
  IF vs = << >> THEN [st |-> st, md |-> md]
  ELSE LET v   == Head(vs)
           hit == OpMatches(st, link.op, v)
           st0 == [st EXCEPT !.nops = @ + 1,
                             !.ops = IF st.logOps
                                       THEN Append(@, [var |-> d.var, key |-> d.key, val |-> v, m |-> hit])
                                       ELSE @]
       IN IF hit
            THEN LET dm  == Datum(d.var, d.key, v)
                     st1 == MatchVariable(st0, dm)
                     st2 == RunActs(st1, link.acts)
                 IN EvalSeen(st2, link, d, Tail(vs), Append(md, dm))
            ELSE EvalSeen(st0, link, d, Tail(vs), md)

RECURSIVE EvalVals(_, _, _, _, _)
\* data: the selected data of the current target in walking order; pos: 1-based position
EvalVals(st, link, data, pos, md) ==
  IF pos > Len(data) THEN [st |-> st, md |-> md]
  ELSE LET d   == data[pos]
           c   == IF link.mm THEN [st |-> st, vs |-> <<d.val>> \o MMVals(link.tfs, d.val)]   \* multiMatch bypasses the cache
                  ELSE LET r == CachedTf(st, link, d, pos - 1) IN [st |-> r.st, vs |-> <<r.v>>]
           res == EvalSeen(c.st, link, d, c.vs, md)
       IN EvalVals(res.st, link, data, pos + 1, res.md)

\* trace validation: walk the selected data in the order in which the log shows them evaluated
\* (the iteration order of a map is chosen anew by the runtime at every walk)
RECURSIVE ReorderByLog(_, _, _, _)
ReorderByLog(link, data, log, k) ==
  IF data = << >> \/ k > Len(log) THEN data
  ELSE LET idx == {j \in 1..Len(data) : /\ data[j].var = log[k].var /\ data[j].key = log[k].key
                                        /\ Head(Seen(link, data[j].val)) = log[k].val}
       IN IF idx = {} THEN data
          ELSE LET j    == CHOOSE j \in idx : \A o \in idx : j <= o
                   rest == SubSeq(data, 1, j - 1) \o SubSeq(data, j + 1, Len(data))
               IN <<data[j]>> \o ReorderByLog(link, rest, log, k + Len(Seen(link, data[j].val)))

RECURSIVE EvalTargets(_, _, _, _, _, _, _, _)
EvalTargets(st, req, ord, rxMode, r, link, tgts, md) ==
  IF tgts = << >> THEN [st |-> st, md |-> md]
  ELSE LET data0 == SelectData(st, req, ord, rxMode, r, Head(tgts))
           data == IF st.guide # << >> THEN ReorderByLog(link, data0, st.guide, Len(st.ops) + 1) ELSE data0
           res  == EvalVals(st, link, data, 1, md)
       IN EvalTargets(res.st, req, ord, rxMode, r, link, Tail(tgts), res.md)

EvalLink(st, req, ord, rxMode, r, link) ==
  IF ~link.hasOp
    THEN \* SecAction / SecMarker: matches unconditionally, once, with empty match data
         LET d == Datum("", << >>, << >>) IN
         [st |-> RunActs(MatchVariable(st, d), link.acts), md |-> <<d>>]
    ELSE EvalTargets(st, req, ord, rxMode, r, link, link.targets, << >>)

(***************************************************************************)
(* A rule:  [id, phase, marker, links (1..n; links[1] is the starter),     *)
(*           status, sev, log, audit]                                      *)
(* EvalRule = doEvaluate of the starter with its chain.                    *)
(***************************************************************************)
RECURSIVE EvalChain(_, _, _, _, _, _, _)
EvalChain(st, req, ord, rxMode, r, i, md) ==
  IF i > Len(r.links) THEN [st |-> st, md |-> md, ok |-> TRUE]
  ELSE LET res == EvalLink(st, req, ord, rxMode, r, r.links[i]) IN
       IF res.md = << >> THEN [st |-> res.st, md |-> << >>, ok |-> FALSE]
       ELSE EvalChain(res.st, req, ord, rxMode, r, i + 1, md \o res.md)

\* rule messages are TLA+ strings; the ones scenarios use, as bytes
MsgBytes(m) == CASE m = "m1" -> <<109, 49>> [] m = "m3" -> <<109, 51>> [] m = "m5" -> <<109, 53>> [] OTHER -> << >>
EvalRule(st, req, ord, rxMode, r) ==
  LET st0 == [st EXCEPT !.mvars = << >>, !.ops = << >>,   \* MATCHED_VARS restarts with every rule
                        !.ruleMsg = MsgBytes(r.msg)]        \* the RULE collection describes this rule, not an earlier one
      res == EvalChain(st0, req, ord, rxMode, r, 1, << >>)
  IN IF ~res.ok THEN res.st
     ELSE LET st1 == RunFlow(res.st, r, r.links[1].acts)
              st2 == IF r.id # 0
                       THEN [st1 EXCEPT !.fired = Append(@, [id |-> r.id, md |-> res.md]),
                                        !.hsev  = IF r.sev >= 0 /\ r.sev < @ THEN r.sev ELSE @]
                       ELSE st1
          IN st2

(***************************************************************************)
(* One iteration of the phase loop (RuleGroup.Eval), in the order of the   *)
(* code's tests.  Returns [st, branch].                                    *)
(***************************************************************************)
Removed(st, r) ==
  \/ r.id \in st.rmIds
  \/ \E rg \in st.rmRanges : r.id >= rg[1] /\ r.id <= rg[2]
  \/ \E t \in 1..Len(r.tags) : r.tags[t] \in st.rmTags
  \/ (r.msg # "" /\ r.msg \in st.rmMsgs)

AllowStops(st, p) ==
  CASE st.allow = "phase"   -> TRUE
    [] st.allow = "request" -> p \in {1, 2}
    [] st.allow = "all"     -> p # 5       \* the logging phase always runs
    [] OTHER                -> FALSE

Br(st, b) == [st |-> st, branch |-> b]

StepRule(st, req, ord, rxMode, r, p) ==
  CASE st.intr # None /\ p # 5       -> Br(st, "interruptBreak")
    [] r.phase # 0 /\ r.phase # p     -> Br(st, "phaseFiltered")
    [] Removed(st, r)                 -> Br(st, "removed")
    [] st.skipAfter # ""              -> Br(IF r.marker = st.skipAfter THEN [st EXCEPT !.skipAfter = ""] ELSE st,
                                            "pendingMarker")
    [] st.skip > 0                    -> Br([st EXCEPT !.skip = @ - 1], "skipCounter")
    [] AllowStops(st, p)              -> Br(st, "allowBreak")
    [] OTHER                          -> Br(EvalRule(st, req, ord, rxMode, r), "evaluated")

\* residual flow state never crosses a phase boundary, except allow in its documented scope
EndPhase(st, p) ==
  [st EXCEPT !.skip = 0, !.skipAfter = "", !.cache = {},     \* the cache never outlives its phase
             !.allow = IF @ = "phase" \/ (@ = "request" /\ p >= 2) THEN "unset" ELSE @]

RECURSIVE RunRules(_, _, _, _, _, _, _)
RunRules(st, req, ord, rxMode, rules, i, p) ==
  IF i > Len(rules) THEN st
  ELSE RunRules(StepRule(st, req, ord, rxMode, rules[i], p).st, req, ord, rxMode, rules, i + 1, p)

RunPhase(st, req, ord, rxMode, rules, p) == EndPhase(RunRules([st EXCEPT !.phase = p], req, ord, rxMode, rules, 1, p), p)

\* the canonical transaction: phases 1..5; phases 2-4 are not entered after an interruption
RECURSIVE RunTx(_, _, _, _, _, _)
RunTx(st, req, ord, rxMode, rules, p) ==
  IF p > 5 THEN st
  ELSE IF st.engine = "Off" THEN st
  ELSE IF st.intr # None /\ p # 5 THEN RunTx(st, req, ord, rxMode, rules, p + 1)
  ELSE RunTx(RunPhase(st, req, ord, rxMode, rules, p), req, ord, rxMode, rules, p + 1)

(***************************************************************************)
(* Configuration-time exclusions and updates (C17): each directive is a     *)
(* rewriting of the rule list written so far; the meaning of the            *)
(* configuration is the meaning of the rewritten list.                      *)
(*   dir = [d, ids, lo, hi, s, tgts, acts]                                  *)
(*     ids    list of rule ids; lo..hi an inclusive id range (0,0 = none)   *)
(*     s      tag or message                                                *)
(*     tgts   targets to append; a target whose sel.t = "none" only carries *)
(*            exclusions (excl) for the existing targets of its collection  *)
(*     acts   actions to add (a disruptive one replaces the rule's own)     *)
(***************************************************************************)
DirSelectsById(d, r) == r.id # 0 /\ (r.id \in Range(d.ids) \/ (d.hi # 0 /\ r.id >= d.lo /\ r.id <= d.hi))
HasTag(r, t) == \E k \in 1..Len(r.tags) : r.tags[k] = t

IsDisruptive(act) == act.a \in {"deny", "drop", "redirect", "pass", "block", "allow"}

AddExcl(targets, tg) ==      \* exclusions of tg applied to the listed targets of the same collection
  [k \in 1..Len(targets) |-> IF targets[k].col = tg.col THEN [targets[k] EXCEPT !.excl = @ \o tg.excl] ELSE targets[k]]
RECURSIVE UpdTargets(_, _)
UpdTargets(targets, tgts) ==
  IF tgts = << >> THEN targets
  ELSE LET tg == Head(tgts)
           t1 == AddExcl(targets, tg)
           t2 == IF tg.sel.t = "none" THEN t1 ELSE Append(t1, [tg EXCEPT !.excl = << >>])
       IN UpdTargets(t2, Tail(tgts))
UpdRuleTargets(r, tgts) == [r EXCEPT !.links[1].targets = UpdTargets(@, tgts)]
UpdRuleActions(r, acts) ==
  LET hasD == \E k \in 1..Len(acts) : IsDisruptive(acts[k])
      kept == IF hasD THEN SelectSeq(r.links[1].acts, LAMBDA a : ~IsDisruptive(a)) ELSE r.links[1].acts
  IN [r EXCEPT !.links[1].acts = kept \o acts]

ApplyDir(rules, d) ==
  CASE d.d = "SecRuleRemoveById"       -> SelectSeq(rules, LAMBDA r : ~DirSelectsById(d, r))
    [] d.d = "SecRuleRemoveByTag"      -> SelectSeq(rules, LAMBDA r : ~HasTag(r, d.s))
    [] d.d = "SecRuleRemoveByMsg"      -> SelectSeq(rules, LAMBDA r : ~(r.msg # "" /\ r.msg = d.s))
    [] d.d = "SecRuleUpdateTargetById" -> [k \in 1..Len(rules) |-> IF DirSelectsById(d, rules[k]) THEN UpdRuleTargets(rules[k], d.tgts) ELSE rules[k]]
    [] d.d = "SecRuleUpdateTargetByTag" -> [k \in 1..Len(rules) |-> IF HasTag(rules[k], d.s) THEN UpdRuleTargets(rules[k], d.tgts) ELSE rules[k]]
    [] d.d = "SecRuleUpdateActionById" ->
         \* "block" stands for the disruptive action of the default actions (pass when there are none), as in a rule written with it
         LET acts == [j \in 1..Len(d.acts) |-> IF d.acts[j].a = "block" THEN [d.acts[j] EXCEPT !.a = IF d.def = "" THEN "pass" ELSE d.def] ELSE d.acts[j]] IN
         [k \in 1..Len(rules) |-> IF DirSelectsById(d, rules[k]) THEN UpdRuleActions(rules[k], acts) ELSE rules[k]]
    [] OTHER -> rules
\* an update that names rules by id none of which exists (any more) at that point of the configuration: whether
\* that is an error or a no-op is left open (Choice_UpdateOfMissingRule: the code refuses the configuration)
DirMisses(rules, d) == d.d \in {"SecRuleUpdateTargetById", "SecRuleUpdateActionById"} /\ \A k \in 1..Len(rules) : ~DirSelectsById(d, rules[k])
RECURSIVE DirsMayBeRefused(_, _)
DirsMayBeRefused(rules, dirs) == dirs # << >> /\ (DirMisses(rules, Head(dirs)) \/ DirsMayBeRefused(ApplyDir(rules, Head(dirs)), Tail(dirs)))
RECURSIVE ApplyDirs(_, _)
ApplyDirs(rules, dirs) == IF dirs = << >> THEN rules ELSE ApplyDirs(ApplyDir(rules, Head(dirs)), Tail(dirs))

(***************************************************************************)
(* What an observer of the public API sees (the projection both            *)
(* conformance directions use).                                            *)
(***************************************************************************)
Outcome(st) ==
  [ fired  |-> [i \in 1..Len(st.fired) |-> st.fired[i].id],
    md     |-> [i \in 1..Len(st.fired) |-> st.fired[i].md],
    intr   |-> st.intr,
    detIntr |-> st.detIntr,
    tx     |-> st.tx,
    hsev   |-> st.hsev ]

=============================================================================
