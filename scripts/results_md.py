#!/usr/bin/env python3
"""Folds the outputs of scripts/verify_seed.sh (/tmp/svout/<seed>.json) and scripts/check_seed.sh
(/tmp/csres/<seed>.<PROP>.txt) into seeded/<seed>/meta.json and writes seeded/RESULTS.md."""
import glob, json, os, re, sys

ROOT = os.path.dirname(os.path.dirname(os.path.abspath(__file__)))
SV = sys.argv[1] if len(sys.argv) > 1 else "/tmp/svout"
CS = sys.argv[2] if len(sys.argv) > 2 else "/tmp/csres"

rows = []
for sd in sorted(glob.glob(os.path.join(ROOT, "seeded", "C*-*"))):
    seed = os.path.basename(sd)
    mp = os.path.join(sd, "meta.json")
    meta = json.load(open(mp))
    svp = os.path.join(SV, seed + ".json")
    if os.path.exists(svp):
        try:
            v = json.load(open(svp))
            meta["confirmed_by_me"] = {
                "repo_head": v.get("repo_head"), "applies": v.get("applies"), "compiles": v.get("compiles"),
                "existing_suite_passes_with_change": v.get("suite_passes"), "crs_suite_passes_with_change": v.get("crs_passes"),
                "demo_fails_with_change": v.get("demo_with_change") == "fail", "demo_passes_without_change": v.get("demo_without_change") == "pass",
                "how": "scripts/verify_seed.sh in a scratch worktree of /repo at that commit (removed afterwards)"}
        except Exception as e:
            print("bad", svp, e)
    checks = {}  # rebuilt from the run directory given (a matrix run at one HEAD), not accumulated
    for f in glob.glob(os.path.join(CS, seed + ".*.txt")):
        prop = os.path.basename(f).split(".")[1]
        lines = [l for l in open(f).read().splitlines() if l.startswith(seed + " ")]
        if not lines:
            continue
        l = lines[-1]
        m = re.match(r"\S+ \S+ (DETECTED|MISSED|INCONCLUSIVE|ERROR)(.*)", l)
        if m:
            sig = re.search(r"sig=(\S+?):? ", l)
            checks[prop] = {"result": m.group(1), "signature": sig.group(1).rstrip(":") if sig else "", "line": l[:400]}
    # verdicts of this run replace the earlier ones per property; properties not re-run keep theirs
    merged = dict(meta.get("checks", {}))
    merged.update(checks)
    checks = merged
    if checks:
        meta["checks"] = checks
    json.dump(meta, open(mp, "w"), indent=1)
    c = meta.get("confirmed_by_me", {})
    valid = c.get("applies") and c.get("compiles") and c.get("existing_suite_passes_with_change") and c.get("demo_fails_with_change") and c.get("demo_passes_without_change")
    state = "valid" if valid else ("neutralised (demo passes with the change at this HEAD)" if c.get("applies") and c.get("compiles") and not c.get("demo_fails_with_change") else
                                   ("does not apply" if not c.get("applies") else "unconfirmed"))
    if c.get("applies") and c.get("compiles") and not c.get("existing_suite_passes_with_change") and c.get("demo_fails_with_change"):
        state = "suite run failed (see notes)"
    det = ", ".join(f"{p}: {r['result']}" + (f" `{r['signature']}`" if r["result"] == "DETECTED" and r.get("signature") else "") for p, r in sorted(checks.items()))
    rows.append((seed, meta.get("property", seed[:3]), state, c.get("repo_head", ""), det, meta.get("summary", "")[:160].replace("|", "/").replace("\n", " ")))

with open(os.path.join(ROOT, "seeded", "RESULTS.md"), "w") as f:
    f.write("# Seeded changes: confirmation at the current /repo HEAD and which check catches which\n\n")
    f.write("Produced by `scripts/results_md.py` from `scripts/verify_seed.sh` / `scripts/check_seed.sh` runs (scratch worktrees; /repo untouched).\n")
    f.write("`valid` = applies, compiles, existing suites pass, demonstration fails with the change and passes without it.\n\n")
    f.write("| seed | property | state (HEAD) | checks run against it | change |\n|---|---|---|---|---|\n")
    for r in rows:
        f.write(f"| {r[0]} | {r[1]} | {r[2]} ({r[3]}) | {r[4]} | {r[5]} |\n")
print("seeds:", len(rows))
