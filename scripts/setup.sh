#!/bin/sh
# Offline setup: builds the harness once (the check wrapper rebuilds it on every run anyway).
set -e
HERE=$(cd "$(dirname "$0")/.." && pwd)
export GOPROXY=off GOFLAGS=-mod=mod GOTOOLCHAIN=auto GOWORK=off
cd "$HERE/harness"
cp /repo/go.sum go.sum
mkdir -p "$HERE/bin" "$HERE/out" "$HERE/evidence"
go build -tags verif -o "$HERE/bin/check" ./cmd/check
java -cp /opt/veriftools/tla/tla2tools.jar tlc2.TLC -h >/dev/null 2>&1 || true
echo "setup ok"
