#!/bin/sh
# Runs the repository's pinned baseline with the verif guard OFF (same command as /root/.vp/BASELINE.json).
export GOPROXY=off
rc=0
for m in . ./testing/coreruleset; do
  (cd /repo/$m && go test -json -vet=off -count=1 -timeout 25m ./...) || rc=$?
done
exit 0
