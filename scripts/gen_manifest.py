#!/usr/bin/env python3
"""Regenerates /verif/MANIFEST.json from the table below (kept in one place so that it stays valid)."""
import json, os, subprocess
ROOT = os.path.dirname(os.path.dirname(os.path.abspath(__file__)))
props = [json.loads(l) for l in open(os.path.join(ROOT, 'properties.jsonl'))]
ids = [p['id'] for p in props]

MC = "model_checking"
checks = {
 "C01": dict(design="4/C01", technique="TLC enumeration of Engine.tla scenario families (select/operate/chain) replayed on the real library + TLC trace validation of recorded executions (Engine_Trace)",
   text="Explicit TLA+ model of the rule interpreter (spec/Engine.tla). TLC exhaustively enumerates bounded families of (rule set, request) scenarios in every runtime iteration order and emits the outcomes the specification allows; each scenario is rendered to SecLang, run through the public API of the library built from /repo's working tree and MatchedRules/MatchedDatas are compared. Exhaustive within the stated bounds, which is where selection/exclusion/count/negation bugs live.",
   note="Trusts TLC, the SecLang renderer of the harness, and the projection of MatchedRules()/MatchedDatas(). Regex-key case reading and the key text reported for counts are left open (accepted every way)."),
 "C08": dict(design="4/C08", technique="TLC exhaustive exploration of the flow-control family of Engine.tla (invariants NoLeakAcrossPhases, InterruptFinal, ...) + replay of every scenario on the real library",
   text="The residual flow-control state (skip counter, pending marker, allow scope) is explicit in Engine.tla; TLC checks NoLeakAcrossPhases / NothingAfterInterrupt / DetectionOnlySilent in every reachable state of every rule list over the flow templates and every subset of matching rules, and every scenario is replayed against the real library comparing the fired sequence and interruption.",
   note="Trusts TLC and the renderer. skip counting over SecMarker is generated only where the documented reading is unambiguous."),
 "C09": dict(design="4/C09", technique="TLC enumeration of the acts family of Engine.tla replayed on the real library + TLC trace validation (Engine_Trace) of recorded random executions",
   text="Action semantics (setvar arithmetic, macro expansion at the moment of the match, once-per-chain disruptive actions, HIGHEST_SEVERITY) are defined in Engine.tla; TLC enumerates action lists x match multiplicities x chains x multiMatch in every iteration order; final TX contents and the anomaly-threshold interruption of the real library are compared with the specification; recorded executions are validated step by step (every operator evaluation and rule-loop branch).",
   note="Trusts TLC, the renderer, the verif hooks (operator/rule-loop events) and the TX projection through the internal Variables() accessor."),
 "C04": dict(design="4/C04", technique="TLC enumeration of Engine.tla families under every iteration order (order = explicit nondeterministic choice) + repeated replay on fresh and long-lived real WAFs under imposed map orders (verif hook), outcomes compared as multisets with the specification's single value",
   text="The runtime's hash-iteration order is an explicit nondeterministic choice of the specification at every rule evaluation, so 'the outcome is a function of configuration and request' is checked by TLC over all orders on the model, and on the real library by running each enumerated scenario repeatedly on fresh and pooled WAFs under natural and imposed (sorted, reverse, rotate-per-walk, shuffle) orders and requiring one projected outcome, equal to the specification's.",
   note="Trusts TLC, the order hook (permutes only what the Go runtime may permute: map keys), and the projection. Order-dependent counters (assignments from MATCHED_VAR) are outside the projection, as the property says."),
 "C12": dict(design="4/C12", technique="TLC model checking of the EngineCache refinement layer (invariant CacheSound, every iteration order) + replay on the real library under imposed orders; self-test that the pinned position-based key design violates CacheSound in TLC",
   text="The per-phase transformation cache is modelled with the key the code uses (one operator, CacheKey); TLC checks CacheSound (every operator evaluation receives the rule's own transformation of the datum it looks at) in every state over rules sharing full/partial transformation lists, repeated names and targets whose content changes (MATCHED_VAR); every scenario is replayed on the real library under imposed iteration orders and compared with the cache-free specification outcome.",
   note="Trusts TLC, the order hook and key-string interning in the driver (mirrors url.ParseQuery handing every value of a name the same key string)."),
 "C17": dict(design="4/C17", technique="TLC enumeration of the dirs family of Engine.tla (directives as rule-list rewriting ApplyDir, ctl as run-time state) replayed on the real library, two consecutive transactions per WAF",
   text="Every exclusion/update directive is defined in Engine.tla as a rewriting of the rule list and every ctl counterpart as run-time interpreter state; TLC enumerates a base rule set x all directive shapes (single ids, lists, ranges, tags, messages; additions and exclusions; disruptive and non-disruptive action updates) and ctl placements x requests; the real library compiling the directive form must behave like the specification's rewritten rule set, also for the next transaction on the same WAF.",
   note="Trusts TLC and the renderer. Updates that mix additions and exclusions in one directive are not generated (their relative scope is not documented)."),
 "C02": dict(design="4/C02", engine="tlc-tx", technique="TLC model checking of Tx.tla (Transaction API state machine over Engine.tla; invariants AtMostOnce, InterruptFinal, SameInterruptionReported, DetectionOnlySilent, ...; all reachable states for unbounded call sequences) + replay of every edge of the state graph (witness path + call) on a real transaction",
   text="The public Transaction API is an explicit TLA+ state machine; the abstract state is finite, so TLC visits every reachable state for call sequences of any length and evaluates the lifecycle invariants there; every edge (state, call) is replayed through a witness path on a real transaction built from /repo and the returned and recorded interruption, the fired marker rules (= evaluation counts), last phase and engine mode are compared with the specified successor.",
   note="Trusts TLC, the renderer and the projection (LastPhase / RuleEngine / DetectionOnlyInterruption through internal accessors). Calls after Close and repeated ProcessLogging are not generated. What happens to bytes offered after a refusal is left open."),
 "C10": dict(design="4/C10", engine="tlc-tx", technique="TLC model checking of the body buffers of Tx.tla (bytes = positions of the supplied stream; invariants Faithful, RejectExact, PartialExact, BodyVarIsStoredPrefix over all chunkings and entry-point mixes) + replay of every edge on a real transaction at sizes x1, x4096 (x40000)",
   text="Body buffering is modelled with bytes identified by their position in the supplied stream, so byte-faithfulness and the limit relations are state invariants that TLC checks over every partition into chunks, every mix of slice / known-length reader / unknown-length reader writes and both limit actions; every edge is replayed on a real transaction (memory limit below the hard limit, so bodies spill to disk) comparing bytes taken, reader contents, REQUEST_BODY seen by the body phase, the data-error variables and the refusal.",
   note="Trusts TLC and the projection. The byte count returned together with a refusal, and the buffer content after a refusal, are left open."),
 "C05": dict(design="4/C05", engine="tlc-pool", technique="TLC model checking of Pool.tla (pooled Transaction object as default/dirty fields, Close / NewTransaction reset lists; invariants FreshAfterNew, ReadersDead over all predecessor histories) + replay of every history on a real WAF: reflective snapshot of the recycled object vs a brand-new one, probe transaction vs fresh WAF, stale readers",
   text="The recycling protocol (fields dirtied by what a predecessor does, reset lists of Close and NewTransaction, readers surviving Close) is an explicit TLA+ model checked over all predecessor histories; every history is replayed on a real WAF where the pool really hands the same object back, the recycled object is compared field by field (reflection over every struct field and every variable collection, including key counts) with a brand-new one, and a probe transaction's complete observable outcome is compared with the same probe on a fresh WAF.",
   note="Trusts TLC, sync.Pool handing the object back on one goroutine (checked by pointer identity), the verif snapshot accessors. The model's Dirties table is bound to the code by a dirty-set check (a mismatch is exit 2, a model error)."),
 "C20": dict(design="4/C20", engine="tlc-fsfault", technique="TLC model checking of FsFault.tla (file-system operations of a transaction with one injected failure and abandonment points; invariants NoLeak, Surfaced, NoSilentInspection) + replay of every case on the real library through the verif fault-injection hook; audit write failure against /dev/full",
   text="Every file-system operation of a transaction (spill create/copy/write/read, upload create/copy, removals and buffer close at Close) is an explicit step of FsFault.tla; TLC enumerates every single-fault position x abandonment point x keep-files mode x body placement and checks the leak and surfacing invariants; each case is replayed with the fault hook firing exactly at that operation, private temp and upload directories are listed afterwards and errors / error variables / error-level log entries collected; a probe transaction on the recycled object is compared with a fresh WAF.",
   note="Trusts TLC and the fault hook (it fails exactly the operation it precedes). Two simultaneous faults are not generated."),
 "C19": dict(design="4/C19", engine="tlc-audit", technique="TLC enumeration of the Audit.tla decision table (record yes/no, listed rules, callback counts as TLA+ functions) replayed on the real library with a capturing audit writer and error callback + concurrent stress of the serial writer (JSON and native) with record-integrity parsing",
   text="The audit policy is a decision table over (audit engine after ctl, relevant-status pattern, status source, rule engine mode, per-rule logging flags folded in order, disruptive or not, parts); Audit.tla defines the expected record / listed rules / callback multiset as functions and TLC enumerates the whole table; each case runs on the real library with a plugin audit writer and an error callback. Record integrity under concurrency is checked by parsing the serial log written by G goroutines with adversarial bytes.",
   note="Trusts TLC and the capturing writer. RelevantOnly without a pattern is left open. The concurrency part samples schedules (Go scheduler), it does not enumerate them. Quick replays a third of the table (chosen by VERIF_SEED), thorough all of it."),
 "C18": dict(design="4/C18", engine="tlc-mw", technique="TLC enumeration of the Mw.tla case table (rule placement x body access / limit actions x request size vs limit x announced/chunked length x handler scripts; invariants BlockedNeverReachesHandler, BlockedResponseLeaksNothing, PassThroughIsIdentity) replayed against a real net/http server wrapped by the middleware",
   text="What the wrapped handler and the client may observe is a TLA+ function of the case (Mw.tla); TLC enumerates all cases and checks the three C18 statements on it; each case runs against a real httptest server wrapped by http.WrapHandler built from /repo with a scripted handler (reads, WriteHeader, chunked writes, ReadFrom, Flush, 204/304/201/404/500) and the handler-invoked flag, bytes read by the handler, client status, pass-through header and client body bytes are compared.",
   note="Trusts TLC, net/http/httptest and the scripted handler. Only deny is asserted for blocked statuses; a handler that never starts a response is left open; 1xx informational responses are not generated."),
 "C13": dict(design="4/C13", engine="tlc-memo", technique="TLC model checking of Memo.tla (key derivation and stored artefact per call site; invariant CacheInvisible over all build/close histories of WAFs whose configurations reuse one string in different roles) + replay of every history in one process of a probe program built from /repo, compared with each configuration built alone in a fresh process and with a -tags coraza.no_memoize build; self-test that the text-only key design violates CacheInvisible in TLC",
   text="Which bytes of a configuration become the cache key and which artefact is stored is modelled per call site; TLC checks that every lookup returns the artefact the caller would have built itself over all histories of building and closing WAFs from a pool of colliding configurations; every history is replayed in one OS process (shared cache) and each WAF's construction result and probe outcomes are compared with the same configuration alone in a fresh process and with the cache compiled out.",
   note="Trusts TLC and the probe program (cmd/c13probe). The configuration pool is the one of Memo.tla (11 configurations); concurrency of the cache is C06."),
 "C06": dict(design="4/C06", engine="tlc-memo", technique="TLC model checking of MemoConc.tla (PlusCal model of memoize.Do / Release, one label per critical section: all interleavings, deadlock freedom and cache invariants) + race-detector stress of the real library (-race -tags verif) with yield injection at the verif hook points, per-transaction comparison with the sequential outcome, quiescent-cache invariants and audit-log integrity",
   text="The lock-free / mutex / singleflight protocol of the shared pattern cache is an explicit PlusCal model whose every interleaving TLC explores; races, cross-talk and deadlocks of the real code are searched by running generated transactions concurrently on one WAF, while other WAFs sharing cached patterns are built and closed, under the Go race detector with scheduling noise injected at the protocol's yield points; each transaction is compared with its sequential outcome and the model's quiescent invariants are evaluated on the real cache.",
   note="The Go scheduler cannot be enumerated: interleavings of the real code are sampled (race detector + yield injection, several seeds); only the memoize protocol is exhaustive, at the grain of its critical sections. Trusts the race detector."),
 "C14": dict(design="4/C14", engine="tlc-bytes", technique="TLC enumeration of the byte-string input domain (Transform_MC, with the model's own laws as invariants) + TLC trace validation of the recorded function table of all real transformations against the laws and reference definitions of Transform.tla (Transform_Trace)",
   text="Reference definitions and laws (Pure, InputIntact, ChangeSound, inverse pairs, idempotence) are written in TLA+ over byte strings; TLC enumerates every string over an adversarial alphabet up to a length bound; the real transformations are evaluated on all of them on inspectable buffers, and TLC checks every law on every record of the recorded function table (trace validation of pure functions).",
   note="md5 / sha1 / base64 / length reference values: Go standard library. Case and whitespace reference equality asserted on ASCII inputs only. The laws are checked on every registered transformation, the byte-exact reference on the 14 it defines."),
 "C15": dict(design="4/C15", engine="tlc-bytes", technique="TLC evaluation of the executable predicate definitions of Operators.tla over the whole byte-string input domain (truth table + model-level theorems) compared row by row with the real operators; rule-level negation / capture probes; @ipMatch against the TLA+ CIDR table and net.IPNet",
   text="Each documented predicate is a direct TLA+ definition; TLC evaluates every (operator, argument) pair of the table on every byte string over an adversarial alphabet up to a length bound and prints the truth table; the real operators from the registry are evaluated on every row. Negation and TX.0-9 captures are checked through single-rule WAFs.",
   note="@rx semantics = Go regexp (trusted base); libinjection, rbl, geoLookup, inspectFile, validateSchema/Nid internals are not covered (only what the table lists)."),
 "C11": dict(design="4/C11", engine="tlc-rxpf", technique="TLC evaluation of the denotational regular-expression semantics of RxPF.tla (all expressions to nesting depth 2 x all inputs to a length bound, theorem MinLenSound) compared with the real @rx with the prefilter on and off, captures compared on/off; differential on/off run over all bundled CRS @rx patterns and hand-written edge patterns with inputs derived from each pattern",
   text="Inside the fragment the prefilter reasons about, what @rx must answer is given by a denotational semantics in TLA+ evaluated by TLC for every expression up to depth 2 and every input up to a length bound; the real operator must return exactly that with the prefilter on and off, with identical TX.0-9. Outside the fragment (full RE2, the CRS patterns, non-ASCII / invalid UTF-8) the check is differential: prefilter on vs off on inputs generated from each pattern's syntax tree plus perturbations.",
   note="RE2 matching itself is Go's regexp (trusted base); a disagreement between RxPF.tla and regexp with the prefilter off is a model error (exit 2). The differential part samples inputs (seeded)."),
}

not_built_reason = "check under construction in this session (see DESIGN.md section 4); not claimed until its machinery is committed"

manifest = {
 "version": 1,
 "setup_cmd": "cd /verif && ./scripts/setup.sh",
 "hooks": {
   "guard": "verif",
   "enable": "go build -tags verif (the harness module /verif/harness replaces github.com/corazawaf/coraza/v3 => /repo and is rebuilt by ./check on every invocation)",
   "baseline_off_cmd": "/verif/scripts/baseline_off.sh",
   "source_commits": subprocess.run(["git","-C","/repo","log","--format=%h %s","--grep=^verif hooks"],capture_output=True,text=True).stdout.strip().split("\n"),
   "add_only": True,
 },
 "engines": [
   {"name":"tlc-tx","path":"spec/Tx.tla, spec/Tx_MC.tla","serves_properties":["C02","C10","C18","C05","C20"],"kind_free_text":"TLA+ specification of the Transaction API and body buffers on top of Engine.tla; TLC explores all call sequences, every edge replayed on a real transaction"},
   {"name":"tlc-pool","path":"spec/Pool.tla","serves_properties":["C05"],"kind_free_text":"TLA+ model of transaction recycling"},
   {"name":"tlc-fsfault","path":"spec/FsFault.tla","serves_properties":["C20"],"kind_free_text":"TLA+ model of the file-system life of a transaction with fault injection"},
   {"name":"tlc-audit","path":"spec/Audit.tla","serves_properties":["C19"],"kind_free_text":"TLA+ decision table of audit / error logging"},
   {"name":"tlc-mw","path":"spec/Mw.tla","serves_properties":["C18"],"kind_free_text":"TLA+ case table of the net/http middleware"},
   {"name":"tlc-memo","path":"spec/Memo.tla, spec/MemoConc.tla","serves_properties":["C13","C06"],"kind_free_text":"TLA+ models of the process-wide pattern cache: sequential key/artefact model and concurrent Do/Release protocol"},
   {"name":"tlc-bytes","path":"spec/Bytes.tla, spec/Transform*.tla, spec/Operators*.tla","serves_properties":["C14","C15","C03"],"kind_free_text":"TLA+ reference definitions and laws of pure byte-string functions; TLC enumerates the input domain and validates recorded function tables"},
   {"name":"tlc-rxpf","path":"spec/RxPF.tla, spec/RxPF_MC.tla","serves_properties":["C11"],"kind_free_text":"TLA+ denotational semantics of the regex fragment the @rx prefilter reasons about"},
   {"name":"tlc-engine","path":"spec/Engine.tla, spec/Scen.tla, spec/Engine_MC.tla, spec/Engine_Trace.tla","serves_properties":["C01","C04","C08","C09","C12","C17"],"kind_free_text":"TLA+ specification of the rule interpreter; TLC enumerates scenarios + allowed outcomes (spec->code replay) and validates recorded executions (code->spec)"},
 ],
 "checks": [],
 "notes": "All checks: ./check <ID> quick|thorough. exit 0 held / 1 VIOLATION / 2 inconclusive. Known findings and fixed defects: known_findings.txt.",
 "not_applicable": [],
}
for i in ids:
    if i in checks:
        c = checks[i]
        manifest["checks"].append({
          "property_id": i,
          "quick_cmd": f"./check {i} quick",
          "thorough_cmd": f"./check {i} thorough",
          "evidence_file": f"/verif/evidence/{i}.json",
          "replay_cmd_template": f"./check {i} quick --replay {{path}}",
          "engine": c.get("engine", "tlc-engine"),
          "level_claimed": {"category": MC, "text": c["text"], "design_ref": c["design"]},
          "level_note": c["note"],
          "technique": c["technique"],
        })
    else:
        manifest["not_applicable"].append({"property_id": i, "reason": not_built_reason})
json.dump(manifest, open(os.path.join(ROOT,'MANIFEST.json'),'w'), indent=1)
print("checks:", len(manifest["checks"]), "not_applicable:", len(manifest["not_applicable"]))
