#!/bin/bash
# usage: verify_seed.sh <seed dir (with patch.diff, meta.json, demo*)> <out json>
# Confirms in a scratch worktree of /repo (current HEAD) that the seeded change applies, compiles,
# passes the existing suites, and that its demonstration fails with it and passes without it.
set -u
SD=$1; OUT=$2
export GOPROXY=off
NAME=$(basename $(dirname $(dirname $SD)))-$(basename $SD)
WT=/tmp/sv/$NAME
rm -rf $WT; git -C /repo worktree prune; git -C /repo worktree add --detach $WT HEAD >/dev/null 2>&1 || { echo "{\"seed\":\"$NAME\",\"error\":\"worktree\"}" > $OUT; exit 0; }
cd $WT
applies=false; compiles=false; suite=false; crs=false; demo_with=unknown; demo_without=unknown
if git apply $SD/patch.diff >/dev/null 2>&1 || git apply --3way $SD/patch.diff >/dev/null 2>&1; then applies=true; fi
copy_to=$(python3 -c "import json;print(json.load(open('$SD/meta.json'))['demo']['copy_to'])" 2>/dev/null || echo .)
cmd=$(python3 -c "import json;print(json.load(open('$SD/meta.json'))['demo']['cmd'])" 2>/dev/null)
[ -z "$copy_to" ] && copy_to=.
if $applies; then
  git diff > /tmp/sv/$NAME.applied.diff
  if go build ./... >/dev/null 2>&1 && go vet ./internal/corazawaf >/dev/null 2>&1; then compiles=true; fi
  if $compiles; then
    fails=$(go test -vet=off -count=1 ./... 2>&1 | grep -E "^(--- FAIL|FAIL|panic)" | grep -v "TestConcurrentWriterFailsOnInit\|TestSerialWriterFailsOnInitForUnexistingFile\|^FAIL$\|internal/auditlog" )
    if [ -z "$fails" ]; then suite=true; else echo "$fails" > /tmp/sv/$NAME.suite.txt; fi
    if (cd testing/coreruleset && go test -vet=off -count=1 ./... >/dev/null 2>&1) || (cd testing/coreruleset && go test -vet=off -count=1 ./... >/dev/null 2>&1); then crs=true; fi
    for f in $SD/demo*_test.go; do [ -f "$f" ] && cp $f $copy_to/zz_$(basename $f); done
    if (cd $WT && eval "$cmd" >/tmp/sv/$NAME.demo_with.txt 2>&1); then demo_with=pass; else demo_with=fail; fi
    git reset -q --hard HEAD >/dev/null 2>&1
    if (cd $WT && eval "$cmd" >/tmp/sv/$NAME.demo_without.txt 2>&1); then demo_without=pass; else demo_without=fail; fi
  fi
fi
echo "{\"seed\":\"$NAME\",\"applies\":$applies,\"compiles\":$compiles,\"suite_passes\":$suite,\"crs_passes\":$crs,\"demo_with_change\":\"$demo_with\",\"demo_without_change\":\"$demo_without\",\"repo_head\":\"$(git -C /repo log --format=%h -1)\"}" > $OUT
cd /; git -C /repo worktree remove --force $WT >/dev/null 2>&1; rm -rf $WT
