#!/bin/bash
# usage: check_seed.sh <seed-name e.g. C08-2> <PROPERTY> [quick|thorough]
# Runs one check of /verif against a scratch worktree of /repo with the seeded change applied
# (so several seeds can be tried in parallel without touching /repo). Prints DETECTED / MISSED.
set -u
SEED=$1; PROP=$2; TIER=${3:-quick}
SD=/verif/seeded/$SEED
D=/tmp/cs/$SEED.$PROP; WT=$D/repo; H=$D/harness; VR=$D/verif
rm -rf $D; mkdir -p $D
git -C /repo worktree prune
git -C /repo worktree add --detach $WT HEAD >/dev/null 2>&1 || { echo "$SEED $PROP ERROR worktree"; exit 2; }
if ! (cd $WT && (git apply $SD/patch.diff 2>/dev/null || git apply --3way $SD/patch.diff 2>/dev/null)); then
  echo "$SEED $PROP ERROR patch does not apply"; git -C /repo worktree remove --force $WT; exit 2
fi
mkdir -p $VR/out $VR/evidence $VR/bin
cp -r /verif/harness $H
ln -s /verif/spec $VR/spec; cp /verif/known_findings.txt $VR/; cp /verif/properties.jsonl $VR/
sed -i "s|=> /repo|=> $WT|" $H/go.mod
cp $WT/go.sum $H/go.sum
export GOPROXY=off GOFLAGS=-mod=mod GOWORK=off VERIF_ROOT=$VR VERIF_HARNESS=$H
if ! (cd $H && go build -tags verif -o $VR/bin/check ./cmd/check 2>$VR/out/build.err); then
  echo "$SEED $PROP DETECTED (harness does not build against the change)"; cat $VR/out/build.err | head -5
else
  (cd $VR && timeout 3600 $VR/bin/check $PROP $TIER > $VR/out/stdout.txt 2> $VR/out/stderr.txt); rc=$?
  if [ $rc -eq 1 ]; then echo "$SEED $PROP DETECTED rc=1 $(grep -a -c VIOLATION $VR/out/stdout.txt) violation(s): $(grep -a -m1 'violation sig=' $VR/out/stderr.txt | cut -c1-300)";
  elif [ $rc -eq 0 ]; then echo "$SEED $PROP MISSED rc=0";
  else echo "$SEED $PROP INCONCLUSIVE rc=$rc $(grep -a -m1 INCONCLUSIVE $VR/out/stderr.txt | cut -c1-300)"; fi
fi
mkdir -p /tmp/csout; cp $VR/out/stderr.txt /tmp/csout/$SEED.$PROP.stderr.txt 2>/dev/null
[ -n "${KEEP:-}" ] || { git -C /repo worktree remove --force $WT >/dev/null 2>&1; rm -rf $D; }
