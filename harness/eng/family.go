package eng

import (
	coraza "github.com/corazawaf/coraza/v3"

	"encoding/json"
	"fmt"
	"runtime"
	"sort"
	"strings"
	"sync"
	"time"

	"github.com/corazawaf/coraza/v3/verifharness/vf"
)

// Group is one scenario with every outcome the specification allows for it.
type Group struct {
	Scen      Scen
	Text      string
	MayRefuse bool               // the configuration may be refused at construction (left open by the specification)
	Allowed   map[string]Outcome // Outcome.Key -> outcome
}

// FamilyOpts describes one enumerated family.
type FamilyOpts struct {
	Name     string // family name (for logs and signatures)
	CfgText  string // TLC cfg for Engine_MC
	Module   string // default Engine_MC
	Proj     ProjOpts
	Timeout  time.Duration
	Workers  int
	Simulate string
	Depth    int
	// Check, if set, replaces the default "observed outcome is one of the allowed ones" comparison.
	Check func(g *Group, obs *Observed) (kind string, detail string)
	// Runs is how many times each scenario is driven (default 1).
	Runs int
	// SameWAF: the runs of a scenario share one compiled WAF (consecutive transactions)
	SameWAF bool
	// RunOpts lets a family install hooks per run index.
	RunOptsFor func(g *Group, run int) RunOpts
	// After is called with every group and its observations (for cross-run checks).
	After      func(g *Group, obs []Observed) (kind string, detail string)
	Invariants []string
	// OrderModes: the whole family is replayed once per mode (see order.go); empty = natural only.
	OrderModes []string
	// Slices > 1 runs that many TLC processes in parallel, each on one slice of the family
	// (the cfg text must contain the placeholders %SLICE% and %SLICES%).
	Slices int
}

// Collect runs TLC and groups the emitted cases by scenario.
func Collect(run *vf.Run, fo FamilyOpts) (map[string]*Group, *vf.TLCResult, error) {
	groups := map[string]*Group{}
	var mu sync.Mutex
	var decodeErr error
	mod := fo.Module
	if mod == "" {
		mod = "Engine_MC"
	}
	slices := fo.Slices
	if slices <= 0 {
		slices = 1
	}
	onOut := func(raw json.RawMessage) {
		var c Case
		if err := json.Unmarshal(raw, &c); err != nil {
			mu.Lock()
			if decodeErr == nil {
				decodeErr = fmt.Errorf("decoding TLC case: %v in %.300s", err, string(raw))
			}
			mu.Unlock()
			return
		}
		text := Render(&c.Scen)
		rq, _ := json.Marshal(c.Scen.Req)
		key := text + "\x00" + string(rq)
		mu.Lock()
		g := groups[key]
		if g == nil {
			g = &Group{Scen: c.Scen, Text: text, Allowed: map[string]Outcome{}, MayRefuse: c.MayRefuse}
			groups[key] = g
		}
		g.Allowed[c.Out.Key(ProjFor(&c.Scen, fo.Proj))] = c.Out
		mu.Unlock()
	}
	results := make([]*vf.TLCResult, slices)
	errs := make([]error, slices)
	var wg sync.WaitGroup
	for sl := 0; sl < slices; sl++ {
		wg.Add(1)
		go func(sl int) {
			defer wg.Done()
			cfg := strings.ReplaceAll(strings.ReplaceAll(fo.CfgText, "%SLICE%", fmt.Sprint(sl)), "%SLICES%", fmt.Sprint(slices))
			results[sl], errs[sl] = vf.RunTLC(vf.TLCOpts{
				Module: mod, CfgText: cfg, Workers: fo.Workers, Timeout: fo.Timeout,
				Simulate: fo.Simulate, Depth: fo.Depth, Seed: run.Seed + int64(sl), OnOut: onOut,
				HeapMB: 8192 / slices * 2,
			})
		}(sl)
	}
	wg.Wait()
	res := &vf.TLCResult{}
	for sl := 0; sl < slices; sl++ {
		if errs[sl] != nil {
			return nil, nil, errs[sl]
		}
		r := results[sl]
		res.Generated += r.Generated
		res.Distinct += r.Distinct
		res.OutCount += r.OutCount
		if r.Depth > res.Depth {
			res.Depth = r.Depth
		}
		if r.WallS > res.WallS {
			res.WallS = r.WallS
		}
		if r.ExitCode != 0 && res.ExitCode == 0 {
			res.ExitCode = r.ExitCode
			res.Tail = r.Tail
		}
		res.TimedOut = res.TimedOut || r.TimedOut
		res.PostFailed = res.PostFailed || r.PostFailed
		if r.Violated != "" && res.Violated == "" {
			res.Violated = r.Violated
			res.ErrorText = r.ErrorText
		}
	}
	if decodeErr != nil {
		return nil, res, decodeErr
	}
	return groups, res, nil
}

type failure struct {
	kind   string
	detail string
	g      *Group
	obs    Observed
	feats  []string
	size   int
}

// ReplayFamily = TLC enumeration + replay of every scenario on the real library.
// Returns the number of scenarios replayed.
func ReplayFamily(run *vf.Run, fo FamilyOpts) int {
	run.Logf("family %s: running TLC", fo.Name)
	groups, res, err := Collect(run, fo)
	if err != nil {
		run.Inconclusive("family %s: TLC: %v", fo.Name, err)
		return 0
	}
	run.AddTLC(res)
	run.Logf("family %s: TLC %s; %d scenarios", fo.Name, res.Describe(), len(groups))
	if res.Violated != "" {
		// a design-level invariant failed on the specification itself: that is a defect of the
		// model (or of the documented design), never by itself a violation of the implementation
		run.Inconclusive("family %s: specification invariant %s violated in TLC:\n%s", fo.Name, res.Violated, res.ErrorText)
		return 0
	}
	if !res.OK() {
		run.Inconclusive("family %s: TLC did not complete: %s\n%s", fo.Name, res.Describe(), strings.Join(res.Tail, "\n"))
		return 0
	}
	if len(groups) == 0 {
		run.Inconclusive("family %s: TLC emitted no scenario", fo.Name)
		return 0
	}
	keys := make([]string, 0, len(groups))
	for k := range groups {
		keys = append(keys, k)
	}
	sort.Strings(keys)
	runs := fo.Runs
	if runs <= 0 {
		runs = 1
	}
	var mu sync.Mutex
	var fails []failure
	modes := fo.OrderModes
	if len(modes) == 0 {
		modes = []string{"natural"}
	}
	for mi, mode := range modes {
		SetOrderMode(mode, run.Seed)
		var wg sync.WaitGroup
		sem := make(chan struct{}, runtime.NumCPU())
		for idx, k := range keys {
			g := groups[k]
			wg.Add(1)
			sem <- struct{}{}
			go func(idx int, g *Group) {
				defer wg.Done()
				defer func() { <-sem }()
				var all []Observed
				var shared coraza.WAF
				if fo.SameWAF {
					if w, err, p := Compile(g.Text); err == nil && p == "" {
						shared = w
						defer closeWAF(w)
					}
				}
				for ri := 0; ri < runs; ri++ {
					var ro RunOpts
					if fo.RunOptsFor != nil {
						ro = fo.RunOptsFor(g, ri)
					}
					if shared != nil {
						ro.WAF = shared
					}
					obs := Run(&g.Scen, ro)
					all = append(all, obs)
					kind, detail := classify(g, &obs, fo)
					if kind != "" {
						mu.Lock()
						fails = append(fails, failure{kind: kind, detail: detail + " [iteration order mode: " + mode + "]", g: g, obs: obs, feats: g.Scen.Features(), size: len(g.Text) + 40*len(g.Scen.Req)})
						mu.Unlock()
						break
					}
				}
				if fo.After != nil {
					if kind, detail := fo.After(g, all); kind != "" {
						mu.Lock()
						fails = append(fails, failure{kind: kind, detail: detail, g: g, obs: all[0], feats: g.Scen.Features(), size: len(g.Text) + 40*len(g.Scen.Req)})
						mu.Unlock()
					}
				}
				if mi > 0 {
					return
				}
				nt := ""
				for _, o := range g.Allowed {
					if len(o.Fired) > 0 {
						nt = fo.Name + "\x00" + g.Text + fmt.Sprint(g.Scen.Req)
					}
					break
				}
				run.Eval(nt)
				if idx%997 == 0 {
					var exp []Outcome
					for _, o := range g.Allowed {
						exp = append(exp, o)
					}
					run.Sample(map[string]any{"family": fo.Name, "directives": g.Text, "request": g.Scen.Req, "spec_allows": exp, "observed": all[0].Out})
				}
			}(idx, g)
		}
		wg.Wait()
	}
	SetOrderMode("natural", 0)
	reportFailures(run, fo.Name, fails)
	return len(keys)
}

func classify(g *Group, obs *Observed, fo FamilyOpts) (string, string) {
	if obs.Panic != "" {
		return "panic", obs.Panic
	}
	if obs.CompileEr != "" {
		if g.MayRefuse {
			return "", ""
		}
		return "compile-error", obs.CompileEr
	}
	if fo.Check != nil {
		return fo.Check(g, obs)
	}
	proj := ProjFor(&g.Scen, fo.Proj)
	k := obs.Out.Key(proj)
	if _, ok := g.Allowed[k]; ok {
		return "", ""
	}
	// name the first differing component against the closest allowed outcome
	var exp Outcome
	for _, o := range g.Allowed {
		exp = o
		break
	}
	kind := diffKind(&exp, &obs.Out, proj)
	return kind, fmt.Sprintf("observed %s ; spec allows %v", k, allowedKeys(g))
}

func allowedKeys(g *Group) []string {
	var ks []string
	for k := range g.Allowed {
		ks = append(ks, k)
	}
	sort.Strings(ks)
	return ks
}

func diffKind(exp, got *Outcome, p ProjOpts) string {
	if fmt.Sprint(exp.Fired) != fmt.Sprint(got.Fired) {
		es := map[int]int{}
		for _, id := range exp.Fired {
			es[id]++
		}
		gs := map[int]int{}
		for _, id := range got.Fired {
			gs[id]++
		}
		missing, extra := false, false
		for id, n := range es {
			if gs[id] < n {
				missing = true
			}
		}
		for id, n := range gs {
			if es[id] < n {
				extra = true
			}
		}
		switch {
		case missing && extra:
			return "fired-differs"
		case missing:
			return "fired-missing"
		case extra:
			return "fired-extra"
		default:
			return "fired-order"
		}
	}
	a := *exp
	b := *got
	a.Intr, b.Intr = Intr{}, Intr{}
	a.DetIntr, b.DetIntr = Intr{}, Intr{}
	a.TX, b.TX = nil, nil
	a.HSev, b.HSev = 0, 0
	if a.Key(p) != b.Key(p) {
		return "matchdata"
	}
	if exp.Intr.ID != got.Intr.ID || exp.Intr.Action != got.Intr.Action || exp.Intr.Status != got.Intr.Status || string(exp.Intr.Data) != string(got.Intr.Data) {
		return "interruption"
	}
	if !p.NoDetIntr && (exp.DetIntr.ID != got.DetIntr.ID || exp.DetIntr.Action != got.DetIntr.Action || exp.DetIntr.Status != got.DetIntr.Status) {
		return "detection-only-interruption"
	}
	if exp.HSev != got.HSev {
		return "highest-severity"
	}
	return "tx-variables"
}

// reportFailures groups failures by kind and reports one violation per minimal feature set.
func reportFailures(run *vf.Run, fam string, fails []failure) {
	if len(fails) == 0 {
		return
	}
	byKind := map[string][]failure{}
	for _, f := range fails {
		byKind[f.kind] = append(byKind[f.kind], f)
	}
	for kind, fs := range byKind {
		sort.Slice(fs, func(i, j int) bool {
			if len(fs[i].feats) != len(fs[j].feats) {
				return len(fs[i].feats) < len(fs[j].feats)
			}
			if fs[i].size != fs[j].size {
				return fs[i].size < fs[j].size
			}
			return fs[i].g.Text < fs[j].g.Text
		})
		var minimal []failure
		for _, f := range fs {
			sub := false
			for _, m := range minimal {
				if subset(m.feats, f.feats) {
					sub = true
					break
				}
			}
			if !sub {
				minimal = append(minimal, f)
			}
		}
		for _, m := range minimal {
			sig := fam + ":" + kind + "|" + strings.Join(m.feats, "+")
			run.Violate(vf.Violation{
				Signature: sig,
				What:      fmt.Sprintf("%s (%d failing scenarios of this kind); minimal case: %s || request %v || %s", kind, len(fs), strings.ReplaceAll(m.g.Text, "\n", " ; "), m.g.Scen.Req, m.detail),
				Replay:    map[string]any{"family": fam, "scenario": m.g.Scen, "directives": m.g.Text, "spec_allows": allowedKeys(m.g), "observed": m.obs},
			})
		}
	}
}

func subset(a, b []string) bool {
	have := map[string]bool{}
	for _, x := range b {
		have[x] = true
	}
	for _, x := range a {
		if !have[x] {
			return false
		}
	}
	return true
}
