package eng

import (
	"fmt"
	"math/rand"
	"strings"
	"time"

	"github.com/corazawaf/coraza/v3/verifharness/vf"
)

// TraceFamily records the transactions of n random scenarios on the real library (with the
// verif hooks) and lets TLC check every event against Engine_Trace. A rejected batch is
// bisected down to one transaction, which is reported.
func TraceFamily(run *vf.Run, name string, n int, batch int, o GenOpts, seedOff int64) {
	rng := rand.New(rand.NewSource(run.Seed*7919 + seedOff))
	run.Logf("trace family %s: recording %d random transactions", name, n)
	type one struct {
		scen *Scen
		evs  []Event
		obs  Observed
	}
	var all []one
	for k := 0; k < n; k++ {
		s := GenScen(rng, o)
		evs, obs := RecordRun(s)
		if obs.Panic != "" {
			run.Violate(vf.Violation{Signature: name + ":panic|" + strings.Join(s.Features(), "+"),
				What:   "panic while driving a generated scenario: " + obs.Panic + " || " + strings.ReplaceAll(obs.Text, "\n", " ; "),
				Replay: map[string]any{"family": name, "scenario": s, "directives": obs.Text, "observed": obs}})
			continue
		}
		if obs.CompileEr != "" {
			// the generator only writes documented syntax; a rejection is a modelling gap, not a verdict
			run.Inconclusive("trace family %s: generated scenario rejected by NewWAF: %s\n%s", name, obs.CompileEr, obs.Text)
			continue
		}
		all = append(all, one{s, evs, obs})
		if k%37 == 0 {
			run.Sample(map[string]any{"family": name + " (recorded trace)", "directives": obs.Text, "request": s.Req, "events": len(evs), "first_events": firstN(evs, 6)})
		}
	}
	validate := func(items []one) (*TraceResult, error) {
		var evs []Event
		for _, it := range items {
			evs = append(evs, it.evs...)
		}
		return ValidateTrace("Engine_Trace", evs, 10*time.Minute)
	}
	for start := 0; start < len(all); start += batch {
		end := start + batch
		if end > len(all) {
			end = len(all)
		}
		items := all[start:end]
		tr, err := validate(items)
		if err != nil {
			run.Inconclusive("trace family %s: %v", name, err)
			return
		}
		run.AddTLC(tr.TLC)
		if tr.Accepted {
			run.TraceValidated(len(items))
			for _, it := range items {
				nt := ""
				if len(it.obs.Out.Fired) > 0 {
					nt = name + "\x00" + it.obs.Text + fmt.Sprint(it.scen.Req)
				}
				run.Eval(nt)
			}
			continue
		}
		// find the offending transactions by bisection
		var bisect func(items []one)
		failed := false
		bisect = func(items []one) {
			if failed || len(items) == 0 {
				return
			}
			tr1, err := validate(items)
			if err != nil {
				run.Inconclusive("trace family %s: %v", name, err)
				failed = true
				return
			}
			if tr1.Accepted {
				run.TraceValidated(len(items))
				for range items {
					run.Eval("")
				}
				return
			}
			if len(items) > 1 {
				bisect(items[:len(items)/2])
				bisect(items[len(items)/2:])
				return
			}
			it := items[0]
			at := tr1.RejectedAt
			kind := "trace-rejected"
			if at > 0 && at <= len(it.evs) {
				e := it.evs[at-1]
				kind = "trace-rejected:" + e.Ev
				if e.Ev == "rule" {
					kind += ":" + e.Branch
				}
			}
			run.Violate(vf.Violation{Signature: name + ":" + kind + "|" + strings.Join(it.scen.Features(), "+"),
				What: fmt.Sprintf("the recorded execution is not a behaviour of Engine.tla: event #%d rejected (%s) || %s || request %v", at, tr1.Detail,
					strings.ReplaceAll(it.obs.Text, "\n", " ; "), it.scen.Req),
				Replay: map[string]any{"family": name, "scenario": it.scen, "directives": it.obs.Text, "trace": it.evs, "rejected_at": at, "observed": it.obs}})
		}
		bisect(items[:len(items)/2])
		bisect(items[len(items)/2:])
		if failed {
			return
		}
	}
}

func firstN(evs []Event, n int) []Event {
	if len(evs) > n {
		return evs[:n]
	}
	return evs
}

// BindingSelfTest demonstrates that the trace specification really constrains the recorded
// execution: a faithful trace is accepted, the same trace with one logged operator result
// flipped, and with one rule event removed, is rejected. Returns false if the binding is vacuous.
func BindingSelfTest(run *vf.Run) bool {
	rng := rand.New(rand.NewSource(12345))
	var evs []Event
	for tries := 0; tries < 200; tries++ {
		s := GenScen(rng, GenOpts{MaxRules: 3, MaxEntries: 3, Actions: true, Chains: true})
		e, obs := RecordRun(s)
		if obs.Panic != "" || obs.CompileEr != "" || len(obs.Out.Fired) == 0 {
			continue
		}
		has := false
		for _, x := range e {
			if x.Ev == "rule" && len(x.Ops) > 0 {
				has = true
			}
		}
		if has {
			evs = e
			break
		}
	}
	if evs == nil {
		run.Inconclusive("binding self-test: no suitable trace generated")
		return false
	}
	ok, err := ValidateTrace("Engine_Trace", evs, 5*time.Minute)
	if err != nil || !ok.Accepted {
		run.Inconclusive("binding self-test: faithful trace not accepted: %v %+v", err, ok)
		return false
	}
	// corrupt one logged field
	cor := make([]Event, len(evs))
	copy(cor, evs)
	for i := range cor {
		if cor[i].Ev == "rule" && len(cor[i].Ops) > 0 {
			ops := append([]OpEv{}, cor[i].Ops...)
			ops[0].M = !ops[0].M
			cor[i].Ops = ops
			break
		}
	}
	r1, err1 := ValidateTrace("Engine_Trace", cor, 5*time.Minute)
	// drop one event
	var drop []Event
	dropped := false
	for _, e := range evs {
		if !dropped && e.Ev == "rule" && e.Branch == "evaluated" && len(e.Ops) > 0 {
			dropped = true
			continue
		}
		drop = append(drop, e)
	}
	r2, err2 := ValidateTrace("Engine_Trace", drop, 5*time.Minute)
	if err1 != nil || err2 != nil {
		run.Inconclusive("binding self-test: TLC error: %v %v", err1, err2)
		return false
	}
	run.Extra["binding_selftest"] = map[string]any{"faithful_trace_accepted": ok.Accepted, "corrupted_field_rejected": !r1.Accepted, "dropped_event_rejected": !r2.Accepted}
	if r1.Accepted || r2.Accepted {
		run.Inconclusive("binding self-test: a corrupted trace was accepted (corrupt=%v drop=%v): the trace specification does not bind", r1.Accepted, r2.Accepted)
		return false
	}
	return true
}
