package eng

import (
	"encoding/json"
	"math/rand"
)

// GenOpts steers the random scenario generator (trace-validation drivers). The generator
// stays inside the vocabulary Engine.tla models, but is not limited to the small constants
// of the exhaustive configurations.
type GenOpts struct {
	MaxRules   int
	MaxEntries int
	Flow       bool // skip / skipAfter / allow / markers / disruptive actions
	Actions    bool // setvar, ctl, severity
	Chains     bool
	Engines    []string
}

func pick[T any](r *rand.Rand, xs []T) T { return xs[r.Intn(len(xs))] }

func lit(b string) []Part { return []Part{{T: "lit", C: "", K: Bytes(b)}} }

func rawParts(ps []Part) json.RawMessage {
	b, _ := json.Marshal(ps)
	return b
}

var (
	genKeys   = []string{"a", "A", "b", "ab", "Ab"}
	genVals   = []string{"x", "X", " x", "", "xy", "2", "10", "x x"}
	genTfs    = []string{"lowercase", "uppercase", "length", "trim", "removeWhitespace", "compressWhitespace", "none"}
	genReqCol = []string{"ARGS_GET", "ARGS_POST", "REQUEST_HEADERS"}
)

func genSel(r *rand.Rand) Sel {
	switch r.Intn(4) {
	case 0:
		return Sel{T: "key", K: Bytes(pick(r, genKeys)), Pat: Pat{Lit: Bytes{}}}
	case 1:
		return Sel{T: "rx", K: Bytes{}, Pat: Pat{M: pick(r, []string{"prefix", "has", "exact"}), Lit: Bytes(pick(r, []string{"a", "A", "b"}))}}
	}
	return Sel{T: "all", K: Bytes{}, Pat: Pat{Lit: Bytes{}}}
}

func genTarget(r *rand.Rand, link int) Target {
	cols := []string{"ARGS_GET", "ARGS_POST", "ARGS", "ARGS_NAMES", "ARGS_GET_NAMES", "REQUEST_HEADERS", "REQUEST_HEADERS_NAMES"}
	if link > 0 {
		cols = append(cols, "MATCHED_VAR", "MATCHED_VARS", "MATCHED_VAR")
	}
	t := Target{Col: pick(r, cols), Sel: Sel{T: "all", K: Bytes{}, Pat: Pat{Lit: Bytes{}}}, Excl: []Sel{}}
	if t.Col == "MATCHED_VAR" || t.Col == "MATCHED_VARS" {
		return t
	}
	t.Sel = genSel(r)
	if r.Intn(4) == 0 {
		t.Count = true
	}
	if r.Intn(3) == 0 {
		e := genSel(r)
		if e.T == "all" {
			e = Sel{T: "key", K: Bytes("a"), Pat: Pat{Lit: Bytes{}}}
		}
		t.Excl = append(t.Excl, e)
	}
	return t
}

func genOp(r *rand.Rand, count bool, o GenOpts) Op {
	if count {
		return Op{Name: pick(r, []string{"eq", "ge", "gt", "lt", "le"}), Arg: lit(pick(r, []string{"0", "1", "2"})), Neg: r.Intn(5) == 0}
	}
	switch r.Intn(8) {
	case 0:
		return Op{Name: "unconditionalMatch", Arg: []Part{}, Neg: false}
	case 1:
		if o.Actions {
			return Op{Name: "ge", Arg: []Part{{T: "mac", C: "TX", K: Bytes("n")}}, Neg: false}
		}
	}
	return Op{Name: pick(r, []string{"streq", "contains", "beginsWith", "endsWith", "rx", "eq", "ge"}),
		Arg: lit(pick(r, []string{"x", "X", "xy", "2", "a"})), Neg: r.Intn(4) == 0}
}

func genTfList(r *rand.Rand) []string {
	n := r.Intn(4)
	out := []string{}
	for i := 0; i < n; i++ {
		out = append(out, pick(r, genTfs))
	}
	// "none" clears the list in the real parser; keep it only in first position where it is a no-op
	res := []string{}
	for i, t := range out {
		if t == "none" && i > 0 {
			continue
		}
		res = append(res, t)
	}
	if len(res) > 0 && res[0] == "none" {
		res = res[1:]
	}
	return res
}

func genNonDisruptive(r *rand.Rand, ids []int) Action {
	a := Action{A: "setvar", K: rawParts(lit("n")), V: json.RawMessage("[]")}
	switch r.Intn(7) {
	case 0, 1, 2:
		a.Op = "add"
		a.V = rawParts(lit(pick(r, []string{"1", "2", "5"})))
	case 3:
		a.Op = "sub"
		a.V = rawParts(lit("1"))
	case 4:
		a.K = rawParts(lit("s"))
		a.Op = "set"
		if r.Intn(2) == 0 {
			a.V = rawParts([]Part{{T: "mac", C: "MATCHED_VAR", K: Bytes{}}})
		} else {
			a.V = rawParts(lit(pick(r, []string{"x", "v1"})))
		}
	case 5:
		a.K = rawParts(lit("s"))
		a.Op = "del"
	case 6:
		return Action{A: "ctl", S: "ruleRemoveById", N: pick(r, ids), K: json.RawMessage("[]"), V: json.RawMessage("[]")}
	}
	return a
}

func genFlow(r *rand.Rand) []Action {
	mk := func(a, s string, n int) Action {
		return Action{A: a, S: s, N: n, K: json.RawMessage("[]"), V: json.RawMessage("[]")}
	}
	switch r.Intn(10) {
	case 0:
		return []Action{mk("skip", "", 1+r.Intn(2))}
	case 1:
		return []Action{mk("skipAfter", "M", 0)}
	case 2:
		return []Action{mk("allow", pick(r, []string{"all", "phase", "request"}), 0)}
	case 3:
		return []Action{mk("deny", "", 0)}
	case 4:
		return []Action{mk("drop", "", 0)}
	case 5:
		a := mk("redirect", "", 0)
		a.V = rawParts(lit("/r"))
		return []Action{a}
	case 6:
		return []Action{mk("pass", "", 0)}
	}
	return nil
}

// GenScen builds one random scenario.
func GenScen(r *rand.Rand, o GenOpts) *Scen {
	s := &Scen{Engine: "On", Dirs: []Dir{}}
	if len(o.Engines) > 0 {
		s.Engine = pick(r, o.Engines)
	}
	nr := 1 + r.Intn(o.MaxRules)
	var ids []int
	for i := 0; i < nr; i++ {
		ids = append(ids, 10*(i+1))
	}
	for i := 0; i < nr; i++ {
		if o.Flow && r.Intn(7) == 0 {
			s.Rules = append(s.Rules, Rule{Marker: "M", Sev: -1, Links: []Link{{Targets: []Target{}, Tfs: []string{}, Op: Op{Arg: []Part{}}, Acts: []Action{}}}})
			continue
		}
		ru := Rule{ID: ids[i], Phase: 1 + r.Intn(5), Sev: -1}
		if ru.Phase == 4 && r.Intn(2) == 0 {
			ru.Phase = 2
		}
		nl := 1
		if o.Chains && r.Intn(3) == 0 {
			nl = 2 + r.Intn(2)
		}
		secAction := o.Actions && r.Intn(8) == 0
		for li := 0; li < nl; li++ {
			var l Link
			if secAction && li == 0 {
				l = Link{Targets: []Target{}, Tfs: []string{}, Op: Op{Arg: []Part{}}, Acts: []Action{}, HasOp: false}
				nl = 1
			} else {
				t := genTarget(r, li)
				if li > 0 && t.Col == "MATCHED_VARS" && anyCount(ru.Links) {
					t.Col = "MATCHED_VAR" // names recorded for a count are unspecified
				}
				l = Link{Targets: []Target{t}, Tfs: genTfList(r), Op: genOp(r, t.Count, o), HasOp: true, Acts: []Action{}}
				if r.Intn(6) == 0 && len(l.Tfs) > 0 {
					l.MM = true
				}
				if r.Intn(5) == 0 {
					t2 := genTarget(r, li)
					if t2.Col == "MATCHED_VARS" {
						t2.Col = "MATCHED_VAR"
					}
					// an exclusion applies to every target of its collection written before it; the model
					// attaches exclusions to one target, so a link never names a collection twice
					if t2.Count == t.Count && t2.Col != t.Col {
						l.Targets = append(l.Targets, t2)
					}
				}
			}
			if o.Actions && r.Intn(2) == 0 {
				l.Acts = append(l.Acts, genNonDisruptive(r, ids))
				if r.Intn(4) == 0 {
					l.Acts = append(l.Acts, genNonDisruptive(r, ids))
				}
			}
			if li == 0 && o.Flow {
				l.Acts = append(l.Acts, genFlow(r)...)
			}
			ru.Links = append(ru.Links, l)
			if !l.HasOp {
				break
			}
		}
		if o.Actions && r.Intn(4) == 0 {
			ru.Sev = r.Intn(6)
		}
		if o.Flow && r.Intn(6) == 0 {
			ru.Status = pick(r, []int{0, 301, 404, 500})
		}
		s.Rules = append(s.Rules, ru)
	}
	ne := r.Intn(o.MaxEntries + 1)
	for i := 0; i < ne; i++ {
		s.Req = append(s.Req, Entry{C: pick(r, genReqCol), K: Bytes(pick(r, genKeys)), V: Bytes(pick(r, genVals))})
	}
	NormalizeScen(s)
	return s
}

func anyCount(ls []Link) bool {
	for _, l := range ls {
		for _, t := range l.Targets {
			if t.Count {
				return true
			}
		}
	}
	return false
}
