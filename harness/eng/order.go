package eng

import (
	"math/rand"
	"sync"
	"sync/atomic"

	"github.com/corazawaf/coraza/v3/internal/collections"
	"github.com/corazawaf/coraza/v3/types"
)

// Order modes play the runtime's hash-iteration order through the verif hook in
// internal/collections (FindAll / FindRegex of map-backed collections).
//
//	"natural"  no hook: whatever order the Go runtime picks
//	"sorted"   by (key, original position): a fixed canonical order
//	"reverse"  the reverse of sorted
//	"rotate"   sorted, rotated by a counter that advances at every walk (so that two rules of one
//	           phase see the same collection in different orders)
//	"shuffle"  seeded pseudo-random permutation, different at every walk
var orderMu sync.Mutex

// SetOrderMode installs the process-wide iteration-order hook.
func SetOrderMode(mode string, seed int64) {
	orderMu.Lock()
	defer orderMu.Unlock()
	var ctr atomic.Int64
	switch mode {
	case "", "natural":
		collections.VerifOrder = nil
	case "sorted":
		collections.VerifOrder = func(m []types.MatchData) { sortMD(m) }
	case "reverse":
		collections.VerifOrder = func(m []types.MatchData) {
			sortMD(m)
			// reverse the order of the key groups
			var out []types.MatchData
			for end := len(m); end > 0; {
				st := end - 1
				for st > 0 && m[st-1].Key() == m[end-1].Key() {
					st--
				}
				out = append(out, m[st:end]...)
				end = st
			}
			copy(m, out)
		}
	case "rotate":
		collections.VerifOrder = func(m []types.MatchData) {
			sortMD(m)
			var starts []int
			for i := range m {
				if i == 0 || m[i].Key() != m[i-1].Key() {
					starts = append(starts, i)
				}
			}
			k := starts[int(ctr.Add(1))%len(starts)] // rotate by whole key groups
			rot := append(append([]types.MatchData{}, m[k:]...), m[:k]...)
			copy(m, rot)
		}
	case "shuffle":
		collections.VerifOrder = func(m []types.MatchData) {
			sortMD(m)
			r := rand.New(rand.NewSource(seed + ctr.Add(1)))
			// permute the key groups only: the values of one key keep their insertion order
			var groups [][]types.MatchData
			for i := 0; i < len(m); {
				j := i
				for j < len(m) && m[j].Key() == m[i].Key() {
					j++
				}
				groups = append(groups, append([]types.MatchData{}, m[i:j]...))
				i = j
			}
			r.Shuffle(len(groups), func(i, j int) { groups[i], groups[j] = groups[j], groups[i] })
			k := 0
			for _, g := range groups {
				k += copy(m[k:], g)
			}
		}
	}
}

// sortMD orders by key, keeping the relative order of the values of one key (the runtime only
// permutes the keys of a map; the values of a key keep their insertion order).
func sortMD(m []types.MatchData) {
	// stable insertion sort on key (slices are short)
	for i := 1; i < len(m); i++ {
		for j := i; j > 0 && m[j-1].Key() > m[j].Key(); j-- {
			m[j-1], m[j] = m[j], m[j-1]
		}
	}
}

// OrderModes is the list of modes the order-sensitive checks run under.
var OrderModes = []string{"natural", "sorted", "reverse", "rotate", "shuffle"}
