package eng

import (
	"encoding/json"
	"fmt"
	"strings"
)

// Render turns a structured scenario into SecLang directive text.
func Render(s *Scen) string {
	var sb strings.Builder
	eng := s.Engine
	if eng == "" {
		eng = "On"
	}
	fmt.Fprintf(&sb, "SecRuleEngine %s\n", eng)
	for i := range s.Dirs {
		if s.Dirs[i].Def != "" {
			for ph := 1; ph <= 2; ph++ {
				fmt.Fprintf(&sb, "SecDefaultAction \"phase:%d,log,auditlog,%s,status:403\"\n", ph, s.Dirs[i].Def)
			}
			break
		}
	}
	for i := range s.Rules {
		renderRule(&sb, &s.Rules[i])
	}
	for i := range s.Dirs {
		renderDir(&sb, &s.Dirs[i])
	}
	return sb.String()
}

func renderSel(col string, sel Sel) string {
	switch sel.T {
	case "key":
		return col + ":" + string(sel.K)
	case "rx":
		return col + ":/" + renderPat(sel.Pat) + "/"
	}
	return col
}

func renderPat(p Pat) string {
	lit := string(p.Lit)
	switch p.M {
	case "prefix":
		return "^" + lit
	case "exact":
		return "^" + lit + "$"
	}
	return lit
}

func renderTargets(ts []Target) string {
	var parts []string
	// several targets over one collection that all carry the same exclusions: the exclusions are written once, after them
	if len(ts) >= 2 && len(ts[0].Excl) > 0 {
		same := true
		e0, _ := json.Marshal(ts[0].Excl)
		for _, t := range ts[1:] {
			e, _ := json.Marshal(t.Excl)
			if t.Col != ts[0].Col || string(e) != string(e0) {
				same = false
			}
		}
		if same {
			for _, t := range ts {
				x := renderSel(t.Col, t.Sel)
				if t.Count {
					x = "&" + x
				}
				parts = append(parts, x)
			}
			for _, e := range ts[0].Excl {
				parts = append(parts, "!"+renderSel(ts[0].Col, e))
			}
			return strings.Join(parts, "|")
		}
	}
	for _, t := range ts {
		x := renderSel(t.Col, t.Sel)
		if t.Count {
			x = "&" + x
		}
		parts = append(parts, x)
		for _, e := range t.Excl {
			parts = append(parts, "!"+renderSel(t.Col, e))
		}
	}
	return strings.Join(parts, "|")
}

func renderExpr(parts []Part) string {
	var sb strings.Builder
	for _, p := range parts {
		if p.T == "lit" {
			sb.WriteString(string(p.K))
			continue
		}
		switch p.C {
		case "TX":
			sb.WriteString("%{tx." + string(p.K) + "}")
		case "RULE":
			sb.WriteString("%{rule." + string(p.K) + "}")
		default:
			sb.WriteString("%{" + p.C + "}")
		}
	}
	return sb.String()
}

func exprOf(raw json.RawMessage) []Part {
	var ps []Part
	if len(raw) == 0 {
		return nil
	}
	_ = json.Unmarshal(raw, &ps)
	return ps
}

func renderOp(o Op) string {
	neg := ""
	if o.Neg {
		neg = "!"
	}
	arg := renderExpr(o.Arg)
	if arg == "" {
		return neg + "@" + o.Name
	}
	return neg + "@" + o.Name + " " + arg
}

// RenderAction renders one action of the model.
func RenderAction(a Action) string {
	switch a.A {
	case "setvar":
		key := renderExpr(exprOf(a.K))
		val := renderExpr(exprOf(a.V))
		switch a.Op {
		case "del":
			return "setvar:'!tx." + key + "'"
		case "add":
			return "setvar:'tx." + key + "=+" + val + "'"
		case "sub":
			return "setvar:'tx." + key + "=-" + val + "'"
		default:
			return "setvar:'tx." + key + "=" + val + "'"
		}
	case "skip":
		return fmt.Sprintf("skip:%d", a.N)
	case "skipAfter":
		return "skipAfter:" + a.S
	case "allow":
		if a.S == "all" || a.S == "" {
			return "allow"
		}
		return "allow:" + a.S
	case "redirect":
		return "redirect:" + renderExpr(exprOf(a.V))
	case "ctl":
		switch a.S {
		case "ruleRemoveById":
			return fmt.Sprintf("ctl:ruleRemoveById=%d", a.N)
		case "ruleRemoveByIdRange":
			var hi []int
			_ = json.Unmarshal(a.V, &hi)
			if len(hi) == 1 {
				return fmt.Sprintf("ctl:ruleRemoveById=%d-%d", a.N, hi[0])
			}
		case "ruleRemoveByTag":
			return "ctl:ruleRemoveByTag=" + a.Op
		case "ruleRemoveByMsg":
			return "ctl:ruleRemoveByMsg=" + a.Op
		case "ruleRemoveTargetById":
			var ts []CtlTarget
			_ = json.Unmarshal(a.K, &ts)
			if len(ts) == 1 {
				return fmt.Sprintf("ctl:ruleRemoveTargetById=%d;%s", a.N, renderSel(ts[0].Col, ts[0].Sel))
			}
		case "ruleRemoveTargetByTag", "ruleRemoveTargetByMsg":
			var ts []CtlTarget
			_ = json.Unmarshal(a.K, &ts)
			if len(ts) == 1 {
				return fmt.Sprintf("ctl:%s=%s;%s", a.S, a.Op, renderSel(ts[0].Col, ts[0].Sel))
			}
		case "ruleEngine":
			return "ctl:ruleEngine=" + a.Op
		case "requestBodyAccess", "responseBodyAccess":
			return "ctl:" + a.S + "=" + a.Op
		case "requestBodyLimit", "responseBodyLimit":
			return fmt.Sprintf("ctl:%s=%d", a.S, a.N)
		default:
			return "ctl:" + a.S + "=" + a.Op
		}
	}
	return a.A // deny, drop, pass, block, capture, multiMatch, log, nolog, ...
}

func renderLinkActs(l *Link, extra []string, chainNext bool) string {
	acts := append([]string{}, extra...)
	for _, t := range l.Tfs {
		acts = append(acts, "t:"+t)
	}
	if l.MM {
		acts = append(acts, "multiMatch")
	}
	for _, a := range l.Acts {
		acts = append(acts, RenderAction(a))
	}
	if chainNext {
		acts = append(acts, "chain")
	}
	return strings.Join(acts, ",")
}

func renderRule(sb *strings.Builder, r *Rule) {
	if r.Marker != "" {
		fmt.Fprintf(sb, "SecMarker %s\n", r.Marker)
		return
	}
	for li := range r.Links {
		l := &r.Links[li]
		var extra []string
		if li == 0 {
			extra = append(extra, fmt.Sprintf("id:%d", r.ID), fmt.Sprintf("phase:%d", r.Phase))
			if r.Status != 0 && !r.StatusLast {
				extra = append(extra, fmt.Sprintf("status:%d", r.Status))
			}
			if r.Sev >= 0 {
				extra = append(extra, fmt.Sprintf("severity:%d", r.Sev))
			}
			for _, t := range r.Tags {
				extra = append(extra, "tag:'"+t+"'")
			}
			if r.Msg != "" {
				extra = append(extra, "msg:'"+r.Msg+"'")
			}
			if r.Log != "" {
				extra = append(extra, strings.Split(r.Log, ",")...)
			}
		}
		acts := renderLinkActs(l, extra, li < len(r.Links)-1)
		if li == 0 && r.Status != 0 && r.StatusLast {
			acts += fmt.Sprintf(",status:%d", r.Status) // written after the disruptive action
		}
		indent := strings.Repeat("  ", li)
		if l.HasOp {
			if acts == "" {
				fmt.Fprintf(sb, "%sSecRule %s \"%s\"\n", indent, renderTargets(l.Targets), renderOp(l.Op))
			} else {
				fmt.Fprintf(sb, "%sSecRule %s \"%s\" \"%s\"\n", indent, renderTargets(l.Targets), renderOp(l.Op), acts)
			}
		} else {
			fmt.Fprintf(sb, "%sSecAction \"%s\"\n", indent, acts)
		}
	}
}

func dirIDs(d *Dir) string {
	if d.Hi != 0 {
		r := fmt.Sprintf("%d-%d", d.Lo, d.Hi)
		if len(d.IDs) > 0 {
			return idList(d.IDs) + " " + r
		}
		return r
	}
	return idList(d.IDs)
}

func idList(ids []int) string {
	ss := make([]string, len(ids))
	for i, v := range ids {
		ss[i] = fmt.Sprint(v)
	}
	return strings.Join(ss, " ")
}

func renderDir(sb *strings.Builder, d *Dir) {
	switch d.D {
	case "SecRuleRemoveById":
		fmt.Fprintf(sb, "SecRuleRemoveById %s\n", dirIDs(d))
	case "SecRuleRemoveByTag":
		fmt.Fprintf(sb, "SecRuleRemoveByTag %s\n", d.S)
	case "SecRuleRemoveByMsg":
		fmt.Fprintf(sb, "SecRuleRemoveByMsg \"%s\"\n", d.S)
	case "SecRuleUpdateTargetById":
		fmt.Fprintf(sb, "SecRuleUpdateTargetById %s \"%s\"\n", dirIDs(d), renderUpdateTargets(d.Tgts))
	case "SecRuleUpdateTargetByTag":
		fmt.Fprintf(sb, "SecRuleUpdateTargetByTag %s \"%s\"\n", d.S, renderUpdateTargets(d.Tgts))
	case "SecRuleUpdateActionById":
		var acts []string
		for _, a := range d.Acts {
			acts = append(acts, RenderAction(a))
		}
		fmt.Fprintf(sb, "SecRuleUpdateActionById %s \"%s\"\n", dirIDs(d), strings.Join(acts, ","))
	}
}

// in an update directive a target with Count=true is used to carry "negated" (exclusion) targets:
// Tgts[i].Excl non-empty means "!COL:key" entries; the plain target (if Sel.T != "none") is an addition.
func renderUpdateTargets(ts []Target) string {
	var parts []string
	for _, t := range ts {
		if t.Sel.T != "none" {
			parts = append(parts, renderSel(t.Col, t.Sel))
		}
		for _, e := range t.Excl {
			parts = append(parts, "!"+renderSel(t.Col, e))
		}
	}
	return strings.Join(parts, "|")
}
