package eng

import (
	"fmt"
	"sort"
	"strconv"
	"strings"
	"time"

	coraza "github.com/corazawaf/coraza/v3"
	"github.com/corazawaf/coraza/v3/internal/corazawaf"
	"github.com/corazawaf/coraza/v3/types"
	"github.com/corazawaf/coraza/v3/types/variables"
)

// Observed is what one real run of a scenario showed.
type Observed struct {
	Out       Outcome
	CompileEr string // NewWAF error ("" if none)
	Panic     string // recovered panic text ("" if none)
	PerPhase  []Intr // interruption returned by each of the four phase calls
	Text      string // the directive text that was compiled
}

// RunOpts tunes how a scenario is driven.
type RunOpts struct {
	WAF   coraza.WAF                 // reuse this WAF instead of compiling the scenario (long-lived WAF runs)
	Hooks func(tx types.Transaction) // called right after NewTransaction (install per-tx hooks)
	// Finish is called after ProcessLogging and projection, before Close.
	Finish func(tx types.Transaction, out *Outcome)
}

func toIntr(it *types.Interruption) Intr {
	if it == nil {
		return Intr{Action: "none"}
	}
	return Intr{ID: it.RuleID, Action: it.Action, Status: it.Status, Data: Bytes(it.Data)}
}

// Compile builds a real WAF from the scenario text.
func Compile(text string) (w coraza.WAF, err error, panicked string) {
	defer func() {
		if r := recover(); r != nil {
			panicked = fmt.Sprint(r)
		}
	}()
	w, err = coraza.NewWAF(coraza.NewWAFConfig().WithDirectives(text))
	return
}

// Feed adds the request data of the scenario to a transaction through the public API.
//
// Equal names share one Go string (as they do when the library parses a query string itself:
// url.ParseQuery hands every value of a name the same key string), because the transformation
// cache identifies a key by the address of its bytes.
func Feed(tx types.Transaction, req []Entry) {
	intern := map[string]string{}
	key := func(b Bytes) string {
		s := string(b)
		if v, ok := intern[s]; ok {
			return v
		}
		intern[s] = s
		return s
	}
	for _, e := range req {
		switch e.C {
		case "ARGS_GET":
			tx.AddGetRequestArgument(key(e.K), string(e.V))
		case "ARGS_POST":
			tx.AddPostRequestArgument(key(e.K), string(e.V))
		case "REQUEST_HEADERS":
			tx.AddRequestHeader(key(e.K), string(e.V))
		case "REQUEST_COOKIES":
			tx.AddRequestHeader("Cookie", string(e.K)+"="+string(e.V))
		case "RESPONSE_HEADERS":
			tx.AddResponseHeader(string(e.K), string(e.V))
		}
	}
}

// Run compiles (unless opts.WAF is given) and drives one transaction in the canonical call order.
func Run(s *Scen, opts RunOpts) (obs Observed) {
	obs.Text = Render(s)
	w := opts.WAF
	if w == nil {
		var err error
		var p string
		w, err, p = Compile(obs.Text)
		if p != "" {
			obs.Panic = "NewWAF: " + p
			return
		}
		if err != nil {
			obs.CompileEr = err.Error()
			return
		}
		defer closeWAF(w)
	}
	done := make(chan struct{})
	go func() {
		defer close(done)
		defer func() {
			if r := recover(); r != nil {
				obs.Panic = fmt.Sprint(r)
			}
		}()
		tx := w.NewTransaction()
		defer tx.Close()
		if opts.Hooks != nil {
			opts.Hooks(tx)
		}
		tx.ProcessConnection("10.0.0.1", 1234, "10.0.0.2", 80)
		tx.ProcessURI("/", "GET", "HTTP/1.1")
		Feed(tx, s.Req)
		obs.PerPhase = make([]Intr, 4)
		it := tx.ProcessRequestHeaders()
		obs.PerPhase[0] = toIntr(it)
		if it == nil {
			it, _ = tx.ProcessRequestBody()
			obs.PerPhase[1] = toIntr(it)
		}
		if it == nil {
			it = tx.ProcessResponseHeaders(200, "HTTP/1.1")
			obs.PerPhase[2] = toIntr(it)
		}
		if it == nil {
			it, _ = tx.ProcessResponseBody()
			obs.PerPhase[3] = toIntr(it)
		}
		tx.ProcessLogging()
		obs.Out = Project(tx)
		if opts.Finish != nil {
			opts.Finish(tx, &obs.Out)
		}
	}()
	select {
	case <-done:
	case <-time.After(20 * time.Second):
		obs.Panic = "watchdog: transaction did not finish within 20s"
	}
	return
}

func closeWAF(w coraza.WAF) {
	if c, ok := w.(interface{ Close() error }); ok {
		_ = c.Close()
	}
}

// Project maps the state of a finished real transaction to the specification's Outcome record.
func Project(tx types.Transaction) Outcome {
	var o Outcome
	for _, mr := range tx.MatchedRules() {
		o.Fired = append(o.Fired, mr.Rule().ID())
		var mds []Datum
		for _, md := range mr.MatchedDatas() {
			v := ""
			if md.Variable() != variables.Unknown {
				v = md.Variable().Name()
			}
			mds = append(mds, Datum{Var: v, Key: Bytes(md.Key()), Val: Bytes(md.Value()), Lvl: md.ChainLevel()})
		}
		o.MD = append(o.MD, mds)
	}
	o.Intr = toIntr(tx.Interruption())
	o.DetIntr = Intr{Action: "none"}
	o.HSev = 255
	if itx, ok := tx.(*corazawaf.Transaction); ok {
		o.DetIntr = toIntr(itx.DetectionOnlyInterruption())
		vars := itx.Variables()
		if hs, err := strconv.Atoi(vars.HighestSeverity().Get()); err == nil {
			o.HSev = hs
		}
		for _, md := range vars.TX().FindAll() {
			k := md.Key()
			// TX.0 .. TX.10 exist (empty) in every transaction; they are part of the outcome only when set
			if isCaptureKey(k) && md.Value() == "" {
				continue
			}
			o.TX = append(o.TX, TxKV{K: Bytes(strings.ToLower(k)), V: Bytes(md.Value())})
		}
		sort.Slice(o.TX, func(i, j int) bool { return string(o.TX[i].K) < string(o.TX[j].K) })
	}
	return o
}

func isCaptureKey(k string) bool {
	if n, err := strconv.Atoi(k); err == nil && n >= 0 && n <= 10 {
		return true
	}
	return false
}
