// Package eng binds the Engine specification (spec/Engine.tla, spec/Scen.tla) to the real
// library: it decodes the scenarios TLC emits, renders them to SecLang text, drives a real
// transaction through the public API and projects what it observes onto the Outcome record
// of the specification.
package eng

import (
	"encoding/json"
	"fmt"
	"sort"
	"strings"
)

// Bytes is a byte string encoded by TLC as an array of integers.
type Bytes []byte

func (b *Bytes) UnmarshalJSON(data []byte) error {
	var ints []int
	if err := json.Unmarshal(data, &ints); err != nil {
		// tolerate a JSON string
		var s string
		if err2 := json.Unmarshal(data, &s); err2 == nil {
			*b = Bytes(s)
			return nil
		}
		return err
	}
	out := make([]byte, len(ints))
	for i, v := range ints {
		out[i] = byte(v)
	}
	*b = out
	return nil
}

func (b Bytes) MarshalJSON() ([]byte, error) {
	ints := make([]int, len(b))
	for i, v := range b {
		ints[i] = int(v)
	}
	return json.Marshal(ints)
}

func (b Bytes) String() string { return string(b) }

type Pat struct {
	M   string `json:"m"`
	Lit Bytes  `json:"lit"`
}

type Sel struct {
	T   string `json:"t"` // all | key | rx
	K   Bytes  `json:"k"`
	Pat Pat    `json:"pat"`
}

type Target struct {
	Col   string `json:"col"`
	Sel   Sel    `json:"sel"`
	Count bool   `json:"count"`
	Excl  []Sel  `json:"excl"`
}

type Part struct {
	T string `json:"t"` // lit | mac
	C string `json:"c"`
	K Bytes  `json:"k"`
}

type Op struct {
	Name string `json:"name"`
	Arg  []Part `json:"arg"`
	Neg  bool   `json:"neg"`
}

type Action struct {
	A  string          `json:"a"`
	K  json.RawMessage `json:"k"`
	Op string          `json:"op"`
	V  json.RawMessage `json:"v"`
	N  int             `json:"n"`
	S  string          `json:"s"`
}

type CtlTarget struct {
	Col string `json:"col"`
	Sel Sel    `json:"sel"`
}

type Link struct {
	Targets []Target `json:"targets"`
	Tfs     []string `json:"tfs"`
	Op      Op       `json:"op"`
	MM      bool     `json:"mm"`
	Acts    []Action `json:"acts"`
	HasOp   bool     `json:"hasOp"`
}

type Rule struct {
	ID         int      `json:"id"`
	Phase      int      `json:"phase"`
	Marker     string   `json:"marker"`
	Links      []Link   `json:"links"`
	Status     int      `json:"status"`
	StatusLast bool     `json:"statusLast"` // render status: after the other actions
	Sev        int      `json:"sev"`
	Tags       []string `json:"tags"`
	Msg        string   `json:"msg"`
	Log        string   `json:"log,omitempty"` // "", "log", "nolog", "auditlog", ...
}

type Entry struct {
	C string `json:"c"`
	K Bytes  `json:"k"`
	V Bytes  `json:"v"`
}

// Dir is a configuration-time exclusion / update directive (C17 family).
type Dir struct {
	D    string   `json:"d"`
	IDs  []int    `json:"ids"`
	Lo   int      `json:"lo"`
	Hi   int      `json:"hi"`
	S    string   `json:"s"`
	Tgts []Target `json:"tgts"`
	Acts []Action `json:"acts"`
	Def  string   `json:"def"` // disruptive action of a SecDefaultAction written at the top for every phase ("" = none)
}

type Scen struct {
	Rules  []Rule  `json:"rules"`
	Req    []Entry `json:"req"`
	Engine string  `json:"engine"`
	Dirs   []Dir   `json:"dirs"`
}

type Datum struct {
	Var string `json:"var"`
	Key Bytes  `json:"key"`
	Val Bytes  `json:"val"`
	Lvl int    `json:"-"` // chain level the datum was matched at (real runs only)
}

type Intr struct {
	ID     int    `json:"id"`
	Action string `json:"action"`
	Status int    `json:"status"`
	Data   Bytes  `json:"data"`
}

type TxKV struct {
	K Bytes `json:"k"`
	V Bytes `json:"v"`
}

// Outcome mirrors Engine!Outcome.
type Outcome struct {
	Fired   []int     `json:"fired"`
	MD      [][]Datum `json:"md"`
	Intr    Intr      `json:"intr"`
	DetIntr Intr      `json:"detIntr"`
	TX      []TxKV    `json:"tx"`
	HSev    int       `json:"hsev"`
}

// Case is one line emitted by Engine_MC.
type Case struct {
	Scen   Scen            `json:"scen"`
	RxMode json.RawMessage `json:"rxMode"`
	Out    Outcome         `json:"out"`
	// MayRefuse: the specification leaves open whether this configuration is refused at construction
	MayRefuse bool `json:"mayRefuse"`
}

// Key is a canonical, order-insensitive (for match data and TX) rendering of an outcome,
// used for set membership.
func (o *Outcome) Key(opts ProjOpts) string {
	var sb strings.Builder
	fmt.Fprintf(&sb, "fired=%v;", o.Fired)
	for i, mds := range o.MD {
		ss := make([]string, len(mds))
		for j, d := range mds {
			k := string(d.Key)
			if opts.FoldMDKeys {
				k = strings.ToLower(k)
			}
			if i < len(o.Fired) && opts.BlankKeys[o.Fired[i]] != nil && (opts.BlankKeys[o.Fired[i]][d.Lvl] || opts.BlankKeys[o.Fired[i]][-1]) {
				k = ""
			}
			ss[j] = fmt.Sprintf("%s|%q|%q", d.Var, k, string(d.Val))
		}
		sort.Strings(ss)
		if opts.DedupMD {
			ss = dedup(ss)
		}
		fmt.Fprintf(&sb, "md%d=%v;", i, ss)
	}
	fmt.Fprintf(&sb, "intr=%d/%s/%d/%q;", o.Intr.ID, o.Intr.Action, o.Intr.Status, string(o.Intr.Data))
	if !opts.NoDetIntr {
		fmt.Fprintf(&sb, "det=%d/%s/%d/%q;", o.DetIntr.ID, o.DetIntr.Action, o.DetIntr.Status, string(o.DetIntr.Data))
	}
	if !opts.NoTX {
		ss := make([]string, 0, len(o.TX))
		for _, kv := range o.TX {
			ss = append(ss, fmt.Sprintf("%q=%q", strings.ToLower(string(kv.K)), string(kv.V)))
		}
		sort.Strings(ss)
		fmt.Fprintf(&sb, "tx=%v;", ss)
	}
	fmt.Fprintf(&sb, "hsev=%d", o.HSev)
	return sb.String()
}

// ProjOpts selects what part of the outcome a family compares.
type ProjOpts struct {
	FoldMDKeys bool // compare match-data keys case-insensitively
	DedupMD    bool // compare match data as sets (multiMatch: a transformation may over-report "changed")
	// BlankKeys: rule id -> chain level -> true when that link only has count targets (the key
	// reported for a count is unspecified and not compared). Level -1 = every level (used for
	// outcomes that do not carry levels, i.e. the specification's own, where such keys are empty anyway).
	BlankKeys map[int]map[int]bool
	NoTX      bool
	NoDetIntr bool
}

// Features lists the language features a scenario uses (for signatures and coverage counts).
func (s *Scen) Features() []string {
	set := map[string]struct{}{}
	add := func(f string) { set[f] = struct{}{} }
	for _, r := range s.Rules {
		if r.Marker != "" {
			add("marker")
			continue
		}
		if len(r.Links) > 1 {
			add("chain")
		}
		for li, l := range r.Links {
			if !l.HasOp {
				add("secaction")
			}
			if l.MM {
				add("multiMatch")
			}
			if l.Op.Neg {
				add("negop")
			}
			if len(l.Tfs) > 0 {
				add("tfs")
			}
			for _, p := range l.Op.Arg {
				if p.T == "mac" {
					add("opmacro")
				}
			}
			for _, t := range l.Targets {
				if t.Count {
					add("count")
				}
				if t.Sel.T == "rx" {
					add("rxkey")
				}
				if t.Sel.T == "key" {
					add("strkey")
				}
				if len(t.Excl) > 0 {
					add("excl")
				}
				if strings.HasSuffix(t.Col, "_NAMES") {
					add("names")
				}
				if t.Col == "TX" || strings.HasPrefix(t.Col, "MATCHED_") {
					add("tgt:" + t.Col)
				}
			}
			for _, a := range l.Acts {
				n := a.A
				if a.A == "allow" {
					n = "allow:" + a.S
				}
				if a.A == "ctl" {
					n = "ctl:" + a.S
				}
				if li > 0 {
					n = "link-" + n
				}
				add(n)
			}
		}
	}
	for _, d := range s.Dirs {
		add("dir:" + d.D)
	}
	if s.Engine != "On" {
		add("engine:" + s.Engine)
	}
	out := make([]string, 0, len(set))
	for f := range set {
		out = append(out, f)
	}
	sort.Strings(out)
	return out
}

func dedup(ss []string) []string {
	var out []string
	for i, x := range ss {
		if i == 0 || x != ss[i-1] {
			out = append(out, x)
		}
	}
	return out
}

// ProjFor derives the projection a scenario needs from its features.
func ProjFor(s *Scen, base ProjOpts) ProjOpts {
	p := base
	p.BlankKeys = map[int]map[int]bool{}
	for _, r := range s.Rules {
		for li, l := range r.Links {
			if l.MM {
				p.DedupMD = true
			}
			for _, t := range l.Targets {
				if t.Count {
					if p.BlankKeys[r.ID] == nil {
						p.BlankKeys[r.ID] = map[int]bool{}
					}
					p.BlankKeys[r.ID][li] = true
				}
			}
		}
	}
	return p
}
