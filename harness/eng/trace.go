package eng

import (
	"bytes"
	"encoding/json"
	"fmt"
	"strings"
	"sync"
	"time"

	"github.com/corazawaf/coraza/v3/internal/corazatypes"
	"github.com/corazawaf/coraza/v3/internal/corazawaf"
	"github.com/corazawaf/coraza/v3/types"
	"github.com/corazawaf/coraza/v3/types/variables"
	"github.com/corazawaf/coraza/v3/verifharness/vf"
)

// OpEv is one operator evaluation as logged by the hook in doEvaluate.
type OpEv struct {
	Var string `json:"var"`
	Key Bytes  `json:"key"`
	Val Bytes  `json:"val"`
	M   bool   `json:"m"`
}

// Event is one line of an Engine trace.
type Event struct {
	Ev        string   `json:"ev"`
	Scen      *Scen    `json:"scen,omitempty"`
	P         int      `json:"p,omitempty"`
	What      string   `json:"what,omitempty"`
	Idx       int      `json:"idx,omitempty"`
	Branch    string   `json:"branch,omitempty"`
	Ops       []OpEv   `json:"ops"`
	Skip      int      `json:"skip"`
	SkipAfter string   `json:"skipAfter"`
	Allow     string   `json:"allow"`
	Out       *Outcome `json:"out,omitempty"`
}

type txRec struct {
	events  []Event
	pending []OpEv
	scen    *Scen
}

// countLink reports whether link `level` of the rule with this id only has count targets.
func (t *txRec) countLink(id, parent, level int) bool {
	if t.scen == nil {
		return false
	}
	if id == 0 {
		id = parent
	}
	for i := range t.scen.Rules {
		r := &t.scen.Rules[i]
		if r.ID == id && r.Marker == "" && level < len(r.Links) {
			ts := r.Links[level].Targets
			return len(ts) > 0 && ts[0].Count
		}
	}
	return false
}

// Recorder collects the hook events of the transactions it is attached to.
type Recorder struct {
	mu  sync.Mutex
	txs map[*corazawaf.Transaction]*txRec
}

var (
	recOnce sync.Once
	theRec  *Recorder
)

// GetRecorder installs the verif hooks (once) and returns the process-wide recorder.
func GetRecorder() *Recorder {
	recOnce.Do(func() {
		theRec = &Recorder{txs: map[*corazawaf.Transaction]*txRec{}}
		r := theRec
		corazawaf.VerifPhase = func(tx *corazawaf.Transaction, phase int, what string) {
			rec := r.get(tx)
			if rec == nil {
				return
			}
			e := Event{Ev: "phase", P: phase, What: what}
			if what == "end" {
				e.Skip, e.SkipAfter, e.Allow = tx.Skip, tx.SkipAfter, allowName(tx.AllowType)
			}
			rec.events = append(rec.events, e)
		}
		corazawaf.VerifOp = func(tx *corazawaf.Transaction, ru *corazawaf.Rule, level int, v variables.RuleVariable, key, value string, matched bool) {
			rec := r.get(tx)
			if rec == nil {
				return
			}
			if rec.countLink(ru.ID_, ru.ParentID_, level) {
				key = "" // the key reported for a count target is unspecified
			}
			rec.pending = append(rec.pending, OpEv{Var: v.Name(), Key: Bytes(key), Val: Bytes(value), M: matched})
		}
		corazawaf.VerifRule = func(tx *corazawaf.Transaction, phase int, idx int, _ *corazawaf.Rule, branch string) {
			rec := r.get(tx)
			if rec == nil {
				return
			}
			ops := rec.pending
			if ops == nil {
				ops = []OpEv{}
			}
			rec.pending = nil
			rec.events = append(rec.events, Event{Ev: "rule", P: phase, Idx: idx + 1, Branch: branch, Ops: ops})
		}
	})
	return theRec
}

func allowName(a corazatypes.AllowType) string {
	switch a {
	case corazatypes.AllowTypeUnset:
		return "unset"
	case corazatypes.AllowTypePhase:
		return "phase"
	case corazatypes.AllowTypeRequest:
		return "request"
	case corazatypes.AllowTypeAll:
		return "all"
	}
	return "?"
}

func (r *Recorder) get(tx *corazawaf.Transaction) *txRec {
	r.mu.Lock()
	defer r.mu.Unlock()
	return r.txs[tx]
}

// Attach starts recording the given transaction.
func (r *Recorder) Attach(tx types.Transaction, s *Scen) {
	itx, ok := tx.(*corazawaf.Transaction)
	if !ok {
		return
	}
	r.mu.Lock()
	r.txs[itx] = &txRec{scen: s}
	r.mu.Unlock()
}

// Detach stops recording and returns the events.
func (r *Recorder) Detach(tx types.Transaction) []Event {
	itx, ok := tx.(*corazawaf.Transaction)
	if !ok {
		return nil
	}
	r.mu.Lock()
	defer r.mu.Unlock()
	rec := r.txs[itx]
	delete(r.txs, itx)
	if rec == nil {
		return nil
	}
	return rec.events
}

// NormalizeScen makes every slice non-nil so that the JSON has the shape of the TLA+ value.
func NormalizeScen(s *Scen) {
	if s.Rules == nil {
		s.Rules = []Rule{}
	}
	if s.Req == nil {
		s.Req = []Entry{}
	}
	if s.Dirs == nil {
		s.Dirs = []Dir{}
	}
	for i := range s.Req {
		if s.Req[i].K == nil {
			s.Req[i].K = Bytes{}
		}
		if s.Req[i].V == nil {
			s.Req[i].V = Bytes{}
		}
	}
	normSel := func(x *Sel) {
		if x.K == nil {
			x.K = Bytes{}
		}
		if x.Pat.Lit == nil {
			x.Pat.Lit = Bytes{}
		}
	}
	for ri := range s.Rules {
		r := &s.Rules[ri]
		if r.Links == nil {
			r.Links = []Link{}
		}
		if r.Tags == nil {
			r.Tags = []string{}
		}
		for li := range r.Links {
			l := &r.Links[li]
			if l.Targets == nil {
				l.Targets = []Target{}
			}
			if l.Tfs == nil {
				l.Tfs = []string{}
			}
			if l.Acts == nil {
				l.Acts = []Action{}
			}
			if l.Op.Arg == nil {
				l.Op.Arg = []Part{}
			}
			for pi := range l.Op.Arg {
				if l.Op.Arg[pi].K == nil {
					l.Op.Arg[pi].K = Bytes{}
				}
			}
			for ti := range l.Targets {
				t := &l.Targets[ti]
				normSel(&t.Sel)
				if t.Excl == nil {
					t.Excl = []Sel{}
				}
				for ei := range t.Excl {
					normSel(&t.Excl[ei])
				}
			}
			for ai := range l.Acts {
				a := &l.Acts[ai]
				if len(a.K) == 0 || string(a.K) == "null" {
					a.K = json.RawMessage("[]")
				}
				if len(a.V) == 0 || string(a.V) == "null" {
					a.V = json.RawMessage("[]")
				}
			}
		}
	}
}

func normOutcome(o *Outcome) {
	if o.Fired == nil {
		o.Fired = []int{}
	}
	if o.MD == nil {
		o.MD = [][]Datum{}
	}
	for i := range o.MD {
		if o.MD[i] == nil {
			o.MD[i] = []Datum{}
		}
		for j := range o.MD[i] {
			if o.MD[i][j].Key == nil {
				o.MD[i][j].Key = Bytes{}
			}
			if o.MD[i][j].Val == nil {
				o.MD[i][j].Val = Bytes{}
			}
		}
	}
	if o.TX == nil {
		o.TX = []TxKV{}
	}
	for i := range o.TX {
		if o.TX[i].V == nil {
			o.TX[i].V = Bytes{}
		}
	}
	if o.Intr.Data == nil {
		o.Intr.Data = Bytes{}
	}
	if o.DetIntr.Data == nil {
		o.DetIntr.Data = Bytes{}
	}
}

// RecordRun drives one scenario on the real library with the recorder attached and returns
// the trace of that transaction (starting with its "scen" event).
func RecordRun(s *Scen) ([]Event, Observed) {
	rec := GetRecorder()
	NormalizeScen(s)
	var evs []Event
	obs := Run(s, RunOpts{Hooks: func(tx types.Transaction) {
		rec.Attach(tx, s)
	}, Finish: func(tx types.Transaction, out *Outcome) {
		evs = rec.Detach(tx)
	}})
	if obs.Panic != "" || obs.CompileEr != "" {
		return nil, obs
	}
	out := obs.Out
	blank := ProjFor(s, ProjOpts{}).BlankKeys
	for i := range out.MD {
		if i < len(out.Fired) && blank[out.Fired[i]] != nil {
			for j := range out.MD[i] {
				if blank[out.Fired[i]][out.MD[i][j].Lvl] {
					out.MD[i][j].Key = Bytes{}
				}
			}
		}
	}
	normOutcome(&out)
	all := make([]Event, 0, len(evs)+2)
	all = append(all, Event{Ev: "scen", Scen: s, Ops: []OpEv{}})
	for _, e := range evs {
		if e.Ops == nil {
			e.Ops = []OpEv{}
		}
		all = append(all, e)
	}
	all = append(all, Event{Ev: "done", Out: &out, Ops: []OpEv{}})
	return all, obs
}

// TraceResult is the verdict of TLC on a batch of traces.
type TraceResult struct {
	Accepted   bool
	RejectedAt int    // 1-based index of the first event TLC could not match (0 if accepted)
	Detail     string // the rejected event / TLC error
	TLC        *vf.TLCResult
}

// ValidateTrace checks a batch of events against a trace specification.
func ValidateTrace(module string, events []Event, timeout time.Duration) (*TraceResult, error) {
	var buf bytes.Buffer
	enc := json.NewEncoder(&buf)
	for i := range events {
		if err := enc.Encode(&events[i]); err != nil {
			return nil, err
		}
	}
	return ValidateTraceBytes(module, buf.Bytes(), len(events), timeout)
}

// ValidateTraceBytes runs TLC (single worker, depth-first queue) on an NDJSON trace.
func ValidateTraceBytes(module string, ndjson []byte, n int, timeout time.Duration) (*TraceResult, error) {
	res, err := vf.RunTLC(vf.TLCOpts{
		Module: module, Cfg: module + ".cfg", Workers: 1, Timeout: timeout, DFS: true,
		Files: map[string][]byte{"trace.ndjson": ndjson},
	})
	if err != nil {
		return nil, err
	}
	tr := &TraceResult{TLC: res}
	joined := strings.Join(res.Marks, "\n") + "\n" + strings.Join(res.Tail, "\n")
	if res.OK() {
		tr.Accepted = true
		return tr, nil
	}
	if i := strings.Index(joined, "TRACE_REJECTED_AT"); i >= 0 {
		rest := joined[i:]
		var at int
		fmt.Sscanf(rest, "TRACE_REJECTED_AT\", %d", &at)
		tr.RejectedAt = at
		if j := strings.Index(rest, "\n"); j > 0 {
			rest = rest[:j]
		}
		tr.Detail = rest
		return tr, nil
	}
	if res.Violated != "" {
		tr.Detail = "invariant " + res.Violated + " violated on the recorded execution\n" + res.ErrorText
		tr.RejectedAt = -1
		return tr, nil
	}
	return tr, fmt.Errorf("TLC trace validation did not complete: %s\n%s", res.Describe(), joined)
}
