package eng

import (
	"bytes"
	"encoding/json"
	"reflect"
	"strconv"
	"strings"
	"sync"
	"time"

	"github.com/corazawaf/coraza/v3/experimental/plugins/plugintypes"
	"github.com/corazawaf/coraza/v3/internal/actions"
	"github.com/corazawaf/coraza/v3/internal/corazatypes"
	"github.com/corazawaf/coraza/v3/internal/corazawaf"
	"github.com/corazawaf/coraza/v3/types"
	"github.com/corazawaf/coraza/v3/types/variables"
	"github.com/corazawaf/coraza/v3/verifharness/vf"
)

// Flow traces: the control skeleton of executions over ARBITRARY rule sets (the repository's
// test profiles, the Core Rule Set, generated rules), validated by spec/Flow_Trace.tla.

// FlowAct is one compiled action as Flow.tla sees it.
type FlowAct struct {
	N  string `json:"n"`
	C  string `json:"c"`
	V  string `json:"v"`
	Lo int    `json:"lo"`
	Hi int    `json:"hi"`
}

// FlowLink is one chain link.
type FlowLink struct {
	Op bool      `json:"op"`
	Nd []FlowAct `json:"nd"`
}

// FlowRule is the static description of a rule that the skeleton needs.
type FlowRule struct {
	ID     int        `json:"id"`
	Parent int        `json:"parent"`
	Phase  int        `json:"phase"`
	Mark   string     `json:"mark"`
	Tags   []string   `json:"tags"`
	HasMsg bool       `json:"hasMsg"`
	Msg    string     `json:"msg"`
	Links  []FlowLink `json:"links"`
	Fd     []FlowAct  `json:"fd"`
}

// FlowStep is one operator evaluation or one action execution inside an evaluation.
type FlowStep struct {
	T  string `json:"t"`
	Lv int    `json:"lv"`
	M  bool   `json:"m"`
	N  string `json:"n"`
	K  string `json:"k"`
	r  *corazawaf.Rule
}

// FlowSt is the scalar residual state read back from the transaction.
type FlowSt struct {
	Engine    string `json:"engine"`
	Intr      int    `json:"intr"`
	Det       int    `json:"det"`
	Skip      int    `json:"skip"`
	SkipAfter string `json:"skipAfter"`
	Allow     string `json:"allow"`
}

type flowCfgEv struct {
	Ev     string `json:"ev"`
	Phases []int  `json:"phases"`
}
type flowTxEv struct {
	Ev     string `json:"ev"`
	Engine string `json:"engine"`
}
type flowPhaseEv struct {
	Ev   string `json:"ev"`
	What string `json:"what"`
	P    int    `json:"p"`
	St   FlowSt `json:"st"`
}
type flowCallEv struct {
	Ev   string `json:"ev"`
	Name string `json:"name"`
	St   FlowSt `json:"st"`
}
type flowRuleEv struct {
	Ev      string     `json:"ev"`
	P       int        `json:"p"`
	Idx     int        `json:"idx"`
	Branch  string     `json:"branch"`
	R       *FlowRule  `json:"r"`
	Steps   []FlowStep `json:"steps"`
	Matched bool       `json:"matched"`
	Nmd     int        `json:"nmd"`
	St      FlowSt     `json:"st"`
}

// FlowLine is one recorded event, already serialised, with what a report needs.
type FlowLine struct {
	JSON   json.RawMessage
	Kind   string
	Branch string
	RuleID int
}

type flowTx struct {
	auto    string // label: the trace is collected when the transaction is closed
	lines   []FlowLine
	pending []FlowStep
	matched bool
	nmd     int
}

// FlowRecorder records Flow traces of the transactions attached to it.
type FlowRecorder struct {
	mu    sync.Mutex
	txs   map[*corazawaf.Transaction]*flowTx
	rules map[*corazawaf.Rule]*FlowRule
	ctl   map[int64]string // ctlFn.action code -> option name, learnt from the real parser
	// traces of transactions attached with AttachAuto, collected at their Close
	finished []FlowTrace
}

var (
	flowOnce sync.Once
	theFlow  *FlowRecorder
)

func engineName(e types.RuleEngineStatus) string {
	switch e {
	case types.RuleEngineOn:
		return "On"
	case types.RuleEngineDetectionOnly:
		return "DetectionOnly"
	case types.RuleEngineOff:
		return "Off"
	}
	return "?"
}

func flowState(tx *corazawaf.Transaction) FlowSt {
	s := FlowSt{Engine: engineName(tx.RuleEngine), Intr: -1, Det: -1, Skip: tx.Skip, SkipAfter: tx.SkipAfter, Allow: allowName(tx.AllowType)}
	if it := tx.Interruption(); it != nil {
		s.Intr = it.RuleID
	}
	if it := tx.DetectionOnlyInterruption(); it != nil {
		s.Det = it.RuleID
	}
	return s
}

// unexported scalar field of an action object (reading is allowed by reflect, no unsafe needed)
func fieldOf(fn any, name string) (reflect.Value, bool) {
	v := reflect.ValueOf(fn)
	for v.Kind() == reflect.Ptr || v.Kind() == reflect.Interface {
		if v.IsNil() {
			return reflect.Value{}, false
		}
		v = v.Elem()
	}
	if v.Kind() != reflect.Struct {
		return reflect.Value{}, false
	}
	f := v.FieldByName(name)
	return f, f.IsValid()
}

func (fr *FlowRecorder) learnCtl() {
	fr.ctl = map[int64]string{}
	for _, opt := range []string{"ruleEngine", "ruleRemoveById", "ruleRemoveByTag", "ruleRemoveByMsg"} {
		a, err := actions.Get("ctl")
		if err != nil {
			continue
		}
		arg := opt + "=1"
		if opt == "ruleEngine" {
			arg = opt + "=On"
		}
		if err := a.Init(nil, arg); err != nil {
			continue
		}
		if f, ok := fieldOf(a, "action"); ok {
			fr.ctl[f.Int()] = opt
		}
	}
}

func (fr *FlowRecorder) act(a corazawaf.VerifAction) FlowAct {
	out := FlowAct{N: strings.ToLower(a.Name), Lo: -1, Hi: -1}
	switch out.N {
	case "skip":
		if f, ok := fieldOf(a.Fn, "data"); ok && f.Kind() == reflect.Int {
			out.Lo = int(f.Int())
		}
	case "skipafter":
		if f, ok := fieldOf(a.Fn, "data"); ok && f.Kind() == reflect.String {
			out.V = f.String()
		}
	case "allow":
		if f, ok := fieldOf(a.Fn, "allow"); ok {
			out.V = allowName(corazatypes.AllowType(f.Int()))
		}
	case "ctl":
		f, ok1 := fieldOf(a.Fn, "action")
		v, ok2 := fieldOf(a.Fn, "value")
		if ok1 && ok2 {
			out.C = fr.ctl[f.Int()]
			out.V = v.String()
			if out.C == "ruleRemoveById" {
				// the documented argument: one id, or lo-hi
				if lo, hi, ok := strings.Cut(out.V, "-"); ok {
					l, e1 := strconv.Atoi(lo)
					h, e2 := strconv.Atoi(hi)
					if e1 == nil && e2 == nil && l <= h {
						out.Lo, out.Hi = l, h
					}
				} else if id, err := strconv.Atoi(out.V); err == nil {
					out.Lo, out.Hi = id, id
				}
			}
		}
	}
	return out
}

// describe builds (once per rule) the static description of a rule.
func (fr *FlowRecorder) describe(r *corazawaf.Rule) *FlowRule {
	if d, ok := fr.rules[r]; ok {
		return d
	}
	d := &FlowRule{ID: r.ID_, Parent: r.ParentID_, Phase: int(r.Phase_), Mark: r.SecMark_, Tags: append([]string{}, r.Tags_...), Links: []FlowLink{}, Fd: []FlowAct{}}
	if r.Msg != nil {
		d.HasMsg, d.Msg = true, r.Msg.String()
	}
	for l := r; l != nil; l = l.Chain {
		dump := l.VerifDump()
		link := FlowLink{Op: dump.HasOperator, Nd: []FlowAct{}}
		for _, a := range l.VerifActions() {
			switch plugintypes.ActionType(a.Type) {
			case plugintypes.ActionTypeNondisruptive:
				link.Nd = append(link.Nd, fr.act(a))
			case plugintypes.ActionTypeFlow, plugintypes.ActionTypeDisruptive:
				if l == r {
					d.Fd = append(d.Fd, fr.act(a))
				}
			}
		}
		d.Links = append(d.Links, link)
	}
	fr.rules[r] = d
	return d
}

// GetFlowRecorder installs the hooks (once, on top of the Engine trace recorder's) and returns the recorder.
func GetFlowRecorder() *FlowRecorder {
	flowOnce.Do(func() {
		GetRecorder()
		fr := &FlowRecorder{txs: map[*corazawaf.Transaction]*flowTx{}, rules: map[*corazawaf.Rule]*FlowRule{}}
		fr.learnCtl()
		theFlow = fr
		get := func(tx *corazawaf.Transaction) *flowTx {
			fr.mu.Lock()
			defer fr.mu.Unlock()
			return fr.txs[tx]
		}
		add := func(rec *flowTx, kind, branch string, id int, v any) {
			b, _ := json.Marshal(v)
			rec.lines = append(rec.lines, FlowLine{JSON: b, Kind: kind, Branch: branch, RuleID: id})
		}
		prevPhase, prevOp, prevRule, prevAct, prevMatch, prevCall := corazawaf.VerifPhase, corazawaf.VerifOp, corazawaf.VerifRule, corazawaf.VerifAct, corazawaf.VerifMatch, corazawaf.VerifCall
		corazawaf.VerifPhase = func(tx *corazawaf.Transaction, phase int, what string) {
			if prevPhase != nil {
				prevPhase(tx, phase, what)
			}
			if rec := get(tx); rec != nil {
				add(rec, "phase", what, 0, flowPhaseEv{Ev: "phase", What: what, P: phase, St: flowState(tx)})
			}
		}
		corazawaf.VerifOp = func(tx *corazawaf.Transaction, ru *corazawaf.Rule, level int, v variables.RuleVariable, key, value string, matched bool) {
			if prevOp != nil {
				prevOp(tx, ru, level, v, key, value, matched)
			}
			if rec := get(tx); rec != nil {
				rec.pending = append(rec.pending, FlowStep{T: "op", Lv: level, M: matched})
			}
		}
		corazawaf.VerifAct = func(tx *corazawaf.Transaction, ru *corazawaf.Rule, name string, kind string) {
			if prevAct != nil {
				prevAct(tx, ru, name, kind)
			}
			if rec := get(tx); rec != nil {
				k := "nd"
				if kind == "flowOrDisruptive" {
					k = "fd"
				}
				rec.pending = append(rec.pending, FlowStep{T: "act", N: strings.ToLower(name), K: k, r: ru})
			}
		}
		corazawaf.VerifMatch = func(tx *corazawaf.Transaction, ru *corazawaf.Rule, mds []types.MatchData) {
			if prevMatch != nil {
				prevMatch(tx, ru, mds)
			}
			if rec := get(tx); rec != nil {
				rec.matched, rec.nmd = true, len(mds)
			}
		}
		corazawaf.VerifRule = func(tx *corazawaf.Transaction, phase int, idx int, ru *corazawaf.Rule, branch string) {
			if prevRule != nil {
				prevRule(tx, phase, idx, ru, branch)
			}
			rec := get(tx)
			if rec == nil {
				return
			}
			fr.mu.Lock()
			d := fr.describe(ru)
			fr.mu.Unlock()
			steps := rec.pending
			if steps == nil {
				steps = []FlowStep{}
			}
			// chain level of every action: position of the link it belongs to
			for i := range steps {
				if steps[i].T != "act" {
					continue
				}
				lv := 0
				for l := ru; l != nil && l != steps[i].r; l = l.Chain {
					lv++
				}
				steps[i].Lv = lv
			}
			add(rec, "rule", branch, ru.ID_, flowRuleEv{Ev: "rule", P: phase, Idx: idx + 1, Branch: branch, R: d, Steps: steps, Matched: rec.matched, Nmd: rec.nmd, St: flowState(tx)})
			rec.pending, rec.matched, rec.nmd = nil, false, 0
		}
		corazawaf.VerifCall = func(tx *corazawaf.Transaction, name string) {
			if prevCall != nil {
				prevCall(tx, name)
			}
			rec := get(tx)
			if rec == nil {
				return
			}
			if name != "Close" {
				add(rec, "call", name, 0, flowCallEv{Ev: "call", Name: name, St: flowState(tx)})
				return
			}
			if rec.auto != "" {
				fr.mu.Lock()
				fr.finished = append(fr.finished, FlowTrace{Label: rec.auto, Lines: rec.lines})
				delete(fr.txs, tx)
				fr.mu.Unlock()
			}
		}
	})
	return theFlow
}

// CfgLine is the "cfg" event of the WAF a transaction belongs to.
func (fr *FlowRecorder) CfgLine(tx types.Transaction) (FlowLine, bool) {
	itx, ok := tx.(*corazawaf.Transaction)
	if !ok || itx.WAF == nil {
		return FlowLine{}, false
	}
	rules := itx.WAF.Rules.GetRules()
	ph := make([]int, len(rules))
	for i := range rules {
		ph[i] = int(rules[i].Phase_)
	}
	b, _ := json.Marshal(flowCfgEv{Ev: "cfg", Phases: ph})
	return FlowLine{JSON: b, Kind: "cfg"}, true
}

// Attach starts recording a transaction; the returned lines open its trace (cfg + tx).
func (fr *FlowRecorder) Attach(tx types.Transaction) bool {
	itx, ok := tx.(*corazawaf.Transaction)
	if !ok {
		return false
	}
	rec := &flowTx{}
	if c, ok := fr.CfgLine(tx); ok {
		rec.lines = append(rec.lines, c)
	}
	b, _ := json.Marshal(flowTxEv{Ev: "tx", Engine: engineName(itx.RuleEngine)})
	rec.lines = append(rec.lines, FlowLine{JSON: b, Kind: "tx"})
	fr.mu.Lock()
	fr.txs[itx] = rec
	fr.mu.Unlock()
	return true
}

// Detach stops recording and returns the trace of the transaction.
func (fr *FlowRecorder) Detach(tx types.Transaction) []FlowLine {
	itx, ok := tx.(*corazawaf.Transaction)
	if !ok {
		return nil
	}
	fr.mu.Lock()
	defer fr.mu.Unlock()
	rec := fr.txs[itx]
	delete(fr.txs, itx)
	if rec == nil {
		return nil
	}
	return rec.lines
}

// ForgetRules drops the cached rule descriptions (call when a WAF is discarded).
func (fr *FlowRecorder) ForgetRules() {
	fr.mu.Lock()
	fr.rules = map[*corazawaf.Rule]*FlowRule{}
	fr.mu.Unlock()
}

// FlowTrace is the recorded trace of one transaction with a label for reports.
type FlowTrace struct {
	Label string
	Lines []FlowLine
}

// ValidateFlow lets TLC check a batch of Flow traces against Flow_Trace.tla.
func ValidateFlow(traces []FlowTrace, timeout time.Duration) (*TraceResult, error) {
	var buf bytes.Buffer
	n := 0
	for _, t := range traces {
		for _, l := range t.Lines {
			buf.Write(l.JSON)
			buf.WriteByte('\n')
			n++
		}
	}
	return ValidateTraceBytes("Flow_Trace", buf.Bytes(), n, timeout)
}

// ValidateFlowBatches validates traces in batches and bisects a rejected batch down to one
// transaction; it returns the rejected ones with TLC's detail.
func ValidateFlowBatches(run *vf.Run, traces []FlowTrace, batchEvents int) (rejected []FlowTrace, details []string, at []int, ok bool) {
	ok = true
	var validate func(items []FlowTrace)
	validate = func(items []FlowTrace) {
		if !ok || len(items) == 0 {
			return
		}
		tr, err := ValidateFlow(items, 15*time.Minute)
		if err != nil {
			run.Inconclusive("flow trace validation: %v", err)
			ok = false
			return
		}
		run.AddTLC(tr.TLC)
		if tr.Accepted {
			run.TraceValidated(len(items))
			return
		}
		if len(items) == 1 {
			rejected = append(rejected, items[0])
			details = append(details, tr.Detail)
			at = append(at, tr.RejectedAt)
			return
		}
		validate(items[:len(items)/2])
		validate(items[len(items)/2:])
	}
	var batch []FlowTrace
	size := 0
	for _, t := range traces {
		batch = append(batch, t)
		size += len(t.Lines)
		if size >= batchEvents {
			validate(batch)
			batch, size = nil, 0
		}
	}
	validate(batch)
	return
}

// AttachAuto starts recording a transaction whose end the caller does not see (it is created and closed
// by a connector): the trace is collected when the transaction is closed.
func (fr *FlowRecorder) AttachAuto(tx types.Transaction, label string) {
	if !fr.Attach(tx) {
		return
	}
	itx := tx.(*corazawaf.Transaction)
	fr.mu.Lock()
	if rec := fr.txs[itx]; rec != nil {
		rec.auto = label
	}
	fr.mu.Unlock()
}

// TakeFinished returns (and forgets) the traces collected so far by AttachAuto.
func (fr *FlowRecorder) TakeFinished() []FlowTrace {
	fr.mu.Lock()
	defer fr.mu.Unlock()
	out := fr.finished
	fr.finished = nil
	return out
}
