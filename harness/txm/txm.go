// Package txm binds spec/Tx.tla (the Transaction API state machine with body buffers) to the
// real library: it replays the edges TLC emits (witness path + call) on a real transaction and
// compares the returned interruption, the byte count and the projected state.
package txm

import (
	"bytes"
	"encoding/json"
	"fmt"
	"io"
	"sort"
	"strings"
	"time"

	coraza "github.com/corazawaf/coraza/v3"
	"github.com/corazawaf/coraza/v3/internal/corazawaf"
	"github.com/corazawaf/coraza/v3/types"
	"github.com/corazawaf/coraza/v3/verifharness/eng"
)

type Side struct {
	Access bool   `json:"access"`
	Limit  int    `json:"limit"`
	Mem    int    `json:"mem"`
	Action string `json:"action"`
}

type Disrupt struct {
	K string `json:"k"`
	P int    `json:"p"`
	Q int    `json:"q"`
}

type Cfg struct {
	Engine string     `json:"engine"`
	Rules  []eng.Rule `json:"rules"`
	Req    Side       `json:"req"`
	Resp   Side       `json:"resp"`
	D      Disrupt    `json:"d"`
}

type Call struct {
	Name string `json:"name"`
	K    int    `json:"k"`
	Mode string `json:"mode"`
}

// Post mirrors Tx_MC!Proj.
type Post struct {
	LastPhase  int      `json:"lastPhase"`
	Fired      []int    `json:"fired"`
	Intr       eng.Intr `json:"intr"`
	DetIntr    eng.Intr `json:"detIntr"`
	Engine     string   `json:"engine"`
	ReqStored  int      `json:"reqStored"`
	RespStored int      `json:"respStored"`
	ReqErr     bool     `json:"reqErr"`
	RespErr    bool     `json:"respErr"`
	ReqBodyVar []int    `json:"reqBodyVar"`
}

// Edge is one transition printed by Tx_MC.
type Edge struct {
	Cfg  Cfg      `json:"cfg"`
	Path []Call   `json:"path"`
	Ret  eng.Intr `json:"ret"`
	N    int      `json:"n"`
	Post Post     `json:"post"`
}

// Scale multiplies every size of the model (limits, chunk sizes) so that the same behaviours
// cross the internal chunk sizes of io.CopyN / bytes.Buffer in the thorough tier.
type Scale int

// Directives renders the configuration.
func Directives(c *Cfg, sc Scale, tmpDir string) string {
	var sb strings.Builder
	onoff := func(b bool) string {
		if b {
			return "On"
		}
		return "Off"
	}
	fmt.Fprintf(&sb, "SecRequestBodyAccess %s\n", onoff(c.Req.Access))
	fmt.Fprintf(&sb, "SecRequestBodyLimit %d\n", c.Req.Limit*int(sc))
	fmt.Fprintf(&sb, "SecRequestBodyInMemoryLimit %d\n", c.Req.Mem*int(sc))
	fmt.Fprintf(&sb, "SecRequestBodyLimitAction %s\n", c.Req.Action)
	fmt.Fprintf(&sb, "SecResponseBodyAccess %s\n", onoff(c.Resp.Access))
	fmt.Fprintf(&sb, "SecResponseBodyLimit %d\n", c.Resp.Limit*int(sc))
	fmt.Fprintf(&sb, "SecResponseBodyLimitAction %s\n", c.Resp.Action)
	sb.WriteString("SecResponseBodyMimeType text/plain\n")
	if tmpDir != "" {
		fmt.Fprintf(&sb, "SecTmpDir %s\n", tmpDir)
	}
	s := eng.Scen{Rules: c.Rules, Engine: c.Engine}
	sb.WriteString(eng.Render(&s))
	return sb.String()
}

// ByteAt is the content of position j (1-based) of a supplied body stream.
func ByteAt(j int) byte { return byte('a' + (j-1)%26) }

func chunk(from, k int) []byte {
	b := make([]byte, k)
	for i := range b {
		b[i] = ByteAt(from + i + 1)
	}
	return b
}

// partlyRead returns a reader of known remaining length (Len) whose total size (Size) is larger: the caller
// has already consumed a few bytes of it. What is offered to the transaction is exactly b.
func partlyRead(b []byte) *bytes.Reader {
	r := bytes.NewReader(append([]byte("#####"), b...))
	_, _ = r.Read(make([]byte, 5))
	return r
}

type lenlessReader struct{ r io.Reader }

func (l lenlessReader) Read(p []byte) (int, error) { return l.r.Read(p) }

// Obs is what the real transaction showed after the last call of a path.
type Obs struct {
	Ret        eng.Intr
	N          int
	Err        string
	Post       Post
	ReqBytes   []byte
	RespBytes  []byte
	ReqVar     string
	Panic      string
	CompileErr string
	Text       string
}

// Driver holds one real transaction driven call by call.
type Driver struct {
	tx       types.Transaction
	itx      *corazawaf.Transaction
	sc       Scale
	reqSup   int
	respSup  int
	loggedPL bool
	// a reader obtained after the first successful write of each side and kept while more bytes arrive:
	// what it delivers in the end must be what a fresh reader delivers
	heldReq, heldResp       io.Reader
	heldReqGot, heldRespGot []byte
}

// NewDriver compiles the configuration and starts a transaction.
func NewDriver(w coraza.WAF, sc Scale) *Driver {
	tx := w.NewTransaction()
	d := &Driver{tx: tx, sc: sc}
	d.itx, _ = tx.(*corazawaf.Transaction)
	tx.ProcessConnection("10.0.0.1", 1234, "10.0.0.2", 80)
	tx.ProcessURI("/", "POST", "HTTP/1.1")
	tx.AddRequestHeader("Host", "h")
	tx.AddRequestHeader("Content-Type", "application/x-www-form-urlencoded")
	tx.AddResponseHeader("Content-Type", "text/plain")
	return d
}

func toIntr(it *types.Interruption) eng.Intr {
	if it == nil {
		return eng.Intr{Action: "none"}
	}
	return eng.Intr{ID: it.RuleID, Action: it.Action, Status: it.Status, Data: eng.Bytes(it.Data)}
}

// Do performs one call and returns (interruption returned, bytes taken, error text).
func (d *Driver) Do(c Call) (eng.Intr, int, string) {
	var it *types.Interruption
	var n int
	var err error
	k := c.K * int(d.sc)
	switch c.Name {
	case "PRH":
		it = d.tx.ProcessRequestHeaders()
	case "PRB":
		it, err = d.tx.ProcessRequestBody()
	case "PRSH":
		it = d.tx.ProcessResponseHeaders(200, "HTTP/1.1")
	case "PRSB":
		it, err = d.tx.ProcessResponseBody()
	case "PL":
		d.tx.ProcessLogging()
	case "WREQ":
		b := chunk(d.reqSup, k)
		d.reqSup += k
		switch c.Mode {
		case "slice":
			it, n, err = d.tx.WriteRequestBody(b)
		case "known":
			it, n, err = d.tx.ReadRequestBodyFrom(partlyRead(b))
		default:
			it, n, err = d.tx.ReadRequestBodyFrom(lenlessReader{bytes.NewReader(b)})
		}
	case "WRESP":
		b := chunk(d.respSup, k)
		d.respSup += k
		switch c.Mode {
		case "slice":
			it, n, err = d.tx.WriteResponseBody(b)
		case "known":
			it, n, err = d.tx.ReadResponseBodyFrom(partlyRead(b))
		default:
			it, n, err = d.tx.ReadResponseBodyFrom(lenlessReader{bytes.NewReader(b)})
		}
	}
	es := ""
	if err != nil {
		es = err.Error()
	}
	if d.itx != nil && it == nil && err == nil {
		hold := func(get func() (io.Reader, error), held *io.Reader, got *[]byte) {
			if *held != nil {
				return
			}
			r, e := get()
			if e != nil || r == nil {
				return
			}
			one := make([]byte, 1)
			if k, _ := r.Read(one); k == 1 { // the reader is in use from now on
				*held, *got = r, append(*got, one[0])
			}
		}
		switch c.Name {
		case "WREQ":
			hold(d.itx.RequestBodyReader, &d.heldReq, &d.heldReqGot)
		case "WRESP":
			hold(d.itx.ResponseBodyReader, &d.heldResp, &d.heldRespGot)
		}
	}
	return toIntr(it), n, es
}

// Project reads the state of the real transaction.
func (d *Driver) Project() (Post, []byte, []byte, string) {
	var p Post
	p.Fired = []int{}
	for _, mr := range d.tx.MatchedRules() {
		p.Fired = append(p.Fired, mr.Rule().ID())
	}
	p.Intr = toIntr(d.tx.Interruption())
	p.DetIntr = eng.Intr{Action: "none"}
	var reqB, respB []byte
	reqVar := ""
	if d.itx != nil {
		p.LastPhase = int(d.itx.LastPhase())
		p.DetIntr = toIntr(d.itx.DetectionOnlyInterruption())
		switch d.itx.RuleEngine {
		case types.RuleEngineOn:
			p.Engine = "On"
		case types.RuleEngineDetectionOnly:
			p.Engine = "DetectionOnly"
		case types.RuleEngineOff:
			p.Engine = "Off"
		}
		reqB = readEveryWay(d.itx.RequestBodyReader)
		respB = readEveryWay(d.itx.ResponseBodyReader)
		// the reader that was handed out early and kept: drained now, it has delivered the stored bytes
		drain := func(held io.Reader, got []byte, stored []byte) []byte {
			if held == nil {
				return stored
			}
			rest, _ := io.ReadAll(held)
			all := append(append([]byte{}, got...), rest...)
			if bytes.Equal(all, stored) {
				return stored
			}
			if len(all) == len(stored) {
				return append(all, 0)
			}
			return all
		}
		reqB = drain(d.heldReq, d.heldReqGot, reqB)
		respB = drain(d.heldResp, d.heldRespGot, respB)
		d.heldReq, d.heldResp = nil, nil
		v := d.itx.Variables()
		p.ReqErr = v.InboundDataError().Get() == "1"
		p.RespErr = v.OutboundDataError().Get() == "1"
		reqVar = v.RequestBody().Get()
	}
	p.ReqStored = len(reqB)
	p.RespStored = len(respB)
	return p, reqB, respB, reqVar
}

// ProjectLite reads the cheap scalar state of the real transaction without touching its body readers
// (used between the calls of a traced path).
func (d *Driver) ProjectLite() Post {
	var p Post
	p.Fired = []int{}
	for _, mr := range d.tx.MatchedRules() {
		p.Fired = append(p.Fired, mr.Rule().ID())
	}
	p.Intr = toIntr(d.tx.Interruption())
	p.DetIntr = eng.Intr{Action: "none"}
	if d.itx != nil {
		p.LastPhase = int(d.itx.LastPhase())
		p.DetIntr = toIntr(d.itx.DetectionOnlyInterruption())
		switch d.itx.RuleEngine {
		case types.RuleEngineOn:
			p.Engine = "On"
		case types.RuleEngineDetectionOnly:
			p.Engine = "DetectionOnly"
		case types.RuleEngineOff:
			p.Engine = "Off"
		}
		f := d.itx.VerifSnapshotFields()
		if n, ok := f["requestBodyBuffer.length"].(int64); ok {
			p.ReqStored = int(n)
		}
		if n, ok := f["responseBodyBuffer.length"].(int64); ok {
			p.RespStored = int(n)
		}
		v := d.itx.Variables()
		p.ReqErr = v.InboundDataError().Get() == "1"
		p.RespErr = v.OutboundDataError().Get() == "1"
	}
	return p
}

func (d *Driver) Close() { _ = d.tx.Close() }

// RunPath drives a whole path on a fresh WAF built from cfg and reports the result of the last call.
func RunPath(c *Cfg, path []Call, sc Scale, tmpDir string) (obs Obs) {
	obs.Text = Directives(c, sc, tmpDir)
	w, err, p := eng.Compile(obs.Text)
	if p != "" {
		obs.Panic = "NewWAF: " + p
		return
	}
	if err != nil {
		obs.CompileErr = err.Error()
		return
	}
	defer func() {
		if cl, ok := w.(interface{ Close() error }); ok {
			_ = cl.Close()
		}
	}()
	done := make(chan struct{})
	go func() {
		defer close(done)
		defer func() {
			if r := recover(); r != nil {
				obs.Panic = fmt.Sprint(r)
			}
		}()
		d := NewDriver(w, sc)
		defer d.Close()
		for _, c := range path {
			obs.Ret, obs.N, obs.Err = d.Do(c)
		}
		obs.Post, obs.ReqBytes, obs.RespBytes, obs.ReqVar = d.Project()
	}()
	select {
	case <-done:
	case <-time.After(30 * time.Second):
		obs.Panic = "watchdog: path did not finish within 30s"
	}
	return
}

func intrEq(a, b eng.Intr) bool {
	return a.ID == b.ID && a.Action == b.Action && a.Status == b.Status && string(a.Data) == string(b.Data)
}

// Compare checks the observation against one specified edge; returns "" if it conforms,
// otherwise the name of the first component that differs.
func Compare(e *Edge, o *Obs, sc Scale) string {
	if !intrEq(e.Ret, o.Ret) {
		return "returned-interruption"
	}
	// the byte count returned together with a refusal is not specified
	refusal := e.Ret.ID == 0 && e.Ret.Action == "deny" && (e.Ret.Status == 413 || e.Ret.Status == 500)
	if e.Ret.Action != "none" && (e.Post.ReqErr || e.Post.RespErr) {
		refusal = true // a write refused at the limit while an earlier interruption is the one reported
	}
	if !refusal && e.N*int(sc) != o.N {
		return "bytes-taken"
	}
	p, q := &e.Post, &o.Post
	if !intrEq(p.Intr, q.Intr) {
		return "recorded-interruption"
	}
	if !intrEq(p.DetIntr, q.DetIntr) {
		return "detection-only-interruption"
	}
	if fmt.Sprint(p.Fired) != fmt.Sprint(q.Fired) {
		return "fired-rules"
	}
	if p.LastPhase != q.LastPhase {
		return "last-phase"
	}
	if p.Engine != q.Engine {
		return "engine"
	}
	if p.ReqStored*int(sc) != q.ReqStored {
		return "request-bytes-stored"
	}
	if p.RespStored*int(sc) != q.RespStored {
		return "response-bytes-stored"
	}
	if p.ReqErr != q.ReqErr {
		return "INBOUND_DATA_ERROR"
	}
	if p.RespErr != q.RespErr {
		return "OUTBOUND_DATA_ERROR"
	}
	// REQUEST_BODY as seen by the body phase: the specified prefix of the supplied stream
	if len(p.ReqBodyVar) == 1 && p.ReqBodyVar[0] == -1 {
		if o.ReqVar != "" {
			return "REQUEST_BODY-set-but-body-phase-saw-no-body"
		}
	} else if strings.HasPrefix(e.Cfg.D.K, "ctlRe") {
		// body access switched by ctl: bytes offered before the switch are not buffered, so only the length is specified
		if len(o.ReqVar) != len(p.ReqBodyVar)*int(sc) {
			return "REQUEST_BODY-length"
		}
	} else {
		want := make([]byte, len(p.ReqBodyVar)*int(sc))
		for i := range want {
			want[i] = ByteAt(i + 1)
		}
		if o.ReqVar != string(want) {
			return "REQUEST_BODY-content"
		}
	}
	return ""
}

// CheckBytes verifies that what the body readers return is a prefix of the supplied stream
// (only meaningful while no write was refused).
func CheckBytes(b []byte) bool {
	for i, c := range b {
		if c != ByteAt(i+1) {
			return false
		}
	}
	return true
}

// PathKey identifies a (configuration, path) pair.
func PathKey(e *Edge) string {
	c, _ := json.Marshal(e.Cfg)
	p, _ := json.Marshal(e.Path)
	return string(c) + "\x00" + string(p)
}

// Features of an edge for signatures.
func Features(e *Edge) []string {
	set := map[string]bool{"engine:" + e.Cfg.Engine: true}
	if e.Cfg.D.K != "none" {
		set[e.Cfg.D.K] = true
	}
	if e.Cfg.D.Q != 0 {
		set["deny2"] = true
	}
	lastName := ""
	if len(e.Path) > 0 {
		lastName = e.Path[len(e.Path)-1].Name
	}
	if lastName != "WRESP" {
		set["req:"+e.Cfg.Req.Action] = true
		if !e.Cfg.Req.Access {
			set["reqAccessOff"] = true
		}
	}
	if lastName != "WREQ" {
		set["resp:"+e.Cfg.Resp.Action] = true
		if !e.Cfg.Resp.Access {
			set["respAccessOff"] = true
		}
	}
	if len(e.Path) > 0 {
		c := e.Path[len(e.Path)-1]
		n := c.Name
		if c.Mode != "" {
			n += ":" + c.Mode
		}
		set["lastcall:"+n] = true
	}
	var out []string
	for f := range set {
		out = append(out, f)
	}
	sort.Strings(out)
	return out
}

// readEveryWay reads a body back through fresh readers in every manner a caller may use - all at once,
// in small reads, one byte and then io.Copy of the rest (which uses the reader's WriteTo when it has
// one), io.Copy alone, a short read followed by ReadAll - and returns the content. The manners must
// agree (the bytes read back are the bytes stored, however they are read); if one does not, its
// content is returned so that the comparison with the specification reports it.
func readEveryWay(get func() (io.Reader, error)) []byte {
	r, err := get()
	if err != nil {
		return nil
	}
	all, _ := io.ReadAll(r)
	manners := []func(io.Reader) []byte{
		func(r io.Reader) []byte { // small reads
			var out []byte
			buf := make([]byte, 3)
			for {
				n, err := r.Read(buf)
				out = append(out, buf[:n]...)
				if err != nil {
					return out
				}
			}
		},
		func(r io.Reader) []byte { // one byte, then io.Copy
			one := make([]byte, 1)
			n, _ := r.Read(one)
			var rest bytes.Buffer
			_, _ = io.Copy(&rest, r)
			return append(one[:n:n], rest.Bytes()...)
		},
		func(r io.Reader) []byte { // io.Copy alone
			var b bytes.Buffer
			_, _ = io.Copy(&b, r)
			return b.Bytes()
		},
		func(r io.Reader) []byte { // half of it, then the rest at once
			half := make([]byte, (len(all)+1)/2)
			n, _ := io.ReadFull(r, half)
			rest, _ := io.ReadAll(r)
			return append(half[:n:n], rest...)
		},
	}
	for _, m := range manners {
		r2, err := get()
		if err != nil {
			return all
		}
		if got := m(r2); !bytes.Equal(got, all) {
			if len(got) == len(all) {
				// same length, different bytes: make the difference visible to a length-only comparison too
				return append(got, 0)
			}
			return got
		}
	}
	return all
}
