package txm

import (
	"bytes"
	"encoding/json"
	"fmt"
	"math/rand"
	"os"
	"runtime"
	"sort"
	"strings"
	"sync"
	"time"

	"github.com/corazawaf/coraza/v3/verifharness/eng"
	"github.com/corazawaf/coraza/v3/verifharness/vf"
)

// MCOpts configures one Tx_MC run.
type MCOpts struct {
	Name         string
	Engines      string
	ReqLimits    string
	Ks           string
	Modes        string
	DisruptKinds string
	Phases2      string
	Qs           string // phases of the optional second deny (0 = none)
	ReqShapes    string // set of <<access, action>>
	RespShapes   string
	CallNames    string
	Emit         bool
	Invariants   string
	Workers      int
	Timeout      time.Duration
	Scales       []Scale
	// Relevant decides which component mismatches belong to the property being checked
	// ("" = all). Mismatches of other components are reported by the sibling property's check.
	Relevant func(component string) bool
}

func (o MCOpts) cfg() string {
	emit := "FALSE"
	if o.Emit {
		emit = "TRUE"
	}
	calls := o.CallNames
	if calls == "" {
		calls = `{"PRH", "PRB", "PRSH", "PRSB", "PL", "WREQ", "WRESP"}`
	}
	allShapes := `{"on/Reject", "on/ProcessPartial", "off/Reject", "off/ProcessPartial"}`
	qs, reqS, respS := o.Qs, o.ReqShapes, o.RespShapes
	if qs == "" {
		qs = "{0}"
	}
	if reqS == "" {
		reqS = allShapes
	}
	if respS == "" {
		respS = allShapes
	}
	view := "View"
	if o.Emit {
		view = "ViewNoLast"
	}
	inv := o.Invariants
	if o.Emit {
		inv = "AtMostOnce Faithful"
	}
	if inv == "" {
		inv = "AtMostOnce SameInterruptionReported DetectionOnlySilent OffEvaluatesNothing Faithful RejectExact PartialExact BodyVarIsStoredPrefix"
	}
	return fmt.Sprintf(`SPECIFICATION Spec
CONSTANTS
  Engines = %s
  ReqLimits = %s
  Ks = %s
  Modes = %s
  DisruptKinds = %s
  Phases2 = %s
  Qs = %s
  ReqShapes = %s
  RespShapes = %s
  EmitEdges = %s
  CallNames = %s
  Slice = 0
  Slices = 1
INVARIANTS %s
PROPERTIES InterruptFinalMC NothingAfterInterruptMC
CHECK_DEADLOCK FALSE
VIEW %s
`, o.Engines, o.ReqLimits, o.Ks, o.Modes, o.DisruptKinds, o.Phases2, qs, reqS, respS, emit, calls, inv, view)
}

// ModelCheck runs Tx_MC without emission: the design-level invariants over the whole state graph.
func ModelCheck(run *vf.Run, o MCOpts) bool {
	o.Emit = false
	res, err := vf.RunTLC(vf.TLCOpts{Module: "Tx_MC", CfgText: o.cfg(), Workers: o.Workers, Timeout: o.Timeout, HeapMB: 16384})
	if err != nil {
		run.Inconclusive("Tx_MC %s: %v", o.Name, err)
		return false
	}
	run.AddTLC(res)
	run.Logf("Tx_MC %s (invariants over the full state graph): %s", o.Name, res.Describe())
	run.Extra["tx_mc_"+o.Name] = res.Describe()
	if res.Violated != "" {
		run.Inconclusive("Tx_MC %s: specification invariant %s violated in TLC (a defect of the model, not a verdict on the code):\n%s", o.Name, res.Violated, res.ErrorText)
		return false
	}
	if !res.OK() {
		run.Inconclusive("Tx_MC %s: TLC did not complete: %s\n%s", o.Name, res.Describe(), strings.Join(res.Tail, "\n"))
		return false
	}
	return true
}

type edgeGroup struct {
	first   *Edge
	allowed []*Edge
}

// ReplayEdges runs Tx_MC with edge emission and replays every (witness path + call) on the real
// library, comparing with the specified successor(s).
func ReplayEdges(run *vf.Run, o MCOpts) {
	o.Emit = true
	groups := map[string]*edgeGroup{}
	var mu sync.Mutex
	var decErr error
	res, err := vf.RunTLC(vf.TLCOpts{Module: "Tx_MC", CfgText: o.cfg(), Workers: o.Workers, Timeout: o.Timeout, HeapMB: 16384,
		OnOut: func(raw json.RawMessage) {
			var e Edge
			if err := json.Unmarshal(raw, &e); err != nil {
				mu.Lock()
				if decErr == nil {
					decErr = fmt.Errorf("decoding edge: %v in %.200s", err, raw)
				}
				mu.Unlock()
				return
			}
			k := PathKey(&e)
			mu.Lock()
			g := groups[k]
			if g == nil {
				g = &edgeGroup{first: &e}
				groups[k] = g
			}
			g.allowed = append(g.allowed, &e)
			mu.Unlock()
		}})
	if err != nil || decErr != nil {
		run.Inconclusive("Tx_MC %s: %v %v", o.Name, err, decErr)
		return
	}
	run.AddTLC(res)
	run.Logf("Tx_MC %s (edge emission): %s; %d distinct (configuration, path) pairs", o.Name, res.Describe(), len(groups))
	if res.Violated != "" || !res.OK() {
		run.Inconclusive("Tx_MC %s: TLC did not complete cleanly: %s\n%s", o.Name, res.Describe(), res.ErrorText)
		return
	}
	keys := make([]string, 0, len(groups))
	for k := range groups {
		keys = append(keys, k)
	}
	sort.Strings(keys)
	tmp, _ := os.MkdirTemp("", "verif-txtmp-")
	defer os.RemoveAll(tmp)
	scales := o.Scales
	if len(scales) == 0 {
		scales = []Scale{1}
	}
	type fail struct {
		comp string
		e    *Edge
		o    Obs
		sc   Scale
	}
	var fails []fail
	var wg sync.WaitGroup
	sem := make(chan struct{}, runtime.NumCPU())
	for idx, k := range keys {
		g := groups[k]
		wg.Add(1)
		sem <- struct{}{}
		go func(idx int, g *edgeGroup) {
			defer wg.Done()
			defer func() { <-sem }()
			for _, sc := range scales {
				obs := RunPath(&g.first.Cfg, g.first.Path, sc, tmp)
				comp := ""
				switch {
				case obs.Panic != "":
					comp = "panic"
				case obs.CompileErr != "":
					comp = "compile-error"
				default:
					comp = "?"
					for _, e := range g.allowed {
						c := Compare(e, &obs, sc)
						if c == "" {
							comp = ""
							break
						}
						if comp == "?" {
							comp = c
						}
					}
					if comp == "" && !refusedSomewhere(g.first) && !strings.HasPrefix(g.first.Cfg.D.K, "ctlRe") {
						if !CheckBytes(obs.ReqBytes) {
							comp = "request-reader-content"
						} else if !CheckBytes(obs.RespBytes) {
							comp = "response-reader-content"
						}
					}
				}
				if comp != "" && (o.Relevant == nil || o.Relevant(comp)) {
					mu.Lock()
					fails = append(fails, fail{comp, g.first, obs, sc})
					mu.Unlock()
					break
				}
			}
			nt := ""
			if len(g.first.Post.Fired) > 0 || g.first.Post.ReqStored > 0 || g.first.Post.RespStored > 0 {
				nt = k
			}
			run.Eval(nt)
			if idx%2003 == 0 {
				run.Sample(map[string]any{"family": "tx-edges " + o.Name, "directives": Directives(&g.first.Cfg, 1, ""), "calls": g.first.Path,
					"spec_return": g.first.Ret, "spec_bytes_taken": g.first.N, "spec_post": g.first.Post})
			}
		}(idx, g)
	}
	wg.Wait()
	// one violation per (component, minimal feature set)
	sort.Slice(fails, func(i, j int) bool {
		if len(fails[i].e.Path) != len(fails[j].e.Path) {
			return len(fails[i].e.Path) < len(fails[j].e.Path)
		}
		fi, fj := Features(fails[i].e), Features(fails[j].e)
		if len(fi) != len(fj) {
			return len(fi) < len(fj)
		}
		return strings.Join(fi, "+") < strings.Join(fj, "+")
	})
	byComp := map[string][]fail{}
	for _, f := range fails {
		byComp[f.comp] = append(byComp[f.comp], f)
	}
	for comp, fs := range byComp {
		var minimal [][]string
		for _, f := range fs {
			ft := Features(f.e)
			sub := false
			for _, m := range minimal {
				if subset(m, ft) {
					sub = true
					break
				}
			}
			if sub {
				continue
			}
			minimal = append(minimal, ft)
			var calls []string
			for _, c := range f.e.Path {
				if c.Mode != "" {
					calls = append(calls, fmt.Sprintf("%s(%d,%s)", c.Name, c.K, c.Mode))
				} else {
					calls = append(calls, c.Name)
				}
			}
			run.Violate(vf.Violation{Signature: "tx:" + comp + "|" + strings.Join(ft, "+"),
				What: fmt.Sprintf("%s differs from Tx.tla (%d failing paths of this kind) after calls %s (sizes x%d) || config: %s || observed ret=%+v n=%d post=%+v reqVar=%q err=%q panic=%q || specified ret=%+v n=%d post=%+v",
					comp, len(fs), strings.Join(calls, " "), f.sc, strings.ReplaceAll(f.o.Text, "\n", " ; "), f.o.Ret, f.o.N, f.o.Post, f.o.ReqVar, f.o.Err, f.o.Panic, f.e.Ret, f.e.N, f.e.Post),
				Replay: map[string]any{"family": "tx", "cfg": f.e.Cfg, "path": f.e.Path, "scale": f.sc, "specified": f.e, "observed": f.o}})
		}
	}
}

func refusedSomewhere(e *Edge) bool {
	// after a refused write (Reject) the buffer content is unspecified (Choice_AfterRefusal)
	return e.Post.ReqErr && e.Cfg.Req.Action == "Reject" || e.Post.RespErr && e.Cfg.Resp.Action == "Reject"
}

func subset(a, b []string) bool {
	have := map[string]bool{}
	for _, x := range b {
		have[x] = true
	}
	for _, x := range a {
		if !have[x] {
			return false
		}
	}
	return true
}

// ---------------------------------------------------------------------------------------------
// Code -> spec: call logs of real transactions validated against Tx.tla (spec/Tx_Trace.tla)
// ---------------------------------------------------------------------------------------------

// CollectCfgs asks TLC for the configurations of an instance (with the rule lists RulesOf gives them).
func CollectCfgs(run *vf.Run, o MCOpts) []Cfg {
	o.Emit = true
	o.CallNames = `{"PL"}`
	seen := map[string]bool{}
	var out []Cfg
	var mu sync.Mutex
	res, err := vf.RunTLC(vf.TLCOpts{Module: "Tx_MC", CfgText: o.cfg(), Workers: 4, Timeout: o.Timeout,
		OnOut: func(raw json.RawMessage) {
			var e Edge
			if json.Unmarshal(raw, &e) == nil {
				b, _ := json.Marshal(e.Cfg)
				mu.Lock()
				if !seen[string(b)] {
					seen[string(b)] = true
					out = append(out, e.Cfg)
				}
				mu.Unlock()
			}
		}})
	if err != nil || !res.OK() {
		run.Inconclusive("Tx_MC %s (configurations): %v %v", o.Name, err, res)
		return nil
	}
	sort.Slice(out, func(i, j int) bool { return fmt.Sprint(out[i]) < fmt.Sprint(out[j]) })
	return out
}

type traceEv struct {
	Ev   string `json:"ev"`
	Name string `json:"name,omitempty"`
	// cfg
	Engine string `json:"engine,omitempty"`
	K      any    `json:"k"`
	P      int    `json:"p"`
	Q      int    `json:"q"`
	Req    *Side  `json:"req,omitempty"`
	Resp   *Side  `json:"resp,omitempty"`
	// call
	Mode       string    `json:"mode"`
	Ret        *eng.Intr `json:"ret,omitempty"`
	LastPhase  int       `json:"lastPhase"`
	Fired      []int     `json:"fired"`
	Intr       *eng.Intr `json:"intr,omitempty"`
	Det        *eng.Intr `json:"det,omitempty"`
	ReqStored  int       `json:"reqStored"`
	RespStored int       `json:"respStored"`
	ReqErr     bool      `json:"reqErr"`
	RespErr    bool      `json:"respErr"`
}

// TraceTx drives random call sequences on real transactions over the given configurations, records one
// event per call and has TLC check the whole log against Tx.tla. corrupt != 0 falsifies one recorded
// field (binding self-test: the log must then be rejected).
func TraceTx(run *vf.Run, cfgs []Cfg, perCfg, maxLen int, seed int64, corrupt int) (accepted bool, events int, detail string) {
	rng := rand.New(rand.NewSource(seed))
	var lines [][]byte
	calls := []Call{{Name: "PRH"}, {Name: "PRB"}, {Name: "PRSH"}, {Name: "PRSB"}, {Name: "PL"}}
	for _, k := range []int{1, 3} {
		for _, m := range []string{"slice", "known", "unknown"} {
			calls = append(calls, Call{Name: "WREQ", K: k, Mode: m}, Call{Name: "WRESP", K: k, Mode: m})
		}
	}
	canonical := []string{"PRH", "WREQ", "PRB", "PRSH", "WRESP", "PRSB", "PL"}
	for ci := range cfgs {
		c := &cfgs[ci]
		text := Directives(c, 1, "")
		w, err, p := eng.Compile(text)
		if p != "" || err != nil {
			run.Inconclusive("trace driver: configuration rejected: %v %s\n%s", err, p, text)
			return false, 0, ""
		}
		for r := 0; r < perCfg; r++ {
			b, _ := json.Marshal(traceEv{Ev: "cfg", Engine: c.Engine, K: c.D.K, P: c.D.P, Q: c.D.Q, Req: &c.Req, Resp: &c.Resp, Fired: []int{}})
			lines = append(lines, b)
			d := NewDriver(w, 1)
			n := 3 + rng.Intn(maxLen-2)
			for j := 0; j < n; j++ {
				var call Call
				if rng.Intn(3) == 0 { // follow the canonical order from time to time so that deep states are reached
					name := canonical[j%len(canonical)]
					call = Call{Name: name}
					if name == "WREQ" || name == "WRESP" {
						call.K, call.Mode = []int{1, 3}[rng.Intn(2)], []string{"slice", "known", "unknown"}[rng.Intn(3)]
					}
				} else {
					call = calls[rng.Intn(len(calls))]
				}
				if call.Name == "PL" && d.loggedPL {
					continue // ProcessLogging is called at most once (assumption of Tx.tla)
				}
				if call.Name == "PL" {
					d.loggedPL = true
				}
				ret, _, _ := d.Do(call)
				post := d.ProjectLite()
				ev := traceEv{Ev: "call", Name: call.Name, K: call.K, Mode: call.Mode, Ret: &ret, LastPhase: post.LastPhase, Fired: post.Fired,
					Intr: &post.Intr, Det: &post.DetIntr, Engine: post.Engine, ReqStored: post.ReqStored, RespStored: post.RespStored, ReqErr: post.ReqErr, RespErr: post.RespErr}
				b, _ := json.Marshal(ev)
				lines = append(lines, b)
			}
			d.Close()
		}
		if cl, ok := w.(interface{ Close() error }); ok {
			_ = cl.Close()
		}
	}
	if corrupt != 0 {
		// falsify the fired list of a late call event
		for i := len(lines) - 1; i >= 0; i-- {
			var ev traceEv
			if json.Unmarshal(lines[i], &ev) == nil && ev.Ev == "call" && ev.Name == "PL" {
				ev.Fired = append(ev.Fired, 777)
				lines[i], _ = json.Marshal(ev)
				break
			}
		}
	}
	cfgText := `SPECIFICATION TSpec
CONSTANTS
  Engines = {"On"}
  ReqLimits = {2}
  Ks = {1}
  Modes = {"slice"}
  DisruptKinds = {}
  Phases2 = {}
  Qs = {0}
  ReqShapes = {"off/Reject"}
  RespShapes = {"off/Reject"}
  EmitEdges = FALSE
  CallNames = {"PL"}
  Slice = 0
  Slices = 1
CONSTRAINT Mark
PROPERTIES TraceInterruptFinal
POSTCONDITION TraceAccepted
CHECK_DEADLOCK FALSE
`
	if f := os.Getenv("VERIF_KEEP_TRACE"); f != "" {
		_ = os.WriteFile(f, append(bytes.Join(lines, []byte("\n")), '\n'), 0o644)
	}
	res, err := vf.RunTLC(vf.TLCOpts{Module: "Tx_Trace", CfgText: cfgText, Workers: 1, DFS: true, Timeout: 30 * time.Minute,
		Files: map[string][]byte{"tx_trace.ndjson": append(bytes.Join(lines, []byte("\n")), '\n')}})
	if err != nil {
		run.Inconclusive("Tx_Trace: %v", err)
		return false, len(lines), ""
	}
	if corrupt == 0 {
		run.AddTLC(res)
	}
	for _, m := range res.Marks {
		if strings.Contains(m, "TRACE_REJECTED_AT") {
			detail = m
		}
	}
	if res.Violated != "" {
		detail = "violated " + res.Violated + " " + detail
	}
	if !res.OK() && detail == "" {
		detail = res.Describe() + " " + res.ErrorText
	}
	return res.OK(), len(lines), detail
}
