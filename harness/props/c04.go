package props

import (
	"fmt"
	"runtime"
	"sort"
	"strings"
	"sync"
	"time"

	coraza "github.com/corazawaf/coraza/v3"
	"github.com/corazawaf/coraza/v3/verifharness/eng"
	"github.com/corazawaf/coraza/v3/verifharness/vf"
)

// c04Key projects an outcome onto what C04 says is a function of (configuration, request):
// interruption, set of fired rules, per rule the multiset of match triples, and the TX keys the
// specification itself makes order-independent (stable across all allowed outcomes).
func c04Key(o *eng.Outcome, proj eng.ProjOpts, stableTX map[string]bool) string {
	c := *o
	var tx []eng.TxKV
	for _, kv := range o.TX {
		if stableTX[strings.ToLower(string(kv.K))] {
			tx = append(tx, kv)
		}
	}
	c.TX = tx
	// fired as a set, with match data attached to the id
	type fm struct {
		id int
		md []eng.Datum
	}
	var fms []fm
	for i, id := range c.Fired {
		var md []eng.Datum
		if i < len(c.MD) {
			md = c.MD[i]
		}
		fms = append(fms, fm{id, md})
	}
	sort.SliceStable(fms, func(i, j int) bool { return fms[i].id < fms[j].id })
	c.Fired, c.MD = nil, nil
	for _, f := range fms {
		c.Fired = append(c.Fired, f.id)
		c.MD = append(c.MD, f.md)
	}
	return c.Key(proj)
}

// C04: a transaction's outcome is a function of configuration and request only.
func C04(run *vf.Run) {
	run.Rule = "Engine.tla makes the runtime's iteration order an explicit nondeterministic choice at every rule evaluation; TLC enumerates the cache family (rules sharing transformation prefixes over repeated names), the acts family (counters), the flow family (skip / skipAfter / allow / deny state that must not survive into the next transaction of a long-lived WAF) and the select family, in every order, and the harness checks on the specification that the C04 projection (interruption, fired set, per-rule multiset of match triples, order-independent TX counters) of all allowed outcomes of a scenario is one value. Each scenario is then run on the real library R times on fresh WAFs and on one long-lived WAF (transaction pool reuse), under natural map order and under imposed orders (sorted, reverse, rotate-per-walk, shuffle) through the verif hook; every run's projection must equal the specification's single value. Non-trivial = some rule fires"
	run.Exhaustive = true
	run.Assume("TLC 1.8.0 explores the bounded instances completely")
	run.Assume("the iteration-order hook permutes exactly what the Go runtime may permute (order of map keys)")
	type fam struct {
		name string
		cfg  string
		proj eng.ProjOpts
	}
	fams := []fam{
		{"cache", cacheCfg(3, 0, "byValue", true), eng.ProjOpts{}},
		{"acts", engineCfg("acts", 2, 0, "{1, 2}", `{"On"}`), eng.ProjOpts{}},
		{"flow", engineCfg("flow", 1, 1, "{1, 2}", `{"On"}`), eng.ProjOpts{}},
	}
	if run.Thorough() {
		fams = []fam{
			{"cache", cacheCfg(3, 1, "byValue", true), eng.ProjOpts{}},
			{"acts", engineCfg("acts", 2, 1, "{1, 2}", `{"On"}`), eng.ProjOpts{}}, // three rules: 1.3 M scenarios x 30 runs each (order x repetition) does not fit the memory and time of this tier; C09 thorough covers three rules
			{"select", engineCfg("select", 3, 0, "{2}", `{"On"}`), eng.ProjOpts{FoldMDKeys: true}},
			{"flow", engineCfg("flow", 2, 1, "{1, 2, 5}", `{"On"}`), eng.ProjOpts{}},
		}
	}
	reps := vf.Pick(run, 2, 6)
	for _, f := range fams {
		c04Family(run, f.name, f.cfg, f.proj, reps)
	}
	// the number of satisfying values is not bounded in Engine.tla: K values under distinct names, repeated
	scaleMatchData(run, "cache")
}

func c04Family(run *vf.Run, name, cfg string, base eng.ProjOpts, reps int) {
	run.Logf("C04 family %s: TLC", name)
	groups, res, err := eng.Collect(run, eng.FamilyOpts{Name: name, CfgText: cfg, Proj: base, Workers: 3, Slices: 6, Timeout: vf.Pick(run, 10*time.Minute, 90*time.Minute)})
	if err != nil {
		run.Inconclusive("C04 family %s: %v", name, err)
		return
	}
	run.AddTLC(res)
	if !res.OK() {
		run.Inconclusive("C04 family %s: TLC did not complete: %s", name, res.Describe())
		return
	}
	run.Logf("C04 family %s: %s; %d scenarios", name, res.Describe(), len(groups))
	type gstate struct {
		g        *eng.Group
		proj     eng.ProjOpts
		stable   map[string]bool
		specKey  string
		orderDep bool
		waf      coraza.WAF
		seen     map[string]string // observed key -> description of the run
		mu       sync.Mutex
	}
	var gs []*gstate
	keys := make([]string, 0, len(groups))
	for k := range groups {
		keys = append(keys, k)
	}
	sort.Strings(keys)
	orderDependent := 0
	for _, k := range keys {
		g := groups[k]
		st := &gstate{g: g, proj: eng.ProjFor(&g.Scen, base), stable: map[string]bool{}, seen: map[string]string{}}
		// TX keys stable across the allowed outcomes
		vals := map[string]map[string]bool{}
		for _, o := range g.Allowed {
			present := map[string]bool{}
			for _, kv := range o.TX {
				kk := strings.ToLower(string(kv.K))
				if vals[kk] == nil {
					vals[kk] = map[string]bool{}
				}
				vals[kk][string(kv.V)] = true
				present[kk] = true
			}
			for kk := range vals {
				if !present[kk] {
					vals[kk]["\x00absent"] = true
				}
			}
		}
		for kk, vs := range vals {
			if len(vs) == 1 {
				st.stable[kk] = true
			}
		}
		sk := map[string]bool{}
		for _, o := range g.Allowed {
			oc := o
			sk[c04Key(&oc, st.proj, st.stable)] = true
		}
		if len(sk) != 1 {
			st.orderDep = true // the specification itself makes this scenario order-dependent
			orderDependent++
		}
		for k := range sk {
			st.specKey = k
		}
		gs = append(gs, st)
	}
	run.Extra["order_dependent_by_specification_"+name] = orderDependent
	for _, mode := range eng.OrderModes {
		eng.SetOrderMode(mode, run.Seed)
		var wg sync.WaitGroup
		sem := make(chan struct{}, runtime.NumCPU())
		for _, st := range gs {
			if st.orderDep {
				continue
			}
			wg.Add(1)
			sem <- struct{}{}
			go func(st *gstate) {
				defer wg.Done()
				defer func() { <-sem }()
				for rep := 0; rep < reps; rep++ {
					for _, long := range []bool{false, true} {
						var ro eng.RunOpts
						if long {
							st.mu.Lock()
							if st.waf == nil {
								w, err, p := eng.Compile(st.g.Text)
								if err != nil || p != "" {
									st.mu.Unlock()
									continue
								}
								st.waf = w
							}
							ro.WAF = st.waf
							st.mu.Unlock()
						}
						obs := eng.Run(&st.g.Scen, ro)
						k := "panic/compile:" + obs.Panic + obs.CompileEr
						if obs.Panic == "" && obs.CompileEr == "" {
							k = c04Key(&obs.Out, st.proj, st.stable)
						}
						st.mu.Lock()
						if _, ok := st.seen[k]; !ok {
							st.seen[k] = fmt.Sprintf("order mode %s, repetition %d, long-lived WAF %v", mode, rep, long)
						}
						st.mu.Unlock()
					}
				}
			}(st)
		}
		wg.Wait()
	}
	eng.SetOrderMode("natural", 0)
	type fl struct {
		kind, detail string
		st           *gstate
	}
	var fails []fl
	for i, st := range gs {
		if st.orderDep {
			run.Eval("")
			continue
		}
		nt := ""
		for _, o := range st.g.Allowed {
			if len(o.Fired) > 0 {
				nt = name + st.g.Text + fmt.Sprint(st.g.Scen.Req)
			}
			break
		}
		run.Eval(nt)
		if i%499 == 0 {
			run.Sample(map[string]any{"family": name, "directives": st.g.Text, "request": st.g.Scen.Req, "spec_projection": st.specKey, "distinct_observed_projections": len(st.seen)})
		}
		var ks []string
		for k := range st.seen {
			ks = append(ks, k)
		}
		sort.Strings(ks)
		switch {
		case len(ks) > 1:
			fails = append(fails, fl{"outcome-varies", fmt.Sprintf("%d distinct outcomes for one (configuration, request): %s [%s] vs %s [%s]", len(ks), ks[0], st.seen[ks[0]], ks[1], st.seen[ks[1]]), st})
		case len(ks) == 1 && ks[0] != st.specKey:
			fails = append(fails, fl{"outcome-differs-from-spec", fmt.Sprintf("observed %s [%s]; specification: %s", ks[0], st.seen[ks[0]], st.specKey), st})
		}
		if st.waf != nil {
			if c, ok := st.waf.(interface{ Close() error }); ok {
				_ = c.Close()
			}
		}
	}
	// one violation per minimal feature set and kind
	sort.Slice(fails, func(i, j int) bool {
		fi, fj := fails[i].st.g.Scen.Features(), fails[j].st.g.Scen.Features()
		if len(fi) != len(fj) {
			return len(fi) < len(fj)
		}
		return len(fails[i].st.g.Text) < len(fails[j].st.g.Text)
	})
	seen := map[string]bool{}
	for _, f := range fails {
		sig := name + ":" + f.kind + "|" + strings.Join(f.st.g.Scen.Features(), "+")
		if seen[f.kind] {
			continue
		}
		seen[f.kind] = true
		run.Violate(vf.Violation{Signature: sig,
			What:   fmt.Sprintf("%s || %s || request %v", f.detail, strings.ReplaceAll(f.st.g.Text, "\n", " ; "), f.st.g.Scen.Req),
			Replay: map[string]any{"family": name, "scenario": f.st.g.Scen, "directives": f.st.g.Text, "spec_allows": []string{f.st.specKey}, "observed": f.st.seen}})
	}
}
