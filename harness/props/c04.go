package props

import "github.com/corazawaf/coraza/v3/verifharness/vf"

// C04 placeholder until its own check is written.
func C04(run *vf.Run) { run.Inconclusive("not built yet") }
