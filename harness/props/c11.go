package props

import (
	"encoding/json"
	"fmt"
	"math/rand"
	"regexp"
	"regexp/syntax"
	"sort"
	"strconv"
	"strings"
	"sync"
	"time"
	"unicode/utf8"

	coraza "github.com/corazawaf/coraza/v3"
	"github.com/corazawaf/coraza/v3/experimental/plugins/plugintypes"
	"github.com/corazawaf/coraza/v3/internal/corazawaf"
	"github.com/corazawaf/coraza/v3/internal/operators"
	"github.com/corazawaf/coraza/v3/verifharness/eng"
	"github.com/corazawaf/coraza/v3/verifharness/vf"
)

func init() { Registry["C11"] = C11 }

type rxNode struct {
	K  string          `json:"k"`
	C  int             `json:"c"`
	Cs []int           `json:"cs"`
	X  json.RawMessage `json:"x"`
	Y  json.RawMessage `json:"y"`
}

func (n *rxNode) child(raw json.RawMessage) *rxNode {
	var c rxNode
	if json.Unmarshal(raw, &c) != nil || c.K == "" || c.K == "nil" {
		return nil
	}
	return &c
}

// render writes the expression as RE2 text; capturing groups are used for the operands of
// alternations and repetitions so that the captures of prefilter on/off can be compared.
func (n *rxNode) render(capture bool) string {
	grp := func(s string) string {
		if capture {
			return "(" + s + ")"
		}
		return "(?:" + s + ")"
	}
	x, y := n.child(n.X), n.child(n.Y)
	switch n.K {
	case "lit":
		return regexp.QuoteMeta(string(rune(n.C)))
	case "cls":
		var sb strings.Builder
		sb.WriteString("[")
		for _, c := range n.Cs {
			sb.WriteString(regexp.QuoteMeta(string(rune(c))))
		}
		sb.WriteString("]")
		return sb.String()
	case "any":
		return "."
	case "cat":
		return grp(x.render(capture)) + grp(y.render(capture))
	case "alt":
		return grp(x.render(capture) + "|" + y.render(capture))
	case "grp":
		return "(" + x.render(capture) + ")"
	case "opt":
		return grp(x.render(capture)) + "?"
	case "star":
		return grp(x.render(capture)) + "*"
	case "plus":
		return grp(x.render(capture)) + "+"
	case "bol":
		return "^"
	case "eol":
		return "$"
	case "bot":
		return `\A`
	case "eot":
		return `\z`
	}
	return ""
}

type rxEval struct {
	capture bool // evaluate as a capturing rule does
	tx      *corazawaf.Transaction
	ts      plugintypes.TransactionState
	waf     coraza.WAF
}

func newRxEval() (*rxEval, error) {
	w, err := coraza.NewWAF(coraza.NewWAFConfig())
	if err != nil {
		return nil, err
	}
	tx := w.NewTransaction()
	return &rxEval{capture: true, tx: tx.(*corazawaf.Transaction), ts: tx.(plugintypes.TransactionState), waf: w}, nil
}

func (e *rxEval) close() { _ = e.tx.Close(); closeAny(e.waf) }

// run evaluates one operator with capturing on and returns (matched, TX.0..9, panic text)
func (e *rxEval) run(o plugintypes.Operator, v string) (m bool, caps [10]string, p string) {
	defer func() {
		if r := recover(); r != nil {
			p = fmt.Sprint(r)
		}
	}()
	col := e.tx.Variables().TX()
	for i := 0; i < 10; i++ {
		col.SetIndex(strconv.Itoa(i), 0, "\x00unset")
	}
	e.tx.Capture = e.capture
	m = o.Evaluate(e.ts, v)
	for i := 0; i < 10; i++ {
		if g := col.Get(strconv.Itoa(i)); len(g) > 0 {
			caps[i] = g[0]
		}
	}
	return
}

func rxPair(pattern string) (on, off plugintypes.Operator, err error) {
	on, err = operators.Get("rx", plugintypes.OperatorOptions{Arguments: pattern, RxPreFilterEnabled: true})
	if err != nil {
		return
	}
	off, err = operators.Get("rx", plugintypes.OperatorOptions{Arguments: pattern, RxPreFilterEnabled: false})
	return
}

// C11: SecRxPreFilter never changes what @rx matches or captures.
func C11(run *vf.Run) {
	run.Rule = "RxPF.tla: denotational semantics (Ends / Matches) of the regular-expression fragment the prefilter reasons about - literals, classes, any-char, concatenation, alternation, ? * +, line anchors under (?sm), text anchors \\A \\z, pattern-wide (?i) - and the model-level theorem MinLenSound. RxPF_MC enumerates every expression to nesting depth 2 over the atoms {a, A, b, [ab], ., ^, $, \\A, \\z} x (?i) on/off and evaluates it on every input over {a, A, b, newline} up to MaxLen; each (pattern, input) is evaluated by the real @rx with the prefilter on and off (operator registry, capturing on): both results must equal the specification's and TX.0-9 must be identical. Outside the fragment (full RE2 syntax, non-ASCII, invalid UTF-8): every @rx pattern of the bundled OWASP CRS and generated patterns are compared on/off on inputs derived from the pattern by a regexp/syntax walker (matching strings, one-byte perturbations, case and Unicode-fold variants, embedded newlines) and random bytes. Non-trivial = (pattern, input) pair that matches"
	run.Exhaustive = true
	run.Assume("outside the TLA+ fragment the oracle is purely differential (prefilter on vs off); RE2 matching itself is Go's regexp (trusted base)")
	type rec struct {
		Re     json.RawMessage `json:"re"`
		Ci     bool            `json:"ci"`
		Row    []bool          `json:"row"`
		Inputs []eng.Bytes     `json:"inputs"`
	}
	var recs []rec
	var inputs []eng.Bytes
	var mu sync.Mutex
	slices := 6
	maxLen := vf.Pick(run, 3, 4)
	var wg sync.WaitGroup
	var tlcErr error
	for sl := 0; sl < slices; sl++ {
		wg.Add(1)
		go func(sl int) {
			defer wg.Done()
			res, err := vf.RunTLC(vf.TLCOpts{Module: "RxPF_MC", CfgText: fmt.Sprintf("SPECIFICATION Spec\nCONSTANTS\n  Alphabet = {97, 65, 98, 10}\n  MaxLen = %d\n  Depth2 = TRUE\n  Slice = %d\n  Slices = %d\nINVARIANTS MinLenSound Emit EmitInputs\n", maxLen, sl, slices),
				Workers: 2, Timeout: vf.Pick(run, 15*time.Minute, 120*time.Minute),
				OnOut: func(raw json.RawMessage) {
					var r rec
					if json.Unmarshal(raw, &r) != nil {
						return
					}
					mu.Lock()
					defer mu.Unlock()
					if r.Inputs != nil {
						inputs = r.Inputs
						return
					}
					recs = append(recs, r)
				}})
			mu.Lock()
			defer mu.Unlock()
			if err != nil {
				tlcErr = err
				return
			}
			run.AddTLC(res)
			if res.Violated != "" || !res.OK() {
				tlcErr = fmt.Errorf("RxPF_MC slice %d: %s %s", sl, res.Describe(), res.ErrorText)
			}
		}(sl)
	}
	wg.Wait()
	if tlcErr != nil || len(recs) == 0 || len(inputs) == 0 {
		run.Inconclusive("RxPF_MC: %v (%d patterns, %d inputs)", tlcErr, len(recs), len(inputs))
		return
	}
	run.Logf("RxPF_MC: %d (pattern, flag) pairs x %d inputs", len(recs), len(inputs))
	ev, err := newRxEval()
	if err != nil {
		run.Inconclusive("NewWAF: %v", err)
		return
	}
	defer ev.close()
	reported := map[string]bool{}
	report := func(kind, pattern string, in []byte, detail string, feat string) {
		sig := "rx:" + kind + "|" + feat
		if reported[sig] {
			return
		}
		reported[sig] = true
		run.Violate(vf.Violation{Signature: sig, What: fmt.Sprintf("%s: pattern %q on input %q: %s", kind, pattern, string(in), detail),
			Replay: map[string]any{"family": "rxprefilter", "pattern": pattern, "input": eng.Bytes(in)}})
	}
	sort.Slice(recs, func(i, j int) bool {
		return string(recs[i].Re)+fmt.Sprint(recs[i].Ci) < string(recs[j].Re)+fmt.Sprint(recs[j].Ci)
	})
	feature := func(pat string) string {
		var fs []string
		for _, f := range []struct{ s, n string }{{`\A`, "bot"}, {`\z`, "eot"}, {"^", "bol"}, {"$", "eol"}, {"(?i)", "ci"}, {"|", "alt"}, {"*", "star"}, {"+", "plus"}, {"?", "opt"}} {
			if strings.Contains(strings.ReplaceAll(pat, "(?:", ""), f.s) {
				fs = append(fs, f.n)
			}
		}
		return strings.Join(fs, "+")
	}
	for ri, r := range recs {
		var n rxNode
		if json.Unmarshal(r.Re, &n) != nil {
			continue
		}
		for _, capture := range []bool{false, true} {
			pat := n.render(capture)
			if r.Ci {
				pat = "(?i)" + pat
			}
			on, off, err := rxPair(pat)
			if err != nil {
				run.Inconclusive("pattern %q rejected: %v", pat, err)
				break
			}
			for k, in := range inputs {
				mOn, cOn, p1 := ev.run(on, string(in))
				mOff, cOff, p2 := ev.run(off, string(in))
				if p1 != "" || p2 != "" {
					report("panic", pat, in, p1+p2, feature(pat))
					continue
				}
				// the same without capturing (non-capturing rules take other fast paths)
				ev.capture = false
				nOn, _, p3 := ev.run(on, string(in))
				ev.capture = true
				if p3 != "" {
					report("panic", pat, in, p3, feature(pat))
				} else if nOn != mOff {
					report("match-differs", pat, in, fmt.Sprintf("non-capturing rule, prefilter on: %v, prefilter off (and RxPF.tla): %v", nOn, mOff), feature(pat))
				}
				nt := ""
				if r.Row[k] {
					nt = pat + "\x00" + string(in)
				}
				if !capture {
					run.Eval(nt)
				}
				if mOff != r.Row[k] {
					// the trusted base disagrees with the model: a modelling error, not a verdict
					run.Inconclusive("RxPF.tla disagrees with Go's regexp (prefilter off) on pattern %q input %q: model %v, regexp %v", pat, string(in), r.Row[k], mOff)
					return
				}
				if mOn != mOff {
					report("match-differs", pat, in, fmt.Sprintf("prefilter on: %v, prefilter off (and RxPF.tla): %v", mOn, mOff), feature(pat))
				} else if mOn && cOn != cOff {
					report("captures-differ", pat, in, fmt.Sprintf("TX.0-9 with prefilter on %q, off %q", cOn, cOff), feature(pat))
				}
			}
		}
		if ri%997 == 0 {
			run.Sample(map[string]any{"pattern": func() string {
				p := n.render(true)
				if r.Ci {
					p = "(?i)" + p
				}
				return p
			}(), "inputs": len(inputs), "matching_inputs": countTrue(r.Row)})
		}
	}
	c11Differential(run, ev, report)
}

func countTrue(b []bool) int {
	n := 0
	for _, x := range b {
		if x {
			n++
		}
	}
	return n
}

// gen produces a string the (simplified) expression matches, by walking the syntax tree.
func genMatch(r *rand.Rand, re *syntax.Regexp, depth int) string {
	switch re.Op {
	case syntax.OpLiteral:
		return string(re.Rune)
	case syntax.OpCharClass:
		if len(re.Rune) == 0 {
			return ""
		}
		i := r.Intn(len(re.Rune)/2) * 2
		lo, hi := re.Rune[i], re.Rune[i+1]
		if hi > lo+40 {
			hi = lo + 40
		}
		return string(lo + rune(r.Intn(int(hi-lo)+1)))
	case syntax.OpAnyChar, syntax.OpAnyCharNotNL:
		return string("xyz\né"[r.Intn(4)])
	case syntax.OpCapture:
		return genMatch(r, re.Sub[0], depth)
	case syntax.OpConcat:
		var sb strings.Builder
		for _, s := range re.Sub {
			sb.WriteString(genMatch(r, s, depth))
		}
		return sb.String()
	case syntax.OpAlternate:
		return genMatch(r, re.Sub[r.Intn(len(re.Sub))], depth)
	case syntax.OpStar, syntax.OpQuest:
		if r.Intn(2) == 0 || depth > 3 {
			return ""
		}
		return genMatch(r, re.Sub[0], depth+1)
	case syntax.OpPlus:
		s := genMatch(r, re.Sub[0], depth+1)
		if r.Intn(3) == 0 && depth < 3 {
			s += genMatch(r, re.Sub[0], depth+1)
		}
		return s
	case syntax.OpRepeat:
		var sb strings.Builder
		n := re.Min
		if n == 0 && r.Intn(2) == 0 {
			n = 1
		}
		if n > 4 {
			n = 4
		}
		for i := 0; i < n; i++ {
			sb.WriteString(genMatch(r, re.Sub[0], depth+1))
		}
		return sb.String()
	}
	return ""
}

func variants(r *rand.Rand, s string) []string {
	out := []string{s, strings.ToUpper(s), strings.ToLower(s), "x" + s, s + "x", s + "\n", "\n" + s, s + "\nmore"}
	if len(s) > 0 {
		i := r.Intn(len(s))
		b := []byte(s)
		b[i] ^= 0x20
		out = append(out, string(b))
		b2 := []byte(s)
		b2[i] = 0xff
		out = append(out, string(b2))
		out = append(out, s[:i]+s[i+1:], s[:i]+string(s[i])+s[i:])
	}
	// Unicode simple-fold variants (K -> Kelvin sign, s -> long s)
	out = append(out, strings.NewReplacer("k", "K", "K", "K", "s", "ſ", "S", "ſ").Replace(s))
	rb := make([]byte, 1+r.Intn(6))
	r.Read(rb)
	out = append(out, string(rb))
	return out
}

// c11Differential: full RE2 syntax - CRS patterns and generated patterns, prefilter on vs off.
func c11Differential(run *vf.Run, ev *rxEval, report func(kind, pattern string, in []byte, detail string, feat string)) {
	r := rand.New(rand.NewSource(run.Seed*31 + 7))
	pats := append([]string{}, handPatterns...)
	pats = append(pats, crsPatterns()...)
	per := vf.Pick(run, 12, 60)
	checked, matched := 0, 0
	for _, pat := range pats {
		on, off, err := rxPair(pat)
		if err != nil {
			continue
		}
		parsed, err := syntax.Parse(pat, syntax.Perl)
		if err != nil {
			continue
		}
		parsed = parsed.Simplify()
		for k := 0; k < per; k++ {
			base := genMatch(r, parsed, 0)
			if !utf8.ValidString(base) && k%2 == 0 {
				base = strings.ToValidUTF8(base, "?")
			}
			for _, in := range variants(r, base) {
				mOn, cOn, p1 := ev.run(on, in)
				mOff, cOff, p2 := ev.run(off, in)
				checked++
				if mOff {
					matched++
				}
				if p1 != "" || p2 != "" {
					report("panic", pat, []byte(in), p1+p2, "full-syntax")
					continue
				}
				ev.capture = false
				nOn, _, p3 := ev.run(on, in)
				ev.capture = true
				if p3 != "" {
					report("panic", pat, []byte(in), p3, "full-syntax")
				} else if nOn != mOff {
					report("match-differs", pat, []byte(in), fmt.Sprintf("non-capturing rule, prefilter on: %v, prefilter off: %v", nOn, mOff), "pattern-"+vf.Hash(pat))
				}
				if mOn != mOff {
					report("match-differs", pat, []byte(in), fmt.Sprintf("prefilter on: %v, prefilter off: %v", mOn, mOff), "pattern-"+vf.Hash(pat))
				} else if mOn && cOn != cOff {
					report("captures-differ", pat, []byte(in), fmt.Sprintf("TX.0-9 with prefilter on %q, off %q", cOn, cOff), "pattern-"+vf.Hash(pat))
				}
			}
		}
		run.Eval("pat:" + pat)
	}
	run.Extra["differential"] = map[string]any{"patterns": len(pats), "evaluations": checked, "matching": matched}
}

// shapeOf is a coarse, stable description of why a pattern is special for the prefilter.
func shapeOf(p string) string {
	var fs []string
	if strings.HasPrefix(p, `\A`) || strings.Contains(p, `\A`) {
		fs = append(fs, "begin-text")
	}
	if strings.Contains(p, `\z`) {
		fs = append(fs, "end-text")
	}
	if strings.HasPrefix(p, "^") && strings.HasSuffix(p, "$") {
		fs = append(fs, "exact")
	}
	if strings.Contains(p, "(?i") {
		fs = append(fs, "ci")
	}
	if strings.Contains(p, "|") {
		fs = append(fs, "alt")
	}
	if len(fs) == 0 {
		return "other"
	}
	return strings.Join(fs, "+")
}

var handPatterns = []string{
	`^Upload$`, `(?i)^task$`, `(?i)^stra\x{00df}e$`, `\A\d+foo`, `foo\d*\z`, `s(?:.*elect|leep)`, `s(?:p_.*longer(?:a1|b2)|leep)`,
	`(?i:select).*FROM`, `[Uu]nion.*SELECT`, `^[^\x00-\x7f]+$`, `id=[^\x00-\x{7ff}]`, `(?i)union\s+select`, `\bunion\b`, `a(b)?c`, `(a|ab)(c|bcd)(d*)`,
	`^(?:GET|POST)$`, `(?i)^(?:get|post)$`, `^\s*$`, `^$`, `.`, `(?s).`, `(?m)^x$`, `x$`, `\Ax\z`, `(?i)k`, `(?i)s+`, `é`, `(?i)É`, `\xff`, `[\x80-\xff]`,
	`(^admin$)`, `(?i)(^admin$)`, `((^root$))`, `(\Aadmin\z)`, `^(admin)$`, `(^li(t)$)`, `(?i)xp_\w+`, `(?i)admin@.*corp`, `(?i)arr\[\d+\]`, `(?i)\$_(?:get|post)`, `(?i)a\^b.*c`, `(?i)x\\y+`, `(?i)p\]q*`,
	`(foo|foobar)baz`, `(?:foo)?bar`, `ab*c+d?`, `(?i)a.c`, `a\nb`, `(?-s)a.b`, `^a|b$`, `(^a|b)c`, `a{2,3}b`, `(?i)ß`, `select.{0,5}from`,
}

// crsPatterns extracts the @rx patterns of the bundled OWASP CRS (module cache, read-only).
func crsPatterns() []string {
	return loadCRSPatterns()
}
