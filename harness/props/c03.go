package props

import (
	"bytes"
	"encoding/json"
	"encoding/xml"
	"fmt"
	"mime/multipart"
	"runtime"
	"sort"
	"strconv"
	"strings"
	"sync"
	"time"
	"unicode/utf8"

	coraza "github.com/corazawaf/coraza/v3"
	"github.com/corazawaf/coraza/v3/experimental/plugins/plugintypes"
	"github.com/corazawaf/coraza/v3/types"
	"github.com/corazawaf/coraza/v3/verifharness/eng"
	"github.com/corazawaf/coraza/v3/verifharness/vf"
)

func init() { Registry["C03"] = C03 }

type encPair struct {
	N eng.Bytes `json:"n"`
	V eng.Bytes `json:"v"`
}

type encCase struct {
	Pairs  []encPair `json:"pairs"`
	Query  eng.Bytes `json:"query"`
	Cookie eng.Bytes `json:"cookie"`
}

const c03Rules = `
SecRuleEngine On
SecRequestBodyAccess On
SecRule ARGS_GET "@unconditionalMatch" "id:1,phase:2,pass,nolog"
SecRule ARGS_POST "@unconditionalMatch" "id:2,phase:2,pass,nolog"
SecRule ARGS "@unconditionalMatch" "id:3,phase:2,pass,nolog"
SecRule ARGS_NAMES "@unconditionalMatch" "id:4,phase:2,pass,nolog"
SecRule ARGS_GET_NAMES "@unconditionalMatch" "id:5,phase:2,pass,nolog"
SecRule ARGS_POST_NAMES "@unconditionalMatch" "id:6,phase:2,pass,nolog"
SecRule REQUEST_COOKIES "@unconditionalMatch" "id:7,phase:2,pass,nolog"
SecRule REQUEST_COOKIES_NAMES "@unconditionalMatch" "id:8,phase:2,pass,nolog"
SecRule REQUEST_HEADERS "@unconditionalMatch" "id:9,phase:2,pass,nolog"
SecRule QUERY_STRING "@unconditionalMatch" "id:10,phase:2,pass,nolog"
SecRule REQUEST_BODY "@unconditionalMatch" "id:11,phase:2,pass,nolog"
SecRule FILES "@unconditionalMatch" "id:12,phase:2,pass,nolog"
SecRule FILES_NAMES "@unconditionalMatch" "id:13,phase:2,pass,nolog"
SecRule REQUEST_URI "@unconditionalMatch" "id:14,phase:2,pass,nolog"
SecRule XML:/* "@unconditionalMatch" "id:15,phase:2,pass,nolog"
SecRule XML://@* "@unconditionalMatch" "id:16,phase:2,pass,nolog"
SecRule REQUEST_FILENAME "@unconditionalMatch" "id:31,phase:2,pass,nolog"
SecRule REQUEST_BASENAME "@unconditionalMatch" "id:32,phase:2,pass,nolog"
SecRule ARGS_COMBINED_SIZE "@unconditionalMatch" "id:33,phase:2,pass,nolog"
SecRule REQUEST_LINE "@unconditionalMatch" "id:34,phase:2,pass,nolog"
SecRule REQUEST_URI_RAW "@unconditionalMatch" "id:35,phase:2,pass,nolog"
SecRule REQUEST_METHOD "@unconditionalMatch" "id:36,phase:2,pass,nolog"
SecRule REQUEST_HEADERS_NAMES "@unconditionalMatch" "id:37,phase:2,pass,nolog"
SecRule REQUEST_BODY_LENGTH "@unconditionalMatch" "id:38,phase:2,pass,nolog"
SecRule &ARGS "@unconditionalMatch" "id:39,phase:2,pass,nolog"
SecRule FILES_SIZES "@unconditionalMatch" "id:40,phase:2,pass,nolog"
SecRule FILES_COMBINED_SIZE "@unconditionalMatch" "id:41,phase:2,pass,nolog"
SecRule REQBODY_ERROR|MULTIPART_STRICT_ERROR|URLENCODED_ERROR|INBOUND_DATA_ERROR "!@eq 0" "id:20,phase:2,pass,nolog"
`

type kvBag map[string]int

func bagOf(kvs [][2]string) kvBag {
	b := kvBag{}
	for _, kv := range kvs {
		b[kv[0]+"\x00"+kv[1]]++
	}
	return b
}

func (b kvBag) String() string {
	var ks []string
	for k, n := range b {
		ks = append(ks, fmt.Sprintf("%q x%d", strings.Replace(k, "\x00", "=", 1), n))
	}
	sort.Strings(ks)
	return "{" + strings.Join(ks, ", ") + "}"
}

func bagEq(a, b kvBag) bool {
	if len(a) != len(b) {
		return false
	}
	for k, n := range a {
		if b[k] != n {
			return false
		}
	}
	return true
}

// c03Run drives one request and returns, per rule id, the bag of (key, value) the rule saw.
func c03Run(w coraza.WAF, uri string, headers [][2]string, ct string, body []byte) (map[int]kvBag, string, string) {
	return c03RunChunks(w, uri, headers, ct, body, 0)
}

// c03RunChunks hands the body over in two pieces (the first `first` bytes, then the rest) when first > 0.
func c03RunChunks(w coraza.WAF, uri string, headers [][2]string, ct string, body []byte, first int) (map[int]kvBag, string, string) {
	var p string
	out := map[int]kvBag{}
	errInfo := ""
	func() {
		defer func() {
			if r := recover(); r != nil {
				p = fmt.Sprint(r)
			}
		}()
		tx := w.NewTransaction()
		defer tx.Close()
		tx.ProcessConnection("10.0.0.1", 1, "10.0.0.2", 80)
		tx.ProcessURI(uri, "POST", "HTTP/1.1")
		tx.AddRequestHeader("Host", "h")
		if ct != "" {
			tx.AddRequestHeader("Content-Type", ct)
		}
		for _, h := range headers {
			tx.AddRequestHeader(h[0], h[1])
		}
		var it *types.Interruption
		it = tx.ProcessRequestHeaders()
		if it == nil && body != nil {
			if first == -1 {
				// pieces of 3, 2, 1 bytes and the rest: with an in-memory limit of 4 the first fits and leaves room,
				// the second forces the spill to disk, the third would fit into the room that was left
				rest := body
				for _, k := range []int{3, 2, 1, len(body)} {
					if k > len(rest) {
						k = len(rest)
					}
					if k == 0 || it != nil {
						break
					}
					it, _, _ = tx.WriteRequestBody(rest[:k])
					rest = rest[k:]
				}
			} else if first > 0 && first < len(body) {
				it, _, _ = tx.WriteRequestBody(body[:first])
				if it == nil {
					it, _, _ = tx.WriteRequestBody(body[first:])
				}
			} else {
				it, _, _ = tx.WriteRequestBody(body)
			}
		}
		if it == nil {
			it, _ = tx.ProcessRequestBody()
		}
		if it != nil {
			errInfo = fmt.Sprintf("interrupted %d/%s/%d", it.RuleID, it.Action, it.Status)
		}
		for _, mr := range tx.MatchedRules() {
			id := mr.Rule().ID()
			var kvs [][2]string
			for _, md := range mr.MatchedDatas() {
				kvs = append(kvs, [2]string{md.Key(), md.Value()})
			}
			if out[id] == nil {
				out[id] = kvBag{}
			}
			for k, n := range bagOf(kvs) {
				out[id][k] += n
			}
			if id == 20 {
				errInfo += " error-variable:" + fmt.Sprint(kvs)
			}
		}
		if ts, ok := tx.(plugintypes.TransactionState); ok {
			_ = ts
		}
	}()
	return out, errInfo, p
}

// C03: every piece of request data is visible to rules, decoded once, never dropped.
func C03(run *vf.Run) {
	run.Rule = "Encode.tla: an independent encoder of (name, value) byte-string pairs into a query string / urlencoded body / Cookie header, its reference decoder (TLC checks Dec(Enc(x)) = x on every list) and the bag of (key, value) each documented variable must then hold. Encode_MC enumerates every list of up to MaxPairs pairs with names {a, A, 'a b', 'a%25'} and every value over {a % 2 5 + & = space 0xFF} up to MaxValLen (repeated names, empty values, reserved characters, text that looks like an escape); each list is sent as a query string, as a urlencoded body, as a Cookie header, as request headers, as a JSON object and as a multipart form (the last two serialised with the Go standard library) and read back by rules of the form SecRule <VARIABLE> \"@unconditionalMatch\" through MatchedDatas(): ARGS_GET, ARGS_POST, ARGS, ARGS_NAMES, *_NAMES, REQUEST_COOKIES, REQUEST_HEADERS, QUERY_STRING, REQUEST_BODY, FILES and the derived variables REQUEST_FILENAME, REQUEST_BASENAME, REQUEST_LINE, REQUEST_URI_RAW, ARGS_COMBINED_SIZE, &ARGS; with SecArgumentsLimit below the number of arguments and with unparsable bodies an error variable or an interruption must say so. Non-trivial = list with at least one pair"
	run.Exhaustive = true
	run.Assume("JSON, multipart and XML documents are serialised by encoding/json, mime/multipart and hand-written literals; tokenisation inside gjson / encoding/xml / mime/multipart is trusted")
	run.Assume("cookies: only pairs whose name is a token and whose value has no space are sent (the cookie grammar gives others no meaning)")
	run.Assume("XML character data is compared modulo the surrounding Unicode white space the processor trims (values with spaces, form feeds or no-break spaces are not sent as XML text)")
	var cases []encCase
	var mu sync.Mutex
	slices := 6
	var wg sync.WaitGroup
	var tlcErr error
	maxPairs := vf.Pick(run, 2, 2)
	maxVal := vf.Pick(run, 1, 2)
	for sl := 0; sl < slices; sl++ {
		wg.Add(1)
		go func(sl int) {
			defer wg.Done()
			res, err := vf.RunTLC(vf.TLCOpts{Module: "Encode_MC", CfgText: fmt.Sprintf("SPECIFICATION Spec\nCONSTANTS\n  NameSet = {}\n  ValAlphabet = {}\n  MaxValLen = %d\n  MaxPairs = %d\n  Slice = %d\n  Slices = %d\nINVARIANTS RoundTrip Emit\n", maxVal, maxPairs, sl, slices),
				Workers: 2, Timeout: vf.Pick(run, 10*time.Minute, 60*time.Minute),
				OnOut: func(raw json.RawMessage) {
					var c encCase
					if json.Unmarshal(raw, &c) == nil {
						mu.Lock()
						cases = append(cases, c)
						mu.Unlock()
					}
				}})
			mu.Lock()
			defer mu.Unlock()
			if err != nil {
				tlcErr = err
				return
			}
			run.AddTLC(res)
			if res.Violated != "" || !res.OK() {
				tlcErr = fmt.Errorf("slice %d: %s %s", sl, res.Describe(), res.ErrorText)
			}
		}(sl)
	}
	wg.Wait()
	if tlcErr != nil || len(cases) == 0 {
		run.Inconclusive("Encode_MC: %v (%d cases)", tlcErr, len(cases))
		return
	}
	run.Logf("Encode_MC: %d pair lists", len(cases))
	sort.Slice(cases, func(i, j int) bool { return string(cases[i].Query) < string(cases[j].Query) })
	w, err := coraza.NewWAF(coraza.NewWAFConfig().WithDirectives(c03Rules))
	if err != nil {
		run.Inconclusive("C03 rules rejected: %v", err)
		return
	}
	defer closeAny(w)
	wLimit, err := coraza.NewWAF(coraza.NewWAFConfig().WithDirectives(c03Rules + "SecArgumentsLimit 1\n"))
	if err != nil {
		run.Inconclusive("C03 rules rejected: %v", err)
		return
	}
	defer closeAny(wLimit)
	wJSON, err := coraza.NewWAF(coraza.NewWAFConfig().WithDirectives(c03Rules + "SecAction \"id:100,phase:1,pass,nolog,ctl:requestBodyProcessor=JSON\"\n"))
	if err != nil {
		run.Inconclusive("C03 rules rejected: %v", err)
		return
	}
	defer closeAny(wJSON)
	wXML, err := coraza.NewWAF(coraza.NewWAFConfig().WithDirectives(c03Rules + "SecAction \"id:100,phase:1,pass,nolog,ctl:requestBodyProcessor=XML\"\n"))
	if err != nil {
		run.Inconclusive("C03 rules rejected: %v", err)
		return
	}
	defer closeAny(wXML)
	wSpill, err := coraza.NewWAF(coraza.NewWAFConfig().WithDirectives(c03Rules + "SecRequestBodyInMemoryLimit 4\n"))
	if err != nil {
		run.Inconclusive("NewWAF: %v", err)
		return
	}
	defer closeAny(wSpill)
	wBodyRej, err := coraza.NewWAF(coraza.NewWAFConfig().WithDirectives(c03Rules + "SecRequestBodyLimit 8\nSecRequestBodyInMemoryLimit 8\nSecRequestBodyLimitAction Reject\n"))
	if err != nil {
		run.Inconclusive("C03 rules rejected: %v", err)
		return
	}
	defer closeAny(wBodyRej)
	wBodyPart, err := coraza.NewWAF(coraza.NewWAFConfig().WithDirectives(c03Rules + "SecRequestBodyLimit 8\nSecRequestBodyInMemoryLimit 8\nSecRequestBodyLimitAction ProcessPartial\n"))
	if err != nil {
		run.Inconclusive("C03 rules rejected: %v", err)
		return
	}
	defer closeAny(wBodyPart)
	reported := map[string]bool{}
	var rmu sync.Mutex
	report := func(kind, channel, variable string, c *encCase, detail string) {
		rmu.Lock()
		defer rmu.Unlock()
		sig := "vis:" + kind + "|" + channel + "+" + variable
		if reported[sig] {
			return
		}
		reported[sig] = true
		var ps []string
		for _, p := range c.Pairs {
			ps = append(ps, fmt.Sprintf("%q=%q", string(p.N), string(p.V)))
		}
		run.Violate(vf.Violation{Signature: sig, What: fmt.Sprintf("%s: data %v sent as %s, variable %s: %s", kind, ps, channel, variable, detail),
			Replay: map[string]any{"family": "visibility", "pairs": c.Pairs, "channel": channel, "variable": variable, "query": c.Query}})
	}
	check := func(c *encCase, channel string, got map[int]kvBag, id int, variable string, want [][2]string) {
		wb := bagOf(want)
		gb := got[id]
		if gb == nil {
			gb = kvBag{}
		}
		if !bagEq(wb, gb) {
			report("exposure-differs", channel, variable, c, fmt.Sprintf("rules see %s, the data sent is %s", gb, wb))
		}
	}
	var cwg sync.WaitGroup
	sem := make(chan struct{}, runtime.NumCPU())
	for i := range cases {
		c := &cases[i]
		cwg.Add(1)
		sem <- struct{}{}
		go func(i int, c *encCase) {
			defer cwg.Done()
			defer func() { <-sem }()
			var kv, names [][2]string
			for _, p := range c.Pairs {
				kv = append(kv, [2]string{string(p.N), string(p.V)})
				names = append(names, [2]string{string(p.N), string(p.N)})
			}
			nt := ""
			if len(c.Pairs) > 0 {
				nt = string(c.Query)
			}
			run.Eval(nt)
			if i%2503 == 0 {
				run.Sample(map[string]any{"pairs": kv, "query_string": string(c.Query), "cookie": string(c.Cookie)})
			}
			// (a) query string
			got, _, p := c03Run(w, "/p?"+string(c.Query), nil, "", nil)
			if p != "" {
				report("panic", "query", "-", c, p)
			} else {
				check(c, "query", got, 1, "ARGS_GET", kv)
				check(c, "query", got, 3, "ARGS", kv)
				check(c, "query", got, 4, "ARGS_NAMES", names)
				check(c, "query", got, 5, "ARGS_GET_NAMES", names)
				if len(c.Query) > 0 {
					check(c, "query", got, 10, "QUERY_STRING", [][2]string{{"", string(c.Query)}})
				}
				check(c, "query", got, 2, "ARGS_POST", nil)
				check(c, "query", got, 14, "REQUEST_URI", [][2]string{{"", "/p?" + string(c.Query)}})
			}
			// derived variables: the URI is cut at the first question mark, the path at its last slash
			got, _, p = c03Run(w, "/dir.d/p.ext?"+string(c.Query), nil, "", nil)
			if p == "" {
				size := 0
				for _, kv1 := range kv {
					size += len(kv1[0]) + len(kv1[1])
				}
				check(c, "uri", got, 31, "REQUEST_FILENAME", [][2]string{{"", "/dir.d/p.ext"}})
				check(c, "uri", got, 32, "REQUEST_BASENAME", [][2]string{{"", "p.ext"}})
				check(c, "uri", got, 33, "ARGS_COMBINED_SIZE", [][2]string{{"", strconv.Itoa(size)}})
				check(c, "uri", got, 34, "REQUEST_LINE", [][2]string{{"", "POST /dir.d/p.ext?" + string(c.Query) + " HTTP/1.1"}})
				check(c, "uri", got, 35, "REQUEST_URI_RAW", [][2]string{{"", "/dir.d/p.ext?" + string(c.Query)}})
				check(c, "uri", got, 36, "REQUEST_METHOD", [][2]string{{"", "POST"}})
				check(c, "uri", got, 37, "REQUEST_HEADERS_NAMES", [][2]string{{"Host", "Host"}})
				check(c, "uri", got, 39, "&ARGS", [][2]string{{"", strconv.Itoa(len(kv))}})
			}
			if i%7 == 0 { // the last path separator may be a backslash (raw or percent-encoded)
				for _, path := range []string{"/app/..\\admin\\p.ext", `/app/x%5Cp.ext`, "/a\\b/p.ext"} {
					got, _, p = c03Run(w, path+"?"+string(c.Query), nil, "", nil)
					if p == "" {
						check(c, "uri-backslash", got, 32, "REQUEST_BASENAME", [][2]string{{"", "p.ext"}})
					}
				}
			}
			// (b) urlencoded body
			if len(c.Query) > 0 {
				got, _, p = c03Run(w, "/p", nil, "application/x-www-form-urlencoded", []byte(c.Query))
				if p != "" {
					report("panic", "urlencoded-body", "-", c, p)
				} else {
					check(c, "urlencoded-body", got, 2, "ARGS_POST", kv)
					check(c, "urlencoded-body", got, 3, "ARGS", kv)
					check(c, "urlencoded-body", got, 6, "ARGS_POST_NAMES", names)
					check(c, "urlencoded-body", got, 11, "REQUEST_BODY", [][2]string{{"", string(c.Query)}})
					check(c, "urlencoded-body", got, 1, "ARGS_GET", nil)
				}
				// the body arrives in small pieces around the moment it spills to disk: the same variables, the same bytes
				if len(c.Query) >= 7 {
					gotS, _, pS := c03RunChunks(wSpill, "/p", nil, "application/x-www-form-urlencoded", []byte(c.Query), -1)
					if pS != "" {
						report("panic", "urlencoded-body+pieces+spill", "-", c, pS)
					} else {
						check(c, "urlencoded-body+pieces+spill", gotS, 2, "ARGS_POST", kv)
						check(c, "urlencoded-body+pieces+spill", gotS, 11, "REQUEST_BODY", [][2]string{{"", string(c.Query)}})
					}
				}
				// the body arrives in two pieces, the first filling SecRequestBodyLimit exactly: reported, or all there
				if len(c.Query) > 8 {
					for _, wl := range []coraza.WAF{wBodyRej, wBodyPart} {
						got, info, p := c03RunChunks(wl, "/p", nil, "application/x-www-form-urlencoded", []byte(c.Query), 8)
						if p == "" && info == "" && !bagEq(bagOf(kv), got[2]) {
							report("dropped-silently", "urlencoded-body+SecRequestBodyLimit", "ARGS_POST", c, fmt.Sprintf("body of %d bytes written as 8 + %d against a limit of 8: rules see %s of the data %s and no error variable / interruption reports the loss", len(c.Query), len(c.Query)-8, got[2], bagOf(kv)))
						}
					}
				}
				// the same list in the query string and in the body: ARGS is the union, each kept apart
				got, _, p = c03Run(w, "/p?"+string(c.Query), nil, "application/x-www-form-urlencoded", []byte(c.Query))
				if p == "" {
					check(c, "query-and-body", got, 1, "ARGS_GET", kv)
					check(c, "query-and-body", got, 2, "ARGS_POST", kv)
					check(c, "query-and-body", got, 3, "ARGS", append(append([][2]string{}, kv...), kv...))
					check(c, "query-and-body", got, 4, "ARGS_NAMES", append(append([][2]string{}, names...), names...))
				}
			}
			// (c) Cookie header, (d) request headers: only data those grammars can carry
			cookieOK := len(c.Pairs) > 0
			for _, p := range c.Pairs {
				if strings.ContainsAny(string(p.N), " %") || strings.ContainsAny(string(p.V), " ;") {
					cookieOK = false
				}
			}
			if cookieOK {
				got, _, p = c03Run(w, "/p", [][2]string{{"Cookie", string(c.Cookie)}}, "", nil)
				if p != "" {
					report("panic", "cookie", "-", c, p)
				} else {
					check(c, "cookie", got, 7, "REQUEST_COOKIES", kv)
					check(c, "cookie", got, 8, "REQUEST_COOKIES_NAMES", names)
				}
				var hs, want [][2]string
				for _, p := range c.Pairs {
					hs = append(hs, [2]string{"X-" + string(p.N), string(p.V)})
					want = append(want, [2]string{"X-" + string(p.N), string(p.V)})
				}
				want = append(want, [2]string{"Host", "h"})
				got, _, p = c03Run(w, "/p", hs, "", nil)
				if p == "" {
					check(c, "headers", got, 9, "REQUEST_HEADERS", want)
				}
			}
			// (e) argument limit below the number of arguments: somebody has to say so
			if len(c.Pairs) >= 2 && string(c.Pairs[0].N) != string(c.Pairs[1].N) {
				got, info, p := c03Run(wLimit, "/p?"+string(c.Query), nil, "", nil)
				if p == "" {
					wb := bagOf(kv)
					if !bagEq(wb, got[1]) && info == "" {
						report("dropped-silently", "query+SecArgumentsLimit", "ARGS_GET", c, fmt.Sprintf("rules see %s of the data %s and no error variable / interruption reports the loss", got[1], wb))
					}
				}
			}
			// (f) JSON object and multipart form (valid UTF-8 names and values only for JSON)
			jsonOK := len(c.Pairs) > 0
			for _, p := range c.Pairs {
				if !utf8.Valid(p.N) || !utf8.Valid(p.V) || strings.Contains(string(p.N), ".") {
					jsonOK = false
				}
			}
			if jsonOK {
				var sb bytes.Buffer
				sb.WriteString("{")
				var want, wn [][2]string
				for k, p := range c.Pairs {
					if k > 0 {
						sb.WriteString(",")
					}
					nb, _ := json.Marshal(string(p.N))
					vb, _ := json.Marshal(string(p.V))
					sb.Write(nb)
					sb.WriteString(":")
					sb.Write(vb)
					want = append(want, [2]string{"json." + string(p.N), string(p.V)})
					wn = append(wn, [2]string{"json." + string(p.N), "json." + string(p.N)})
				}
				sb.WriteString("}")
				got, _, p = c03Run(wJSON, "/p", nil, "application/json", sb.Bytes())
				if p != "" {
					report("panic", "json", "-", c, p)
				} else {
					check(c, "json", got, 2, "ARGS_POST", want)
					check(c, "json", got, 6, "ARGS_POST_NAMES", wn)
				}
			}
			xmlOK := len(c.Pairs) > 0
			for _, p := range c.Pairs {
				if !utf8.Valid(p.N) || !utf8.Valid(p.V) || len(p.V) == 0 || strings.ContainsAny(string(p.V), " \x0c\u00a0") || strings.ContainsAny(string(p.N), "\x0c") {
					xmlOK = false
				}
			}
			if xmlOK {
				for _, stray := range []bool{false, true} {
					var sb bytes.Buffer
					var texts, attrs [][2]string
					sb.WriteString("<r>")
					for k, p := range c.Pairs {
						if stray && k == len(c.Pairs)-1 {
							sb.WriteString("</x>") // a closing tag nobody opened, before the last element
						}
						sb.WriteString(`<e k="`)
						_ = xml.EscapeText(&sb, p.N)
						sb.WriteString(`">`)
						_ = xml.EscapeText(&sb, p.V)
						sb.WriteString("</e>")
						texts = append(texts, [2]string{"/*", string(p.V)})
						attrs = append(attrs, [2]string{"//@*", string(p.N)})
					}
					sb.WriteString("</r>")
					got, info, p := c03Run(wXML, "/p", nil, "text/xml", sb.Bytes())
					ch := "xml"
					if stray {
						ch = "xml+stray-closing-tag"
					}
					if p != "" {
						report("panic", ch, "-", c, p)
					} else if !stray || info == "" {
						// a malformed document must be flagged or still fully exposed
						check(c, ch, got, 15, "XML:/*", texts)
						check(c, ch, got, 16, "XML://@*", attrs)
					}
				}
			}
			mpOK := len(c.Pairs) > 0
			for _, p := range c.Pairs {
				if strings.ContainsAny(string(p.N), "\"\r\n\xff") {
					mpOK = false
				}
			}
			if mpOK {
				var mb bytes.Buffer
				mw := multipart.NewWriter(&mb)
				for _, p := range c.Pairs {
					fw, _ := mw.CreateFormField(string(p.N))
					_, _ = fw.Write(p.V)
				}
				var files, fnames, fsizes [][2]string
				total := 0
				for _, p := range c.Pairs {
					total += len(p.V)
				}
				for i, p := range c.Pairs {
					if strings.ContainsAny(string(p.V), "\"\r\n\xff") {
						continue
					}
					// every pair once more as an uploaded file: field name -> form name, "f"+value -> file name,
					// a content whose length tells the files apart (pairs with equal values share a file name)
					fw, _ := mw.CreateFormFile(string(p.N), "f"+string(p.V))
					content := strings.Repeat("c", 3*(i+1))
					_, _ = fw.Write([]byte(content))
					total += len(content)
					// (coraza keeps FILES and FILES_NAMES as flat lists under the empty key; only the values are the property's business)
					files = append(files, [2]string{"", "f" + string(p.V)})
					fnames = append(fnames, [2]string{"", string(p.N)})
					fsizes = append(fsizes, [2]string{"f" + string(p.V), strconv.Itoa(len(content))})
				}
				mw.Close()
				got, info, p := c03Run(w, "/p", nil, mw.FormDataContentType(), mb.Bytes())
				if p != "" {
					report("panic", "multipart", "-", c, p)
				} else if info == "" { // a part the MIME reader refuses is flagged by MULTIPART_STRICT_ERROR / REQBODY_ERROR
					check(c, "multipart", got, 12, "FILES", files)
					check(c, "multipart", got, 13, "FILES_NAMES", fnames)
					check(c, "multipart", got, 40, "FILES_SIZES", fsizes)
					check(c, "multipart", got, 41, "FILES_COMBINED_SIZE", [][2]string{{"", strconv.Itoa(total)}})
					check(c, "multipart", got, 2, "ARGS_POST", kv)
					check(c, "multipart", got, 6, "ARGS_POST_NAMES", names)
				}
				if len(c.Pairs) >= 2 {
					for _, ch := range []struct {
						name, ct string
						body     []byte
					}{{"multipart+SecArgumentsLimit", mw.FormDataContentType(), mb.Bytes()}, {"urlencoded-body+SecArgumentsLimit", "application/x-www-form-urlencoded", []byte(c.Query)}} {
						got, info, p := c03Run(wLimit, "/p", nil, ch.ct, ch.body)
						if p == "" && !bagEq(bagOf(kv), got[2]) && info == "" {
							report("dropped-silently", ch.name, "ARGS_POST", c, fmt.Sprintf("rules see %s of the data %s and no error variable / interruption reports the loss", got[2], bagOf(kv)))
						}
					}
				}
			}
		}(i, c)
	}
	cwg.Wait()
	c03Structured(run)
}

// c03Structured: JSON and XML documents (nesting, arrays, name collisions after flattening) and
// unparsable bodies, with the body processor forced by ctl.
func c03Structured(run *vf.Run) {
	rules := `
SecRuleEngine On
SecRequestBodyAccess On
SecAction "id:100,phase:1,pass,nolog,ctl:requestBodyProcessor=%s"
SecRule ARGS_POST "@unconditionalMatch" "id:2,phase:2,pass,nolog"
SecRule XML:/* "@unconditionalMatch" "id:3,phase:2,pass,nolog"
SecRule XML://@* "@unconditionalMatch" "id:4,phase:2,pass,nolog"
SecRule REQBODY_ERROR "@eq 1" "id:20,phase:2,pass,nolog"
`
	type sc struct {
		proc, ct, body string
		want           [][2]string // expected ARGS_POST bag (nil = not checked)
		mustErr        bool
		name           string
	}
	cases := []sc{
		{"JSON", "application/json", `{"a":"x","b":{"c":"y%2541"}}`, [][2]string{{"json.a", "x"}, {"json.b.c", "y%2541"}}, false, "nested object, value that looks percent-encoded"},
		{"JSON", "application/json", `{"n":1.50,"e":1e2,"z":-0.0,"big":12345678901234567890.5,"i":007,"t":true,"nil":null}`, nil, false, "number literals"},
		{"JSON", "application/json", `{"n":1.50,"e":1E+2,"z":-0.0,"big":12345678901234567890.5,"t":true,"nil":null}`, [][2]string{{"json.n", "1.50"}, {"json.e", "1E+2"}, {"json.z", "-0.0"}, {"json.big", "12345678901234567890.5"}, {"json.t", "true"}, {"json.nil", ""}}, false, "number literals are exposed as written"},
		{"JSON", "application/json", `{"a":["x","y"]}`, [][2]string{{"json.a", "2"}, {"json.a.0", "x"}, {"json.a.1", "y"}}, false, "array"},
		{"JSON", "application/json", `{"a":"1","a":"2"}`, nil, false, "duplicate key (both values must stay visible)"},
		{"JSON", "application/json", `{"a":`, nil, true, "truncated JSON"},
		{"JSON", "application/json", `{"a":"x"} trailing`, nil, true, "trailing garbage"},
		{"XML", "text/xml", `<a b="attr"><c>text</c></a>`, nil, false, "xml"},
		{"URLENCODED", "application/x-www-form-urlencoded", `a=1&a=2&A=3`, [][2]string{{"a", "1"}, {"a", "2"}, {"A", "3"}}, false, "repeated and mixed-case names"},
	}
	// multipart bodies announced by Content-Type headers whose parameters are written loosely or wrongly:
	// the body is parsed (fields visible) or an error variable / interruption reports it - never silently skipped
	{
		mpRules := "SecRuleEngine On\nSecRequestBodyAccess On\nSecRule ARGS_POST \"@unconditionalMatch\" \"id:2,phase:2,pass,nolog\"\nSecRule REQBODY_ERROR|MULTIPART_STRICT_ERROR \"!@eq 0\" \"id:20,phase:2,pass,nolog\"\n"
		w, err := coraza.NewWAF(coraza.NewWAFConfig().WithDirectives(mpRules))
		if err != nil {
			run.Inconclusive("multipart header rules rejected: %v", err)
			return
		}
		body := "--X\r\nContent-Disposition: form-data; name=\"a\"\r\n\r\nv1\r\n--X--\r\n"
		for _, ct := range []string{"multipart/form-data; boundary=X", "multipart/form-data;boundary=X", "Multipart/Form-Data; boundary=X", "multipart/form-data; boundary=\"X\"",
			"multipart/form-data; boundary=X; charset", "multipart/form-data; boundary = X; x=\"", "multipart/form-data boundary=X", "multipart/form-data; boundary=X; boundary=X",
			"multipart/form-data; charset=utf-8; boundary=X", "multipart/form-data", "multipart/form-data; boundary="} {
			got, info, p := c03Run(w, "/p", nil, ct, []byte(body))
			run.Eval("multipart-header:" + ct)
			if p != "" {
				run.Violate(vf.Violation{Signature: "vis:panic|multipart-header", What: "panic while processing a multipart body announced by Content-Type " + strconv.Quote(ct) + ": " + p, Replay: map[string]any{"content_type": ct, "body": body}})
				continue
			}
			if !bagEq(bagOf([][2]string{{"a", "v1"}}), got[2]) && info == "" {
				run.Violate(vf.Violation{Signature: "vis:dropped-silently|multipart-header", What: fmt.Sprintf("a multipart body announced by Content-Type %q: rules see ARGS_POST %s instead of {a=v1} and neither REQBODY_ERROR / MULTIPART_STRICT_ERROR nor an interruption reports that the body was not parsed", ct, got[2]),
					Replay: map[string]any{"content_type": ct, "body": body, "directives": mpRules}})
				break
			}
		}
		closeAny(w)
	}
	for _, c := range cases {
		w, err := coraza.NewWAF(coraza.NewWAFConfig().WithDirectives(fmt.Sprintf(rules, c.proc)))
		if err != nil {
			run.Inconclusive("structured-body rules rejected: %v", err)
			return
		}
		got, info, p := c03Run(w, "/p", nil, c.ct, []byte(c.body))
		closeAny(w)
		run.Eval("structured:" + c.name)
		if p != "" {
			run.Violate(vf.Violation{Signature: "vis:panic|" + c.proc, What: "panic while processing " + c.name + ": " + p, Replay: map[string]any{"body": c.body, "processor": c.proc}})
			continue
		}
		if c.want != nil && !bagEq(bagOf(c.want), got[2]) {
			run.Violate(vf.Violation{Signature: "vis:exposure-differs|" + c.proc + "+ARGS_POST+" + strings.ReplaceAll(c.name, " ", "-"),
				What:   fmt.Sprintf("%s body %q (%s): rules see ARGS_POST %s, the document holds %s", c.proc, c.body, c.name, got[2], bagOf(c.want)),
				Replay: map[string]any{"body": c.body, "processor": c.proc}})
		}
		if c.name == "duplicate key (both values must stay visible)" {
			n := 0
			for k, cnt := range got[2] {
				if strings.HasPrefix(k, "json.a\x00") {
					n += cnt
				}
			}
			if n < 2 && info == "" {
				run.Violate(vf.Violation{Signature: "vis:dropped-silently|JSON+duplicate-key",
					What:   fmt.Sprintf("JSON body %q: only %d of the two values of key a are visible (%s) and no error variable says so", c.body, n, got[2]),
					Replay: map[string]any{"body": c.body, "processor": c.proc}})
			}
		}
		if c.mustErr && !strings.Contains(info, "error-variable") && !strings.Contains(info, "interrupted") {
			run.Violate(vf.Violation{Signature: "vis:unparsable-body-not-flagged|" + c.proc + "+" + strings.ReplaceAll(c.name, " ", "-"),
				What:   fmt.Sprintf("%s body %q (%s) cannot be parsed, yet neither REQBODY_ERROR nor an interruption says so", c.proc, c.body, c.name),
				Replay: map[string]any{"body": c.body, "processor": c.proc}})
		}
		if c.proc == "XML" && !c.mustErr {
			if !bagEq(got[3], bagOf([][2]string{{"", "text"}})) && len(got[3]) == 0 {
				run.Violate(vf.Violation{Signature: "vis:exposure-differs|XML+text", What: fmt.Sprintf("XML body %q: XML:/* exposes %s, expected the text content", c.body, got[3]), Replay: map[string]any{"body": c.body}})
			}
			if len(got[4]) == 0 {
				run.Violate(vf.Violation{Signature: "vis:exposure-differs|XML+attr", What: fmt.Sprintf("XML body %q: XML://@* exposes nothing, expected the attribute value", c.body), Replay: map[string]any{"body": c.body}})
			}
		}
	}
}
