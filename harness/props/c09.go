package props

import (
	"time"

	"github.com/corazawaf/coraza/v3/verifharness/eng"
	"github.com/corazawaf/coraza/v3/verifharness/vf"
)

func init() { Registry["C09"] = C09 }

// C09: non-disruptive actions run once per match; counters add up exactly.
func C09(run *vf.Run) {
	run.Rule = "TLC enumerates the acts family of Engine.tla: a counting rule with every action list (setvar +N/-N/assign/delete, macro operands %{tx.k}, %{MATCHED_VAR}, macro-built keys) x multiMatch x chain shape (none / plain link / counting link / disruptive starter) x severity x phase, [a second counting rule], and a threshold rule TX:n @ge 2 deny, over every request of <=N ARGS_GET entries (+ optional ARGS_POST); every iteration order is explored; final TX contents, HIGHEST_SEVERITY, fired rules and the threshold interruption of the real library are compared with the specification. Then recorded executions of random rule sets with actions are validated event by event against Engine_Trace. Non-trivial = at least one rule fires"
	run.Exhaustive = true
	run.Assume("TLC 1.8.0 explores the bounded Engine_MC instance completely")
	run.Assume("setvar arithmetic is only specified for integer operands; generators only produce those")
	to := vf.Pick(run, 10*time.Minute, 90*time.Minute)
	two := vf.Pick(run, 0, 1)
	eng.ReplayFamily(run, eng.FamilyOpts{Name: "acts", CfgText: engineCfg("acts", vf.Pick(run, 2, 3), two, "{1, 2}", `{"On"}`),
		Proj: eng.ProjOpts{}, Timeout: to, Workers: 3, Slices: 6})
	if !eng.BindingSelfTest(run) {
		return
	}
	eng.TraceFamily(run, "acts-trace", vf.Pick(run, 600, 6000), 200,
		eng.GenOpts{MaxRules: 4, MaxEntries: 4, Actions: true, Chains: true, Flow: true, Engines: []string{"On", "On", "DetectionOnly"}}, 9)
	if run.NumViolations() > 0 || len(run.InconclusiveList()) > 0 {
		return
	}
	// code -> spec over arbitrary rule sets: recorded executions of the repository's test profiles, the Core Rule Set and
	// generated rule sets must be behaviours of Flow.tla (Flow_Trace.tla)
	FlowTraceStage(run, "crs", "generated")
}
