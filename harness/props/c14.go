package props

import (
	"bytes"
	"crypto/md5"
	"crypto/sha1"
	"encoding/json"
	"fmt"
	"sort"
	"strconv"
	"strings"
	"sync"
	"time"
	"unsafe"

	"github.com/corazawaf/coraza/v3/internal/transformations"
	"github.com/corazawaf/coraza/v3/verifharness/eng"
	"github.com/corazawaf/coraza/v3/verifharness/vf"
)

func init() { Registry["C14"] = C14 }

var allTransformations = []string{"base64Decode", "base64DecodeExt", "base64Encode", "cmdLine", "compressWhitespace", "cssDecode",
	"escapeSeqDecode", "hexDecode", "hexEncode", "htmlEntityDecode", "jsDecode", "length", "lowercase", "md5", "none", "normalisePath",
	"normalisePathWin", "removeComments", "removeCommentsChar", "removeNulls", "removeWhitespace", "replaceComments", "replaceNulls",
	"sha1", "uppercase", "urlDecode", "urlDecodeUni", "urlEncode", "utf8toUnicode", "trim", "trimLeft", "trimRight"}

type tfRec struct {
	Name    string    `json:"name"`
	In      eng.Bytes `json:"in"`
	Out     eng.Bytes `json:"out"`
	Changed bool      `json:"changed"`
	Out2    eng.Bytes `json:"out2"`
	Later   eng.Bytes `json:"outLater"`
	InAfter eng.Bytes `json:"inAfter"`
	Aliased bool      `json:"aliased"`
	Err     bool      `json:"err"`
	Comp    string    `json:"comp"`
	Base    eng.Bytes `json:"base"`
}

func nb(b []byte) eng.Bytes {
	if b == nil {
		return eng.Bytes{}
	}
	return eng.Bytes(b)
}

// callTf evaluates a transformation on a private copy of the input whose bytes we can inspect afterwards.
func callTf(name string, in []byte) (out string, changed bool, errd bool, inAfter []byte, panicked string) {
	out, _, changed, errd, inAfter, panicked = callTfRaw(name, in)
	return
}

// callTfRaw also hands back the value exactly as the transformation returned it (not copied), so that
// it can be read again later.
func callTfRaw(name string, in []byte) (out, raw string, changed bool, errd bool, inAfter []byte, panicked string) {
	defer func() {
		if r := recover(); r != nil {
			panicked = fmt.Sprint(r)
		}
	}()
	t, err := transformations.GetTransformation(name)
	if err != nil {
		return "", "", false, true, in, "unknown transformation " + name
	}
	buf := append([]byte{}, in...)
	s := ""
	if len(buf) > 0 {
		s = unsafe.String(&buf[0], len(buf))
	}
	o, ch, e := t(s)
	out = strings.Clone(o)
	return out, o, ch, e != nil, append([]byte{}, buf...), ""
}

// C14: transformations are total, pure functions with sound change reports.
func C14(run *vf.Run) {
	run.Rule = "Transform.tla: byte-wise reference definitions (lowercase, uppercase, length, hexEncode/hexDecode, urlDecode, removeNulls, replaceNulls, removeWhitespace, compressWhitespace, trim*, none) and the laws every transformation obeys (Pure, OutputStable - a returned value reads the same after the transformation ran again on other inputs -, InputIntact, ChangeSound, inverse pairs hexDecode.hexEncode / base64Decode.base64Encode / urlDecode.urlEncode = id, idempotence of trimming / whitespace / NUL removal / case mapping). Transform_MC enumerates every byte string over an adversarial alphabet (letters of both cases, space, tab, NUL, %, +, hex digits, backslash, &, the two bytes of a no-break space 0xC2 0xA0 - so that deleting a byte between them creates one -, 0xC3, 0xFF) up to MaxLen - truncated escapes at every offset are in it by construction - plus every string of length 4 over the delimiters of character references and escapes {& # 0 x ; a \\ u}, and TLC checks the model's own laws; the real registered transformations (all 32) are evaluated on every input on a private buffer, the function table (input, output, changed flag, second evaluation, the first output read again after evaluations of other inputs, input bytes afterwards, compositions) is recorded and Transform_Trace checks every law on every record; md5 / sha1 / length are compared with Go's crypto and strconv. Non-trivial = record whose output differs from its input"
	run.Exhaustive = true
	run.Assume("md5 / sha1 / base64 reference values come from the Go standard library (trusted base)")
	run.Assume("lowercase / uppercase / removeWhitespace / compressWhitespace reference equality is asserted on ASCII inputs only (on invalid UTF-8 the standard definition is ambiguous)")
	maxLen := vf.Pick(run, 3, 3)
	alphabet := "{97, 65, 32, 9, 0, 37, 43, 50, 102, 255, 92, 38, 194, 160}"
	if run.Thorough() {
		alphabet = "{97, 65, 32, 9, 0, 37, 43, 50, 102, 255, 92, 38, 160, 194, 195, 47, 120, 117, 35, 59}"
	}
	var inputs [][]byte
	var mu sync.Mutex
	res, err := vf.RunTLC(vf.TLCOpts{Module: "Transform_MC", CfgText: fmt.Sprintf("SPECIFICATION Spec\nCONSTANTS\n  Alphabet = %s\n  MaxLen = %d\nINVARIANTS RefInverse RefIdem RefLenPreserved Emit\n", alphabet, maxLen),
		Workers: 8, Timeout: vf.Pick(run, 10*time.Minute, 60*time.Minute),
		OnOut: func(raw json.RawMessage) {
			var d struct {
				In eng.Bytes `json:"in"`
			}
			if json.Unmarshal(raw, &d) == nil {
				mu.Lock()
				inputs = append(inputs, []byte(d.In))
				mu.Unlock()
			}
		}})
	if err != nil {
		run.Inconclusive("Transform_MC: %v", err)
		return
	}
	run.AddTLC(res)
	run.Logf("Transform_MC: %s; %d inputs", res.Describe(), len(inputs))
	if res.Violated != "" || !res.OK() || len(inputs) == 0 {
		run.Inconclusive("Transform_MC: TLC did not complete cleanly (a law of the reference definitions fails?): %s\n%s", res.Describe(), res.ErrorText)
		return
	}
	// a second domain for the entity / escape decoders: the delimiters of character references and escapes, to length 4
	res2, err := vf.RunTLC(vf.TLCOpts{Module: "Transform_MC", CfgText: "SPECIFICATION Spec\nCONSTANTS\n  Alphabet = {38, 35, 48, 120, 59, 97, 92, 117}\n  MaxLen = 4\nINVARIANTS RefInverse RefIdem RefLenPreserved Emit\n",
		Workers: 8, Timeout: vf.Pick(run, 10*time.Minute, 60*time.Minute),
		OnOut: func(raw json.RawMessage) {
			var d struct {
				In eng.Bytes `json:"in"`
			}
			if json.Unmarshal(raw, &d) == nil && len(d.In) == 4 { // the shorter ones are in the first domain's spirit already
				mu.Lock()
				inputs = append(inputs, []byte(d.In))
				mu.Unlock()
			}
		}})
	if err != nil || res2.Violated != "" || !res2.OK() {
		run.Inconclusive("Transform_MC (reference domain 2): %v %v", err, res2)
		return
	}
	run.AddTLC(res2)
	sort.Slice(inputs, func(i, j int) bool { return bytes.Compare(inputs[i], inputs[j]) < 0 })
	// longer, structured inputs produced from the same alphabet (long runs, escapes at the very end)
	extra := [][]byte{[]byte("%"), []byte("%4"), []byte("%41"), []byte("a%4"), []byte("\\x4"), []byte("\\x"), []byte("\\u00"), []byte("&#x4"), []byte("&#"), []byte("&amp"), []byte("&lt;"),
		[]byte("\\u0041"), []byte("%u0041"), []byte("%u00"), []byte("/a/../b/./c"), []byte("a/*b*/c"), []byte("a/*b"), []byte("<!--x-->y"), []byte("--x\ny"), []byte("#x\ny"),
		bytes.Repeat([]byte(" "), 70), bytes.Repeat([]byte("%41"), 40), bytes.Repeat([]byte{0}, 33), bytes.Repeat([]byte("A"), 300), []byte("SELECT \xc3\x89"), []byte("\xc3\x89 SELECT"), []byte("a+b"), []byte("QUJD"), []byte("QUJ"), []byte("Q=="), []byte("c^md /c  \"dir\""), []byte("abc\\x4")}
	inputs = append(inputs, extra...)
	reported := map[string]bool{}
	report := func(kind, name string, in []byte, detail string) {
		sig := "tf:" + kind + "|" + name
		if reported[sig] {
			return
		}
		reported[sig] = true
		run.Violate(vf.Violation{Signature: sig, What: fmt.Sprintf("%s: transformation %s on input %q: %s", kind, name, string(in), detail),
			Replay: map[string]any{"family": "transform", "name": name, "input": eng.Bytes(in)}})
	}
	var table bytes.Buffer
	enc := json.NewEncoder(&table)
	nrec := 0
	emit := func(r tfRec) {
		_ = enc.Encode(&r)
		nrec++
	}
	idem := map[string]bool{"trim": true, "trimLeft": true, "trimRight": true, "removeWhitespace": true, "compressWhitespace": true, "removeNulls": true, "replaceNulls": true, "lowercase": true, "uppercase": true, "none": true}
	inverse := [][2]string{{"hexEncode", "hexDecode"}, {"base64Encode", "base64Decode"}, {"urlEncode", "urlDecode"}}
	for ii, in := range inputs {
		for _, name := range allTransformations {
			out, raw, ch, errd, inAfter, p := callTfRaw(name, in)
			if p != "" {
				report("panic", name, in, p)
				continue
			}
			// the same transformation on other inputs, then the first result is read again
			callTf(name, append(append([]byte{}, in...), 'z'))
			callTf(name, append([]byte{'Q'}, in...))
			later := strings.Clone(raw)
			out2, _, _, _, _ := callTf(name, in)
			nt := ""
			if out != string(in) {
				nt = name + "\x00" + string(in)
			}
			run.Eval(nt)
			emit(tfRec{Name: name, In: nb(in), Out: nb([]byte(out)), Changed: ch, Out2: nb([]byte(out2)), Later: nb([]byte(later)), InAfter: nb(inAfter), Err: errd, Comp: "", Base: eng.Bytes{}})
			if ii%577 == 0 && name == "urlDecode" {
				run.Sample(map[string]any{"transformation": name, "input": string(in), "output": out, "changed": ch})
			}
			// standard definitions supplied by the Go standard library
			switch name {
			case "md5":
				if want := md5.Sum(in); out != string(want[:]) {
					report("differs-from-standard-definition", name, in, fmt.Sprintf("got %x want %x", out, want))
				}
			case "sha1":
				if want := sha1.Sum(in); out != string(want[:]) {
					report("differs-from-standard-definition", name, in, fmt.Sprintf("got %x want %x", out, want))
				}
			case "length":
				if out != strconv.Itoa(len(in)) {
					report("differs-from-standard-definition", name, in, fmt.Sprintf("got %q want %d", out, len(in)))
				}
			}
			if idem[name] {
				o2, _, _, _, _ := callTf(name, []byte(out))
				emit(tfRec{Name: name, In: nb(in), Out: nb([]byte(o2)), Out2: nb([]byte(o2)), Later: nb([]byte(o2)), InAfter: nb(in), Comp: "twice", Base: nb([]byte(out))})
			}
		}
		for _, pr := range inverse {
			mid, _, e1, _, p1 := callTf(pr[0], in)
			back, _, e2, _, p2 := callTf(pr[1], []byte(mid))
			if p1 != "" || p2 != "" {
				continue
			}
			emit(tfRec{Name: pr[0] + "+" + pr[1], In: nb(in), Out: nb([]byte(back)), Out2: nb([]byte(back)), Later: nb([]byte(back)), InAfter: nb(in), Err: e1 || e2, Comp: "inverse", Base: nb([]byte(mid))})
		}
	}
	run.Logf("recorded function table: %d records; validating the laws with TLC (Transform_Trace)", nrec)
	tres, err := vf.RunTLC(vf.TLCOpts{Module: "Transform_Trace", CfgText: "SPECIFICATION Spec\nINVARIANT LawsHold\nCHECK_DEADLOCK FALSE\n", Workers: 1, Timeout: vf.Pick(run, 15*time.Minute, 90*time.Minute),
		Files: map[string][]byte{"table.ndjson": table.Bytes()}, HeapMB: 12288})
	if err != nil {
		run.Inconclusive("Transform_Trace: %v", err)
		return
	}
	run.AddTLC(tres)
	run.TraceValidated(1)
	run.Extra["function_table_records"] = nrec
	if tres.Violated == "LawsHold" {
		joined := strings.Join(tres.Marks, "\n") + "\n" + strings.Join(tres.Tail, "\n") + tres.ErrorText
		law, name, in := "?", "?", ""
		if i := strings.Index(joined, "LAW_BROKEN"); i >= 0 {
			rest := joined[i:]
			if j := strings.Index(rest, "\n"); j > 0 {
				rest = rest[:j]
			}
			parts := strings.SplitN(rest, ",", 4)
			if len(parts) >= 4 {
				law = strings.Trim(parts[2], " \"")
				var rec tfRec
				js := strings.TrimSpace(parts[3])
				if k := strings.LastIndex(js, "\">>"); k >= 0 {
					js = js[:k+1]
				}
				if uq, err := strconv.Unquote(js); err == nil {
					if json.Unmarshal([]byte(uq), &rec) == nil {
						name, in = rec.Name, string(rec.In)
						run.Violate(vf.Violation{Signature: "tf:law-" + law + "|" + name,
							What:   fmt.Sprintf("law %s of Transform.tla broken by the real %s on input %q: out=%q changed=%v second evaluation=%q input afterwards=%q base=%q", law, name, in, string(rec.Out), rec.Changed, string(rec.Out2), string(rec.InAfter), string(rec.Base)),
							Replay: map[string]any{"family": "transform", "record": rec, "law": law}})
						return
					}
				}
			}
		}
		run.Violate(vf.Violation{Signature: "tf:law-" + law + "|" + name, What: "a law of Transform.tla is broken by a recorded evaluation: " + lastLines(joined, 6), Replay: map[string]any{"family": "transform"}})
		return
	}
	if !tres.OK() {
		run.Inconclusive("Transform_Trace: TLC did not complete: %s\n%s", tres.Describe(), strings.Join(tres.Tail, "\n"))
	}
}
