package props

import (
	"fmt"
	"time"

	"github.com/corazawaf/coraza/v3/verifharness/eng"
	"github.com/corazawaf/coraza/v3/verifharness/vf"
)

func init() { Registry["C01"] = C01 }

// engineCfg is the cfg text of an Engine_MC family.
func engineCfg(family string, n, maxChain int, phases, engines string) string {
	return fmt.Sprintf(`SPECIFICATION Spec
CONSTANTS
  Family = "%s"
  N = %d
  MaxChain = %d
  Phases = %s
  Engines = %s
  Slice = %%SLICE%%
  Slices = %%SLICES%%
  CacheOn = FALSE
  CacheDesign = "byValue"
INVARIANTS Emit NoLeakAcrossPhases DetectionOnlySilent FiredInOrder FiredHaveData LoggingReached
PROPERTIES InterruptFinal NothingAfterInterrupt
CHECK_DEADLOCK FALSE
VIEW View
`, family, n, maxChain, phases, engines)
}

// C01: rule matching is exact.
func C01(run *vf.Run) {
	run.Rule = "TLC enumerates families over Engine.tla: select2 (two targets over one collection followed by an exclusion written once after both), select (every target shape: collection x all/string/regex key x count x exclusion, over every request of <=N entries with duplicate, mixed-case keys in several collections), operate (transformation lists x operators x negation x multiMatch over requests with varying values), chain (2-3 link chains over ARGS_POST / MATCHED_VAR / MATCHED_VARS / counts); every runtime iteration order is explored; each scenario is replayed on the real library and MatchedRules()/MatchedDatas() compared with the outcomes the specification allows; non-trivial = the rule fires in the specification"
	run.Exhaustive = true
	run.Assume("TLC 1.8.0 explores the bounded Engine_MC instances completely")
	run.Assume("regex-key case reading is left open (Choice_RxKey): the key as sent, case-insensitive, or the folded key are all accepted")
	to := vf.Pick(run, 10*time.Minute, 90*time.Minute)
	eng.ReplayFamily(run, eng.FamilyOpts{Name: "select", CfgText: engineCfg("select", vf.Pick(run, 2, 3), 0, vf.Pick(run, "{2}", "{1, 2}"), `{"On"}`),
		Proj: eng.ProjOpts{FoldMDKeys: true}, Timeout: to, Workers: 3, Slices: 6})
	eng.ReplayFamily(run, eng.FamilyOpts{Name: "select2", CfgText: engineCfg("select2", 2, 0, "{2}", `{"On"}`),
		Proj: eng.ProjOpts{FoldMDKeys: true}, Timeout: to, Workers: 3, Slices: 3})
	eng.ReplayFamily(run, eng.FamilyOpts{Name: "operate", CfgText: engineCfg("operate", vf.Pick(run, 2, 3), 0, "{2}", `{"On"}`),
		Proj: eng.ProjOpts{}, Timeout: to, Workers: 3, Slices: 6})
	// the pair family is replayed serially in one process, where the process-wide pattern cache is shared
	eng.ReplayFamily(run, eng.FamilyOpts{Name: "pair", CfgText: engineCfg("pair", vf.Pick(run, 2, 3), 0, "{2}", `{"On"}`),
		Proj: eng.ProjOpts{FoldMDKeys: true}, Timeout: to, Workers: 3, Slices: 6})
	eng.ReplayFamily(run, eng.FamilyOpts{Name: "chain", CfgText: engineCfg("chain", vf.Pick(run, 2, 3), vf.Pick(run, 1, 2), "{2}", `{"On"}`),
		Proj: eng.ProjOpts{}, Timeout: to, Workers: 3, Slices: 6})
}
