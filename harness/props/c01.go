package props

import (
	"fmt"
	"sort"
	"strings"

	coraza "github.com/corazawaf/coraza/v3"
	"github.com/corazawaf/coraza/v3/experimental/plugins/plugintypes"
	"time"

	"github.com/corazawaf/coraza/v3/verifharness/eng"
	"github.com/corazawaf/coraza/v3/verifharness/vf"
)

func init() { Registry["C01"] = C01 }

// engineCfg is the cfg text of an Engine_MC family.
func engineCfg(family string, n, maxChain int, phases, engines string) string {
	return fmt.Sprintf(`SPECIFICATION Spec
CONSTANTS
  Family = "%s"
  N = %d
  MaxChain = %d
  Phases = %s
  Engines = %s
  Slice = %%SLICE%%
  Slices = %%SLICES%%
  CacheOn = FALSE
  CacheDesign = "byValue"
INVARIANTS Emit NoLeakAcrossPhases DetectionOnlySilent FiredInOrder FiredHaveData LoggingReached
PROPERTIES InterruptFinal NothingAfterInterrupt
CHECK_DEADLOCK FALSE
VIEW View
`, family, n, maxChain, phases, engines)
}

// C01: rule matching is exact.
func C01(run *vf.Run) {
	run.Rule = "TLC enumerates families over Engine.tla: select2 (two targets over one collection followed by an exclusion written once after both), select (every target shape: collection x all/string/regex key x count x exclusion, over every request of <=N entries with duplicate, mixed-case keys in several collections), operate (transformation lists x operators x negation x multiMatch over requests with varying values), chain (2-3 link chains over ARGS_POST / MATCHED_VAR / MATCHED_VARS / counts); every runtime iteration order is explored; each scenario is replayed on the real library and MatchedRules()/MatchedDatas() compared with the outcomes the specification allows; non-trivial = the rule fires in the specification"
	run.Exhaustive = true
	run.Assume("TLC 1.8.0 explores the bounded Engine_MC instances completely")
	run.Assume("regex-key case reading is left open (Choice_RxKey): the key as sent, case-insensitive, or the folded key are all accepted")
	to := vf.Pick(run, 10*time.Minute, 90*time.Minute)
	eng.ReplayFamily(run, eng.FamilyOpts{Name: "select", CfgText: engineCfg("select", vf.Pick(run, 2, 3), 0, vf.Pick(run, "{2}", "{1, 2}"), `{"On"}`),
		Proj: eng.ProjOpts{FoldMDKeys: true}, Timeout: to, Workers: 3, Slices: 6})
	eng.ReplayFamily(run, eng.FamilyOpts{Name: "select2", CfgText: engineCfg("select2", 2, 0, "{2}", `{"On"}`),
		Proj: eng.ProjOpts{FoldMDKeys: true}, Timeout: to, Workers: 3, Slices: 3})
	eng.ReplayFamily(run, eng.FamilyOpts{Name: "operate", CfgText: engineCfg("operate", vf.Pick(run, 2, 3), 0, "{2}", `{"On"}`),
		Proj: eng.ProjOpts{}, Timeout: to, Workers: 3, Slices: 6})
	// the pair family is replayed serially in one process, where the process-wide pattern cache is shared
	eng.ReplayFamily(run, eng.FamilyOpts{Name: "pair", CfgText: engineCfg("pair", vf.Pick(run, 2, 3), 0, "{2}", `{"On"}`),
		Proj: eng.ProjOpts{FoldMDKeys: true}, Timeout: to, Workers: 3, Slices: 6})
	eng.ReplayFamily(run, eng.FamilyOpts{Name: "chain", CfgText: engineCfg("chain", vf.Pick(run, 2, 3), vf.Pick(run, 1, 2), "{2}", `{"On"}`),
		Proj: eng.ProjOpts{}, Timeout: to, Workers: 3, Slices: 6})
	scaleMatchData(run, "select")
}

// scaleMatchData: in Engine.tla the match data of a fired rule is the bag of ALL satisfying triples, whatever
// their number, and it does not depend on the order the collection is walked in. The scenario "every value of
// the collection satisfies the operator" is replayed with K distinct keys (K crosses 100, 256, 1000, 65536)
// several times on one WAF and on fresh ones: the rule must report exactly the K triples every time.
func scaleMatchData(run *vf.Run, fam string) {
	text := "SecRuleEngine On\nSecArgumentsLimit 70000\nSecRule ARGS_GET \"@contains v\" \"id:1,phase:1,pass,t:lowercase,setvar:tx.n=+1\"\nSecRule REQUEST_HEADERS:/^x-k/ \"@contains v\" \"id:2,phase:1,pass\"\n"
	long, err := coraza.NewWAF(coraza.NewWAFConfig().WithDirectives(text))
	if err != nil {
		run.Inconclusive("scale configuration rejected: %v", err)
		return
	}
	defer closeAny(long)
	for _, k := range []int{1, 99, 100, 101, 150, 255, 256, 257, 1000, vf.Pick(run, 5000, 66000)} {
		var first string
		for rep := 0; rep < 4; rep++ {
			w := long
			if rep%2 == 1 {
				w, err = coraza.NewWAF(coraza.NewWAFConfig().WithDirectives(text))
				if err != nil {
					run.Inconclusive("scale configuration rejected: %v", err)
					return
				}
			}
			tx := w.NewTransaction()
			for i := 0; i < k; i++ {
				tx.AddGetRequestArgument(fmt.Sprintf("k%d", i), fmt.Sprintf("V%d", i))
				if i < 300 {
					tx.AddRequestHeader(fmt.Sprintf("X-K%d", i), fmt.Sprintf("v%d", i))
				}
			}
			tx.ProcessRequestHeaders()
			got := map[int]map[string]int{1: {}, 2: {}}
			for _, mr := range tx.MatchedRules() {
				for _, md := range mr.MatchedDatas() {
					if m := got[mr.Rule().ID()]; m != nil {
						m[md.Key()+"="+md.Value()]++
					}
				}
			}
			n := ""
			if ts, ok := tx.(plugintypes.TransactionState); ok {
				if v := ts.Variables().TX().Get("n"); len(v) > 0 {
					n = v[0]
				}
			}
			_ = tx.Close()
			if rep%2 == 1 {
				closeAny(w)
			}
			run.Eval(fmt.Sprintf("scale-md-%d", k))
			kh := k
			if kh > 300 {
				kh = 300
			}
			if len(got[1]) != k || len(got[2]) != kh || n != fmt.Sprint(k) {
				run.Violate(vf.Violation{Signature: fam + ":scaled-instance|match-data-count", What: fmt.Sprintf("%d arguments (distinct names) all satisfy rule 1 and %d headers rule 2: the rules must report %d and %d triples and TX.n must be %d; reported %d and %d, TX.n=%q || %s", k, kh, k, kh, k, len(got[1]), len(got[2]), n, strings.ReplaceAll(text, "\n", " ; ")),
					Replay: map[string]any{"family": "scale-match-data", "k": k, "directives": text}})
				return
			}
			keys := make([]string, 0, k)
			for x := range got[1] {
				keys = append(keys, x)
			}
			sort.Strings(keys)
			sum := vf.Hash(keys...)
			if rep == 0 {
				first = sum
			} else if sum != first {
				run.Violate(vf.Violation{Signature: fam + ":scaled-instance|match-data-varies", What: fmt.Sprintf("%d arguments all satisfying one rule: the set of reported triples differs between repetitions", k), Replay: map[string]any{"family": "scale-match-data", "k": k, "directives": text}})
				return
			}
		}
	}
}
