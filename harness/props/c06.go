package props

import (
	"bytes"
	"encoding/json"
	"fmt"
	"os"
	"os/exec"
	"path/filepath"
	"strings"
	"time"

	coraza "github.com/corazawaf/coraza/v3"
	"github.com/corazawaf/coraza/v3/debuglog"
	"github.com/corazawaf/coraza/v3/verifharness/vf"
)

func init() { Registry["C06"] = C06 }

func memoConcCfg(builders, prekeys string) string {
	return fmt.Sprintf("SPECIFICATION Spec\nCONSTANTS\n  Builders = %s\n  Closers = {11}\n  Keys = {\"k1\", \"k2\"}\n  PreKeys = %s\n  Old = 21\nINVARIANTS NoDeletedInCache DoReturnsOwnKey ValueEntryOwnedOrGone NoLeak\n", builders, prekeys)
}

// C06: a WAF is safe to share: concurrent transactions are race-free and independent.
func C06(run *vf.Run) {
	run.Rule = "MemoConc.tla (PlusCal): the Do / Release protocol of the process-wide pattern cache with one label per critical section of internal/memoize/sync.go (lock-free fast path, entry mutex, singleflight leader / followers, post-registration, Release marking and deleting); TLC explores every interleaving of 2 (thorough: 3) builders asking for 2 keys while a closer releases the WAF that owns the pre-cached entries, checking deadlock freedom, NoDeletedInCache, DoReturnsOwnKey, ValueEntryOwnedOrGone, NoLeak. The real library is then stressed under the Go race detector (-race -tags verif): G goroutines run generated transactions on one shared WAF (rx / pm / chains / ctl run-time exclusions / setvar / capture / shared serial audit log) while B goroutines build, probe and close WAFs sharing cached patterns, with runtime.Gosched injected at the verif yield points of memoize.Do / Release; every transaction's outcome is compared with the same request run alone, the quiescent cache is checked against the model's invariants, the audit log must hold one JSON document per transaction; WAFs built at the same moment over never-seen transformation chains keep the table numbering the chains sound (TfTable.tla: all interleavings of 3 builders in TLC, the invariant TableSound evaluated on the real table after every racing round, a behavioural probe per built WAF); two transactions in flight derive independent debug loggers from the WAF's logger whatever context it already carries. Non-trivial = a concurrently executed transaction"
	run.Assume("the Go scheduler is sampled, not enumerated: interleavings inside the stress are those the race detector run produces with yield injection; the memoize protocol itself is explored exhaustively at the grain of its critical sections in TLA+")
	builders := vf.Pick(run, "{1, 2}", "{1, 2, 3}")
	for _, pre := range []string{`{"k1"}`, `{"k1", "k2"}`, `{}`} {
		res, err := vf.RunTLC(vf.TLCOpts{Module: "MemoConc_MC", CfgText: memoConcCfg(builders, pre), Workers: 12, Timeout: vf.Pick(run, 10*time.Minute, 60*time.Minute)})
		if err != nil {
			run.Inconclusive("MemoConc: %v", err)
			return
		}
		run.AddTLC(res)
		run.Logf("MemoConc.tla PreKeys=%s: %s", pre, res.Describe())
		if res.Violated != "" {
			run.Inconclusive("MemoConc.tla: invariant %s violated in TLC (design-level finding, to be replayed before it counts):\n%s", res.Violated, res.ErrorText)
			return
		}
		if !res.OK() {
			if strings.Contains(strings.Join(res.Tail, "\n"), "Deadlock") {
				run.Inconclusive("MemoConc.tla: TLC reports a deadlock of the protocol:\n%s", strings.Join(res.Tail, "\n"))
			} else {
				run.Inconclusive("MemoConc.tla: TLC did not complete: %s\n%s", res.Describe(), strings.Join(res.Tail, "\n"))
			}
			return
		}
	}
	// the table numbering transformation chains: the code's design (one critical section) is sound for every
	// interleaving of 3 builders; the two-step design must be refuted (self-test of the model)
	for _, design := range []string{"mutex", "rwlock"} {
		res, err := vf.RunTLC(vf.TLCOpts{Module: "TfTable", CfgText: fmt.Sprintf("SPECIFICATION Spec\nCONSTANTS\n  Builders = {1, 2, 3}\n  Names = {\"x\", \"y\", \"z\"}\n  Design = \"%s\"\n  MaxRegs = %d\nINVARIANT TableSound\nCHECK_DEADLOCK FALSE\n", design, vf.Pick(run, 2, 3)),
			Workers: 8, Timeout: 10 * time.Minute})
		if err != nil {
			run.Inconclusive("TfTable: %v", err)
			return
		}
		run.AddTLC(res)
		run.Logf("TfTable.tla design=%s: %s", design, res.Describe())
		if design == "mutex" && (res.Violated != "" || !res.OK()) {
			run.Inconclusive("TfTable.tla: the design of the pinned code does not satisfy TableSound in TLC: %s\n%s", res.Describe(), res.ErrorText)
			return
		}
		if design == "rwlock" && res.Violated != "TableSound" {
			run.Inconclusive("TfTable.tla design self-test: the two-step design was not refuted (%s)", res.Describe())
			return
		}
	}
	dir, _ := os.MkdirTemp("", "verif-c06bin-")
	defer os.RemoveAll(dir)
	bin := filepath.Join(dir, "c06stress")
	cmd := exec.Command("go", "build", "-race", "-tags", "verif", "-o", bin, "./cmd/c06stress")
	cmd.Dir = harnessDir()
	cmd.Env = append(os.Environ(), "GOFLAGS=-mod=mod", "GOPROXY=off", "GOWORK=off", "CGO_ENABLED=1")
	if b, err := cmd.CombinedOutput(); err != nil {
		run.Inconclusive("building the race-detector stress program: %v\n%s", err, b)
		return
	}
	rounds := vf.Pick(run, 2, 6)
	dur := vf.Pick(run, "12s", "60s")
	for r := 0; r < rounds; r++ {
		seed := run.Seed*100 + int64(r)
		c := exec.Command(bin, "-seed", fmt.Sprint(seed), "-d", dur, "-g", fmt.Sprint(6+2*r), "-b", "3", "-yield", fmt.Sprint(2+r), "-tfrounds", fmt.Sprint(vf.Pick(run, 500, 4000)))
		var out, errb bytes.Buffer
		c.Stdout = &out
		c.Stderr = &errb
		c.Env = append(os.Environ(), "GORACE=halt_on_error=0 exitcode=66")
		err := c.Run()
		races := strings.Count(errb.String(), "WARNING: DATA RACE")
		var sum map[string]any
		_ = json.Unmarshal(bytes.TrimSpace(out.Bytes()), &sum)
		run.Logf("stress round %d (seed %d): races=%d summary=%s", r, seed, races, strings.TrimSpace(out.String()))
		if sum == nil {
			// the program died before its summary: a data race the detector reported, or a fatal runtime error
			// about concurrent map access, IS the verdict; anything else is a harness problem
			if races > 0 || strings.Contains(errb.String(), "fatal error: concurrent map") {
				site := raceSite(errb.String())
				run.Violate(vf.Violation{Signature: "conc:data-race|" + site, What: fmt.Sprintf("the stress program was killed by the runtime (%d data race report(s), fatal concurrent map access: %v) while transactions ran and WAFs were built / closed concurrently; first at %s",
					races, strings.Contains(errb.String(), "fatal error: concurrent map"), site), Replay: map[string]any{"family": "stress", "seed": seed, "report": lastLines(errb.String(), 40)}})
				return
			}
			run.Inconclusive("stress program produced no summary (err=%v): %s", err, lastLines(errb.String(), 12))
			return
		}
		n := int(num(sum["transactions"]))
		for i := 0; i < n && i < 200000; i++ {
			run.Eval("")
		}
		run.Evaluations -= int64(num(sum["distinct_requests_firing_rules_run_concurrently"]))
		for i := 0; i < int(num(sum["distinct_requests_firing_rules_run_concurrently"])); i++ {
			run.Eval(fmt.Sprintf("stress-%d-request-%d", seed, i)) // distinct generated requests that fire rules and really ran concurrently
		}
		if r == 0 {
			run.Sample(map[string]any{"stress_round": r, "seed": seed, "summary": sum, "data_race_reports": races})
		}
		run.Extra[fmt.Sprintf("stress_round_%d", r)] = sum
		if races > 0 {
			site := raceSite(errb.String())
			run.Violate(vf.Violation{Signature: "conc:data-race|" + site, What: fmt.Sprintf("the race detector reported %d data race(s) while transactions ran concurrently on one WAF; first at %s", races, site),
				Replay: map[string]any{"family": "stress", "seed": seed, "report": lastLines(errb.String(), 40)}})
		}
		if num(sum["outcome_mismatches"]) > 0 || num(sum["built_waf_probe_mismatches"]) > 0 {
			run.Violate(vf.Violation{Signature: "conc:outcome-differs-from-alone", What: fmt.Sprintf("a transaction's outcome under concurrency differs from its outcome when run alone: %v", sum["first_mismatch"]),
				Replay: map[string]any{"family": "stress", "seed": seed, "summary": sum}})
		}
		if num(sum["panics"]) > 0 || num(sum["waf_build_failures"]) > 0 {
			run.Violate(vf.Violation{Signature: "conc:panic-or-construction-failure", What: fmt.Sprintf("panic or NewWAF failure under concurrency: %v %v", sum["first_build_failure"], sum["first_mismatch"]),
				Replay: map[string]any{"family": "stress", "seed": seed, "summary": sum}})
		}
		if tp, _ := sum["tf_table_problems"].([]any); len(tp) > 0 {
			run.Violate(vf.Violation{Signature: "conc:transformation-table", What: fmt.Sprintf("WAFs built at the same moment over never-seen transformation chains: the process-wide table numbering the chains violates TfTable!TableSound, or a rule read another chain's cached value: %v", tp[0]),
				Replay: map[string]any{"family": "stress-tftable", "seed": seed, "problems": tp}})
		}
		if b, _ := sum["deadlock"].(bool); b {
			run.Violate(vf.Violation{Signature: "conc:deadlock", What: "goroutines did not finish within 60 s after the stop signal", Replay: map[string]any{"family": "stress", "seed": seed}})
		}
		if cp, _ := sum["cache_problems"].([]any); len(cp) > 0 || num(sum["cache_entries_left_after_all_wafs_closed"]) > 0 {
			run.Violate(vf.Violation{Signature: "conc:pattern-cache-invariant", What: fmt.Sprintf("quiescent pattern cache violates the MemoConc invariants: %v ; entries left after every WAF was closed: %v", sum["cache_problems"], sum["cache_entries_left_after_all_wafs_closed"]),
				Replay: map[string]any{"family": "stress", "seed": seed, "summary": sum}})
		}
		if num(sum["audit_bad_lines"]) > 0 || num(sum["audit_lines"]) != num(sum["transactions"])+num(sum["audit_lines_before_stress"]) {
			run.Violate(vf.Violation{Signature: "conc:audit-log-records", What: fmt.Sprintf("shared serial audit log: %v lines (%v malformed) for %v concurrent + %v earlier transactions", sum["audit_lines"], sum["audit_bad_lines"], sum["transactions"], sum["audit_lines_before_stress"]),
				Replay: map[string]any{"family": "stress", "seed": seed, "summary": sum}})
		}
	}
	c06LoggersIndependent(run)
}

// c06LoggersIndependent: two transactions in flight on one WAF each derive their debug logger from the
// WAF's logger (context field tx_id). Whatever context fields the embedder's logger already carries
// (every encoded length up to 700 bytes is tried), a line logged by the first transaction after the
// second one was created still carries the first one's id.
func c06LoggersIndependent(run *vf.Run) {
	for n := 0; n <= 700; n++ {
		var buf bytes.Buffer
		base := debuglog.Default().WithOutput(&buf).WithLevel(debuglog.LevelDebug).With(debuglog.Str("component", strings.Repeat("x", n)))
		w, err := coraza.NewWAF(coraza.NewWAFConfig().WithDebugLogger(base))
		if err != nil {
			run.Inconclusive("NewWAF with a debug logger: %v", err)
			return
		}
		tx1 := w.NewTransactionWithID("AAAA")
		tx2 := w.NewTransactionWithID("BBBB")
		buf.Reset()
		tx1.DebugLogger().Debug().Msg("probe-one")
		line := buf.String()
		_ = tx2.Close()
		_ = tx1.Close()
		closeAny(w)
		run.Eval("")
		if !strings.Contains(line, `tx_id="AAAA"`) || strings.Contains(line, "BBBB") {
			run.Violate(vf.Violation{Signature: "conc:logger-context-shared", What: fmt.Sprintf("two transactions in flight on one WAF whose debug logger carries %d bytes of context: a line logged by transaction AAAA after transaction BBBB was created reads %q", n+13, strings.TrimSpace(lastN(line, 80))),
				Replay: map[string]any{"family": "logger", "context_bytes": n}})
			return
		}
	}
}

func lastN(s string, n int) string {
	if len(s) > n {
		return s[len(s)-n:]
	}
	return s
}

func num(v any) float64 {
	f, _ := v.(float64)
	return f
}

// raceSite extracts the first library frame of the first race report (a stable signature).
func raceSite(s string) string {
	i := strings.Index(s, "WARNING: DATA RACE")
	if i < 0 {
		return "?"
	}
	for _, l := range strings.Split(s[i:], "\n") {
		l = strings.TrimSpace(l)
		if strings.HasPrefix(l, "github.com/corazawaf/coraza/v3/") && !strings.Contains(l, "verifharness") {
			return strings.TrimSuffix(strings.TrimPrefix(l, "github.com/corazawaf/coraza/v3/"), "()")
		}
	}
	return "?"
}
func init() { Registry["XLOGGER"] = c06LoggersIndependent } // development entry: the logger sub-check alone
