package props

import (
	"bytes"
	"encoding/json"
	"fmt"
	"math/rand"
	"os"
	"os/exec"
	"path/filepath"
	"regexp"
	"sort"
	"strings"
	"sync"
	"time"

	"github.com/corazawaf/coraza/v3/verifharness/vf"
)

func init() { Registry["C13"] = C13 }

type c13Out struct {
	Wafs []struct {
		Cfg    int               `json:"cfg"`
		Build  string            `json:"build"`
		Probes map[string]string `json:"probes"`
	} `json:"wafs"`
}

// buildProbe builds cmd/c13probe against /repo's working tree (as linked by the harness module).
func buildProbe(run *vf.Run, tags, out string) bool {
	cmd := exec.Command("go", "build", "-tags", tags, "-o", out, "./cmd/c13probe")
	cmd.Dir = filepath.Join(harnessDir())
	cmd.Env = append(os.Environ(), "GOFLAGS=-mod=mod", "GOPROXY=off", "GOWORK=off")
	if b, err := cmd.CombinedOutput(); err != nil {
		run.Inconclusive("building c13probe (-tags %s): %v\n%s", tags, err, b)
		return false
	}
	return true
}

// harnessDir is where the harness sources live (next to the running binary's module).
func harnessDir() string {
	if d := os.Getenv("VERIF_HARNESS"); d != "" {
		return d
	}
	// bin/check lives in $VERIF_ROOT/bin; sources in /verif/harness unless the binary was built elsewhere
	if wd, err := os.Getwd(); err == nil {
		if _, err := os.Stat(filepath.Join(wd, "harness", "go.mod")); err == nil {
			return filepath.Join(wd, "harness")
		}
	}
	return "/verif/harness"
}

func runProbe(bin string, ops [][]any) (*c13Out, string) {
	in, _ := json.Marshal(map[string]any{"ops": ops})
	cmd := exec.Command(bin)
	cmd.Stdin = bytes.NewReader(in)
	var out, errb bytes.Buffer
	cmd.Stdout = &out
	cmd.Stderr = &errb
	done := make(chan error, 1)
	go func() { done <- cmd.Run() }()
	select {
	case err := <-done:
		if err != nil {
			return nil, fmt.Sprintf("process failed: %v: %s", err, lastLines(errb.String(), 6))
		}
	case <-time.After(60 * time.Second):
		_ = cmd.Process.Kill()
		return nil, "process hung for 60s"
	}
	var o c13Out
	if err := json.Unmarshal(out.Bytes(), &o); err != nil {
		return nil, "bad output: " + err.Error()
	}
	return &o, ""
}

func lastLines(s string, n int) string {
	ls := strings.Split(strings.TrimSpace(s), "\n")
	if len(ls) > n {
		ls = ls[:n]
	}
	return strings.Join(ls, " | ")
}

// C13: a WAF follows its own configuration only; pattern caching is invisible.
func C13(run *vf.Run) {
	run.Rule = "Memo.tla: the process-wide pattern cache seen from the WAFs that use it: per call site, which bytes of a configuration become the key and which artefact is stored; TLC checks CacheInvisible (every Do returns the artefact the caller would have built itself: same kind, same content) over all histories of building / closing up to MaxWAFs WAFs drawn from a pool of configurations that reuse one string in different roles (@pm word list, regex target key, @restpath, SecAuditLogRelevantStatus, ctl regex key, a data-set name with different contents, a file name under different roots, @rx, a two-word @pm list next to a data set holding the same two words as one phrase, one schema file name under two roots with equal-size schemas, one regex key text on a case-sensitive and on a case-insensitive collection), and emits the histories; each history is replayed in ONE process of a probe program built from /repo (WAFs built / closed in that order, each probed right after construction and again at the end) and every WAF's build result and probe outcomes are compared with the same configuration built alone in a fresh process, and with a probe program built with -tags coraza.no_memoize. Self-test: with the key design of the pinned commit (the author's text alone) TLC must find a CacheInvisible violation. Non-trivial = history with at least two WAFs"
	run.Exhaustive = true
	run.Assume("TLC explores the bounded Memo instance completely; concurrent use of the cache is the subject of C06")
	// design self-test
	st, err := vf.RunTLC(vf.TLCOpts{Module: "Memo", CfgText: "SPECIFICATION Spec\nCONSTANTS\n  KeyDesign = \"raw\"\n  MaxWAFs = 2\nINVARIANTS CacheInvisible OwnersAlive\nCHECK_DEADLOCK FALSE\n", Workers: 4, Timeout: 5 * time.Minute})
	if err != nil {
		run.Inconclusive("Memo self-test: %v", err)
		return
	}
	run.AddTLC(st)
	run.Extra["design_selftest"] = map[string]any{"text_only_key_design_violates_CacheInvisible_in_TLC": st.Violated == "CacheInvisible"}
	if st.Violated != "CacheInvisible" {
		run.Inconclusive("Memo self-test: TLC did not find the cross-talk of the text-only key design (%s): the model is vacuous", st.Describe())
	}
	// binding of Memo.tla's Sites to the code: every call into the pattern cache in the source tree must be one the
	// model knows (a new call site with a key design of its own would not be covered by the configurations below)
	wantSites := map[string]int{"internal/actions/ctl.go": 1, "internal/operators/validate_schema.go": 1, "internal/operators/pm.go": 1, "internal/operators/validate_nid.go": 1,
		"internal/operators/restpath.go": 1, "internal/operators/rx.go": 2, "internal/operators/pm_from_dataset.go": 1, "internal/operators/pm_from_file.go": 1,
		"internal/seclang/directives.go": 1, "internal/corazawaf/rule.go": 2}
	gotSites := map[string]int{}
	reSite := regexp.MustCompile(`(memoizeDo\(|[mM]emoizer\(\)\.Do\(|memoizer\.Do\()`)
	_ = filepath.WalkDir(repoRoot(), func(path string, d os.DirEntry, err error) error {
		if err != nil || d.IsDir() || !strings.HasSuffix(path, ".go") || strings.HasSuffix(path, "_test.go") || strings.Contains(path, "verif") || strings.Contains(path, "/memoize/") {
			return nil
		}
		b, _ := os.ReadFile(path)
		for _, line := range strings.Split(string(b), "\n") {
			t := strings.TrimSpace(line)
			if strings.HasPrefix(t, "func ") || strings.HasPrefix(t, "//") || strings.HasPrefix(t, "return r.memoizer.Do(") {
				continue
			}
			if reSite.MatchString(t) {
				rel, _ := filepath.Rel(repoRoot(), path)
				gotSites[rel]++
			}
		}
		return nil
	})
	if fmt.Sprint(gotSites) != fmt.Sprint(wantSites) {
		// the replay below still runs (a behavioural difference is a verdict of its own); without one the run cannot vouch for the property
		defer func() {
			if run.NumViolations() == 0 {
				run.Inconclusive("the pattern-cache call sites in the source tree (%v) are not the ones Memo.tla models (%v): extend Sites / Configs", gotSites, wantSites)
			}
		}()
	}
	maxW := vf.Pick(run, 2, 3)
	var hists [][][]any
	var mu sync.Mutex
	res, err := vf.RunTLC(vf.TLCOpts{Module: "Memo", CfgText: fmt.Sprintf("SPECIFICATION Spec\nCONSTANTS\n  KeyDesign = \"namespaced\"\n  MaxWAFs = %d\nINVARIANTS CacheInvisible OwnersAlive Emit\nCHECK_DEADLOCK FALSE\n", maxW), Workers: 8, Timeout: 20 * time.Minute,
		OnOut: func(raw json.RawMessage) {
			var d struct {
				Hist [][]any `json:"hist"`
			}
			if json.Unmarshal(raw, &d) == nil {
				mu.Lock()
				hists = append(hists, d.Hist)
				mu.Unlock()
			}
		}})
	if err != nil {
		run.Inconclusive("Memo: %v", err)
		return
	}
	run.AddTLC(res)
	run.Logf("Memo.tla: %s; %d histories", res.Describe(), len(hists))
	if res.Violated != "" || !res.OK() || len(hists) == 0 {
		run.Inconclusive("Memo.tla: TLC did not complete cleanly: %s\n%s", res.Describe(), res.ErrorText)
		return
	}
	seen := map[string]bool{}
	var uniq [][][]any
	for _, h := range hists {
		k := fmt.Sprint(h)
		if !seen[k] {
			seen[k] = true
			uniq = append(uniq, h)
		}
	}
	sort.Slice(uniq, func(i, j int) bool { return fmt.Sprint(uniq[i]) < fmt.Sprint(uniq[j]) })
	// every history costs one process; beyond maxHist keep all histories of at most two WAFs and a seeded sample of the rest
	if maxHist := 12000; len(uniq) > maxHist {
		rng := rand.New(rand.NewSource(run.Seed))
		var keep, rest [][][]any
		for _, h := range uniq {
			builds := 0
			for _, op := range h {
				if len(op) > 0 && op[0] == "build" {
					builds++
				}
			}
			if builds <= 2 {
				keep = append(keep, h)
			} else {
				rest = append(rest, h)
			}
		}
		rng.Shuffle(len(rest), func(i, j int) { rest[i], rest[j] = rest[j], rest[i] })
		if len(keep) < maxHist {
			keep = append(keep, rest[:min(len(rest), maxHist-len(keep))]...)
		}
		run.Logf("Memo.tla: %d histories enumerated, %d replayed (all with <= 2 WAFs, a seeded sample of the others)", len(uniq), len(keep))
		run.Exhaustive = false
		run.Assume(fmt.Sprintf("replay of histories with three WAFs is sampled (%d of %d); TLC itself explored all of them", len(keep), len(uniq)))
		uniq = keep
	}
	dir, _ := os.MkdirTemp("", "verif-c13-")
	defer os.RemoveAll(dir)
	binMemo := filepath.Join(dir, "probe_memo")
	binNoMemo := filepath.Join(dir, "probe_nomemo")
	if !buildProbe(run, "verif", binMemo) || !buildProbe(run, "verif,coraza.no_memoize", binNoMemo) {
		return
	}
	// reference: every configuration alone, in a fresh process, with and without the cache
	nCfg := 22
	alone := map[int]string{}
	for c := 1; c <= nCfg; c++ {
		a, e1 := runProbe(binMemo, [][]any{{"build", c}})
		b, e2 := runProbe(binNoMemo, [][]any{{"build", c}})
		if e1 != "" || e2 != "" {
			run.Violate(vf.Violation{Signature: fmt.Sprintf("memo:single-waf-fails|cfg%d", c), What: fmt.Sprintf("configuration %d alone: with cache: %s ; without cache: %s", c, e1, e2), Replay: map[string]any{"cfg": c}})
			continue
		}
		ja, _ := json.Marshal(a.Wafs[0])
		jb, _ := json.Marshal(b.Wafs[0])
		if string(ja) != string(jb) {
			run.Violate(vf.Violation{Signature: fmt.Sprintf("memo:cache-vs-no-cache|cfg%d", c), What: fmt.Sprintf("configuration %d built alone behaves differently with the cache (%s) and with the cache compiled out (%s)", c, ja, jb), Replay: map[string]any{"cfg": c}})
		}
		alone[c] = string(jb)
	}
	reported := map[string]bool{}
	var wg sync.WaitGroup
	sem := make(chan struct{}, 12)
	var rmu sync.Mutex
	for hi, h := range uniq {
		wg.Add(1)
		sem <- struct{}{}
		go func(hi int, h [][]any) {
			defer wg.Done()
			defer func() { <-sem }()
			o, e := runProbe(binMemo, h)
			rmu.Lock()
			defer rmu.Unlock()
			nt := fmt.Sprint(h)
			run.Eval(nt)
			if hi%41 == 0 {
				run.Sample(map[string]any{"history": h, "result": o, "error": e})
			}
			var cfgs []string
			for _, op := range h {
				if op[0] == "build" {
					cfgs = append(cfgs, fmt.Sprint(op[1]))
				}
			}
			if e != "" {
				sig := "memo:process-died|" + strings.Join(cfgs, "+")
				if !reported["died"+strings.Join(cfgs, "+")] {
					reported["died"+strings.Join(cfgs, "+")] = true
					run.Violate(vf.Violation{Signature: sig, What: fmt.Sprintf("history %v: %s", h, e), Replay: map[string]any{"family": "memo", "history": h}})
				}
				return
			}
			for _, w := range o.Wafs {
				jw, _ := json.Marshal(w)
				if string(jw) != alone[w.Cfg] {
					key := fmt.Sprintf("cfg%d-after-%s", w.Cfg, strings.Join(cfgs, "+"))
					kind := "behaviour-differs"
					if strings.HasPrefix(w.Build, "panic") {
						kind = "construction-panics"
					} else if strings.HasPrefix(w.Build, "error") {
						kind = "construction-fails"
					}
					sig := fmt.Sprintf("memo:%s|cfg%d+with:%s", kind, w.Cfg, strings.Join(cfgs, "+"))
					if !reported[kind+key] {
						reported[kind+key] = true
						run.Violate(vf.Violation{Signature: sig, What: fmt.Sprintf("history %v: WAF of configuration %d: %s ; the same configuration built alone: %s", h, w.Cfg, jw, alone[w.Cfg]),
							Replay: map[string]any{"family": "memo", "history": h}})
					}
				}
			}
		}(hi, h)
	}
	wg.Wait()
}
