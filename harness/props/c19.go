package props

import (
	"bufio"
	"encoding/json"
	"fmt"
	"os"
	"path/filepath"
	"runtime"
	"sort"
	"strconv"
	"strings"
	"sync"
	"time"

	coraza "github.com/corazawaf/coraza/v3"
	"github.com/corazawaf/coraza/v3/experimental/plugins"
	"github.com/corazawaf/coraza/v3/experimental/plugins/plugintypes"
	"github.com/corazawaf/coraza/v3/types"
	"github.com/corazawaf/coraza/v3/verifharness/vf"
)

func init() { Registry["C19"] = C19 }

type auCase struct {
	Ae     string   `json:"ae"`
	Ctl    string   `json:"ctl"`
	Pat    string   `json:"pat"`
	Re     string   `json:"re"`
	F1     []string `json:"f1"`
	P1     int      `json:"p1"`
	Deny   bool     `json:"deny"`
	F2     []string `json:"f2"`
	Status int      `json:"status"`
	K      bool     `json:"k"`
}

type auExpect struct {
	C           auCase `json:"c"`
	Record      string `json:"record"`
	Listed      []int  `json:"listed"`
	Callbacks   []int  `json:"callbacks"`
	Interrupted bool   `json:"interrupted"`
	Engine      string `json:"engine"`
}

type c19Rec struct {
	listed      []int
	interrupted bool
	id          string
}

var (
	c19mu   sync.Mutex
	c19logs = map[string][]c19Rec{}
	c19once sync.Once
)

type c19Writer struct{}

func (c19Writer) Init(plugintypes.AuditLogConfig) error { return nil }
func (c19Writer) Write(al plugintypes.AuditLog) error {
	r := c19Rec{id: al.Transaction().ID(), interrupted: al.Transaction().IsInterrupted()}
	for _, m := range al.Messages() {
		if id := safeMsgID(m); id != 0 {
			r.listed = append(r.listed, id)
		}
	}
	c19mu.Lock()
	c19logs[r.id] = append(c19logs[r.id], r)
	c19mu.Unlock()
	return nil
}
func (c19Writer) Close() error { return nil }

func auDirectives(c *auCase) string {
	var sb strings.Builder
	fmt.Fprintf(&sb, "SecRuleEngine %s\nSecAuditEngine %s\nSecAuditLogType verifc19\n", c.Re, c.Ae)
	if c.Pat != "" {
		fmt.Fprintf(&sb, "SecAuditLogRelevantStatus \"^%s\"\n", c.Pat)
	}
	if c.K {
		sb.WriteString("SecAuditLogParts ABHKZ\n")
	} else {
		sb.WriteString("SecAuditLogParts ABHZ\n")
	}
	if c.Ctl != "" {
		fmt.Fprintf(&sb, "SecAction \"id:5,phase:1,pass,nolog,ctl:auditEngine=%s\"\n", c.Ctl)
	}
	// fires only for the predecessor transaction (header X-Pred), which is abandoned before the logging phase
	sb.WriteString("SecRule REQUEST_HEADERS:X-Pred \"@streq 1\" \"id:99,phase:1,pass,log,auditlog\"\n")
	acts := append([]string{"id:10", fmt.Sprintf("phase:%d", c.P1), "pass"}, c.F1...)
	fmt.Fprintf(&sb, "SecAction \"%s\"\n", strings.Join(acts, ","))
	if c.Deny {
		acts := append([]string{"id:20", "phase:2", "deny", "status:403"}, c.F2...)
		fmt.Fprintf(&sb, "SecAction \"%s\"\n", strings.Join(acts, ","))
	}
	return sb.String()
}

// C19: audit and error logging record exactly what happened, once, intact.
func C19(run *vf.Run) {
	run.Rule = "Audit.tla: the audit decision (engine On / Off / RelevantOnly, switched or not by ctl:auditEngine; relevant-status pattern; status source = interruption, would-be interruption in DetectionOnly, or response status), the rules a record lists (fired and audit-enabled after folding log / nolog / auditlog / noauditlog in order over the phase defaults) and the error-callback count (once per fired rule with logging on) as TLA+ functions over the full case table; TLC enumerates the table and every case is replayed on the real library (behind a predecessor transaction on the same WAF that fired an audit-enabled rule and was abandoned before its logging phase) with a capturing audit writer registered through the plugin API and an error callback; then a transaction that changes its own parts (ctl:auditLogParts=+X / -X) must still write a balanced native record; then the writers are stressed: the concurrent writer (one file per transaction + shared index, entries must not interleave) and the serial writer: G goroutines x N transactions with adversarial header / body / message bytes share one log file in JSON and in native format, the file must hold exactly one well-formed record per transaction, none interleaved or lost. Non-trivial = case that writes a record or fires a callback"
	run.Exhaustive = true
	run.Assume("RelevantOnly without SecAuditLogRelevantStatus is left open (either outcome accepted)")
	c19once.Do(func() {
		plugins.RegisterAuditLogWriter("verifc19", func() plugintypes.AuditLogWriter { return c19Writer{} })
	})
	var exps []auExpect
	var mu sync.Mutex
	slices := 4
	var wg sync.WaitGroup
	var tlcErr error
	for sl := 0; sl < slices; sl++ {
		wg.Add(1)
		go func(sl int) {
			defer wg.Done()
			res, err := vf.RunTLC(vf.TLCOpts{Module: "Audit", CfgText: fmt.Sprintf("SPECIFICATION Spec\nCONSTANTS\n  Slice = %d\n  Slices = %d\nINVARIANTS AtMostOneRecord OffNeverLogs NologAuditlogListedNotCalled Emit\nCHECK_DEADLOCK FALSE\n", sl, slices),
				Workers: 3, Timeout: 10 * time.Minute,
				OnOut: func(raw json.RawMessage) {
					var e auExpect
					if json.Unmarshal(raw, &e) == nil {
						mu.Lock()
						exps = append(exps, e)
						mu.Unlock()
					}
				}})
			mu.Lock()
			defer mu.Unlock()
			if err != nil {
				tlcErr = err
				return
			}
			run.AddTLC(res)
			if !res.OK() {
				tlcErr = fmt.Errorf("TLC: %s %s", res.Describe(), res.ErrorText)
			}
		}(sl)
	}
	wg.Wait()
	if tlcErr != nil || len(exps) == 0 {
		run.Inconclusive("Audit.tla: %v (%d cases)", tlcErr, len(exps))
		return
	}
	run.Logf("Audit.tla: %d cases", len(exps))
	sort.Slice(exps, func(i, j int) bool { return fmt.Sprint(exps[i].C) < fmt.Sprint(exps[j].C) })
	if !run.Thorough() {
		// quick: every third case (the table is a product; the thorough tier runs all of it)
		var sub []auExpect
		for i, e := range exps {
			if i%3 == int(run.Seed%3) {
				sub = append(sub, e)
			}
		}
		exps = sub
		run.Exhaustive = false
	}
	reported := map[string]bool{}
	var rmu sync.Mutex
	report := func(kind string, e *auExpect, text, detail string) {
		feat := []string{"ae:" + e.Engine, "pat:" + e.C.Pat, "re:" + e.C.Re}
		if e.C.Deny {
			feat = append(feat, "deny")
		}
		sig := "audit:" + kind + "|" + strings.Join(feat, "+")
		rmu.Lock()
		defer rmu.Unlock()
		if reported[kind] {
			return
		}
		reported[kind] = true
		run.Violate(vf.Violation{Signature: sig, What: fmt.Sprintf("%s: %s || %s || response status %d", kind, detail, strings.ReplaceAll(text, "\n", " ; "), e.C.Status),
			Replay: map[string]any{"family": "audit", "case": e.C, "directives": text, "specified": e}})
	}
	sem := make(chan struct{}, runtime.NumCPU())
	for i := range exps {
		e := &exps[i]
		wg.Add(1)
		sem <- struct{}{}
		go func(i int, e *auExpect) {
			defer wg.Done()
			defer func() { <-sem }()
			text := auDirectives(&e.C)
			var cb []int
			var cbmu sync.Mutex
			w, err := coraza.NewWAF(coraza.NewWAFConfig().WithDirectives(text).WithErrorCallback(func(mr types.MatchedRule) {
				cbmu.Lock()
				cb = append(cb, mr.Rule().ID())
				cbmu.Unlock()
			}))
			if err != nil {
				run.Inconclusive("audit case rejected by NewWAF: %v\n%s", err, text)
				return
			}
			defer closeAny(w)
			// a predecessor on the same WAF fires an audit-enabled rule and is closed without its logging phase: the
			// transaction of the case, which the pool may serve with the same object, is a finished transaction of its own
			pred := w.NewTransactionWithID(fmt.Sprintf("c19-pred-%d", i))
			pred.AddRequestHeader("X-Pred", "1")
			pred.ProcessRequestHeaders()
			_ = pred.Close()
			cbmu.Lock()
			cb = nil
			cbmu.Unlock()
			id := fmt.Sprintf("c19-%d", i)
			tx := w.NewTransactionWithID(id)
			tx.ProcessConnection("10.0.0.1", 1, "10.0.0.2", 80)
			tx.ProcessURI("/", "GET", "HTTP/1.1")
			it := tx.ProcessRequestHeaders()
			if it == nil {
				it, _ = tx.ProcessRequestBody()
			}
			if it == nil {
				it = tx.ProcessResponseHeaders(e.C.Status, "HTTP/1.1")
			}
			if it == nil {
				_, _ = tx.ProcessResponseBody()
			}
			tx.ProcessLogging()
			_ = tx.Close()
			c19mu.Lock()
			recs := c19logs[id]
			delete(c19logs, id)
			c19mu.Unlock()
			nt := ""
			if len(recs) > 0 || len(cb) > 0 {
				nt = text + fmt.Sprint(e.C.Status)
			}
			run.Eval(nt)
			if i%1499 == 0 {
				run.Sample(map[string]any{"directives": text, "response_status": e.C.Status, "spec": map[string]any{"record": e.Record, "listed": e.Listed, "callbacks": e.Callbacks}, "observed_records": len(recs), "observed_callbacks": cb})
			}
			switch {
			case len(recs) > 1:
				report("more-than-one-record", e, text, fmt.Sprintf("%d audit records for one transaction", len(recs)))
			case e.Record == "yes" && len(recs) == 0:
				report("record-missing", e, text, "the specification requires exactly one audit record, none was written")
			case e.Record == "no" && len(recs) == 1:
				report("record-unexpected", e, text, "the specification requires no audit record, one was written")
			}
			if len(recs) == 1 {
				got := append([]int{}, recs[0].listed...)
				sort.Ints(got)
				got = uniqInts(got)
				want := append([]int{}, e.Listed...)
				sort.Ints(want)
				if fmt.Sprint(got) != fmt.Sprint(want) {
					report("record-lists-wrong-rules", e, text, fmt.Sprintf("the record lists rules %v, the fired audit-enabled rules are %v", got, want))
				}
				if recs[0].id != id {
					report("record-wrong-transaction-id", e, text, fmt.Sprintf("record carries id %q, transaction is %q", recs[0].id, id))
				}
			}
			sort.Ints(cb)
			want := append([]int{}, e.Callbacks...)
			sort.Ints(want)
			if fmt.Sprint(cb) != fmt.Sprint(want) {
				report("error-callback-count", e, text, fmt.Sprintf("error callback fired for %v, fired rules with logging enabled are %v (each exactly once)", cb, want))
			}
		}(i, e)
	}
	wg.Wait()
	c19Stress(run)
}

func uniqInts(a []int) []int {
	var out []int
	for i, x := range a {
		if i == 0 || x != a[i-1] {
			out = append(out, x)
		}
	}
	return out
}

// c19Parts: a transaction that changes the parts of its own record (ctl:auditLogParts=+X / -X) still
// writes a balanced native record: header section A with the transaction id first, section Z last.
func c19Parts(run *vf.Run, dir string) {
	for _, mod := range []string{"+E", "-C", "+K", "-H"} {
		path := filepath.Join(dir, "parts"+strings.NewReplacer("+", "add", "-", "del").Replace(mod)+".log")
		text := fmt.Sprintf("SecRuleEngine On\nSecAuditEngine On\nSecAuditLogParts ABCFHZ\nSecAuditLogType Serial\nSecAuditLogFormat native\nSecAuditLog %s\nSecAction \"id:1,phase:1,pass,log,auditlog,msg:'m',ctl:auditLogParts=%s\"\n", path, mod)
		w, err := coraza.NewWAF(coraza.NewWAFConfig().WithDirectives(text))
		if err != nil {
			run.Inconclusive("audit parts configuration rejected: %v", err)
			return
		}
		tx := w.NewTransactionWithID("tx-parts")
		tx.ProcessURI("/p", "GET", "HTTP/1.1")
		tx.ProcessRequestHeaders()
		_, _ = tx.ProcessRequestBody()
		tx.ProcessResponseHeaders(200, "HTTP/1.1")
		tx.ProcessLogging()
		_ = tx.Close()
		closeAny(w)
		b, _ := os.ReadFile(path)
		run.Eval("parts" + mod)
		var sections []string
		for _, line := range strings.Split(string(b), "\n") {
			if len(line) == 16 && strings.HasPrefix(line, "--") && strings.HasSuffix(line, "--") && line[12] == '-' {
				sections = append(sections, string(line[13]))
			}
		}
		got := strings.Join(sections, "")
		if !strings.HasPrefix(got, "A") || !strings.HasSuffix(got, "Z") || !strings.Contains(string(b), "tx-parts") {
			run.Violate(vf.Violation{Signature: "audit:native-record-unbalanced|ctl:auditLogParts",
				What:   fmt.Sprintf("a transaction that executes ctl:auditLogParts=%s (configured parts ABCFHZ) writes a native record with sections %q: the header section A carrying the transaction id and / or the closing section Z are missing", mod, got),
				Replay: map[string]any{"directives": text, "record": string(b)}})
			return
		}
	}
}

// c19Formats: every registered audit format x part lists with and without the matched-rules part K: a
// transaction with a fired audit-enabled rule writes exactly one record and the writer does not panic.
func c19Formats(run *vf.Run, dir string) {
	for _, format := range []string{"json", "jsonlegacy", "native", "ocsf"} {
		for _, parts := range []string{"ABHKZ", "ABHZ", "ABKZ", "AZ", "ABCEFHIJKZ", "(default)"} {
			path := filepath.Join(dir, "fmt-"+format+"-"+parts+".log")
			text := fmt.Sprintf("SecRuleEngine On\nSecRequestBodyAccess On\nSecAuditEngine On\nSecAuditLogParts %s\nSecAuditLogType Serial\nSecAuditLogFormat %s\nSecAuditLog %s\nSecAction \"id:1,phase:1,pass,log,auditlog,msg:'m1'\"\nSecAction \"id:2,phase:2,pass,nolog,auditlog,msg:'m2',logdata:'d'\"\n", parts, format, path)
			if parts == "(default)" { // no SecAuditLogParts directive: the parts the library starts with
				text = strings.Replace(text, "SecAuditLogParts (default)\n", "", 1)
			}
			w, err := coraza.NewWAF(coraza.NewWAFConfig().WithDirectives(text))
			if err != nil {
				run.Inconclusive("audit format configuration rejected: %v\n%s", err, text)
				return
			}
			p := ""
			func() {
				defer func() {
					if r := recover(); r != nil {
						p = fmt.Sprint(r)
					}
				}()
				tx := w.NewTransactionWithID("tx-fmt")
				tx.ProcessConnection("10.0.0.1", 1, "10.0.0.2", 80)
				tx.ProcessURI("/p?a=1", "POST", "HTTP/1.1")
				tx.AddRequestHeader("Content-Type", "application/x-www-form-urlencoded")
				tx.ProcessRequestHeaders()
				_, _, _ = tx.WriteRequestBody([]byte("b=2"))
				_, _ = tx.ProcessRequestBody()
				tx.AddResponseHeader("Content-Type", "text/plain")
				tx.ProcessResponseHeaders(200, "HTTP/1.1")
				tx.ProcessLogging()
				_ = tx.Close()
			}()
			closeAny(w)
			run.Eval("format-" + format + "-" + parts)
			if p != "" {
				run.Violate(vf.Violation{Signature: "audit:panic|format:" + format, What: fmt.Sprintf("SecAuditLogFormat %s with SecAuditLogParts %s: writing the record of a transaction with fired audit-enabled rules panicked: %s", format, parts, p),
					Replay: map[string]any{"directives": text}})
				continue
			}
			b, _ := os.ReadFile(path)
			if format == "native" && len(b) > 0 {
				// balanced native record: sections --<boundary>-<part>--, the header A (with the transaction id) first, Z last
				var secs []string
				idInA := false
				cur := ""
				for _, l := range strings.Split(string(b), "\n") {
					if strings.HasPrefix(l, "--") && strings.HasSuffix(l, "--") && len(l) >= 7 && l[len(l)-4] == '-' {
						cur = l[len(l)-3 : len(l)-2]
						secs = append(secs, cur)
					} else if cur == "A" && strings.Contains(l, "tx-fmt") {
						idInA = true
					}
				}
				if len(secs) == 0 || secs[0] != "A" || secs[len(secs)-1] != "Z" || !idInA {
					run.Violate(vf.Violation{Signature: "audit:native-record-unbalanced|parts:" + parts, What: fmt.Sprintf("SecAuditLogFormat native with SecAuditLogParts %s: the record has the sections %v - it must open with the header section A carrying the transaction id and close with the end marker Z", parts, secs),
						Replay: map[string]any{"directives": text, "log": string(b)}})
				}
			}
			if !strings.Contains(string(b), "tx-fmt") {
				run.Violate(vf.Violation{Signature: "audit:record-missing|format:" + format, What: fmt.Sprintf("SecAuditLogFormat %s with SecAuditLogParts %s: no record carrying the transaction id was written (%d bytes in the log)", format, parts, len(b)),
					Replay: map[string]any{"directives": text, "log": string(b)}})
			}
		}
	}
}

// c19Stress: concurrent transactions sharing one serial log file; records atomic and well-formed.
func c19Stress(run *vf.Run) {
	dir, _ := os.MkdirTemp("", "verif-c19-")
	defer os.RemoveAll(dir)
	c19Parts(run, dir)
	if run.NumViolations() > 0 {
		return
	}
	c19ConcurrentWriter(run, dir)
	c19Formats(run, dir)
	c19FormatStable(run)
	c19ConcurrentIDs(run)
	c19ConcurrentIDPairs(run)
	c19Reload(run)
	nasty := []string{"plain", "quo\"te", "new\nline", "--abcdefghij-Z--", "back\\slash", "tab\there", "unié\xff", "{\"json\":1}"}
	G := vf.Pick(run, 8, 16)
	N := vf.Pick(run, 150, 1500)
	for _, format := range []string{"json", "native"} {
		path := filepath.Join(dir, "audit-"+format+".log")
		text := fmt.Sprintf("SecRuleEngine On\nSecRequestBodyAccess On\nSecAuditEngine On\nSecAuditLogParts ABCFHKZ\nSecAuditLogType Serial\nSecAuditLogFormat %s\nSecAuditLog %s\nSecRule REQUEST_HEADERS:x-n \"@rx .\" \"id:1,phase:1,pass,log,auditlog,msg:'m %%{MATCHED_VAR}'\"\nSecRule REQUEST_HEADERS:x-parts \"@streq add\" \"id:2,phase:1,pass,nolog,ctl:auditLogParts=+E\"\nSecRule REQUEST_HEADERS:x-parts \"@streq del\" \"id:3,phase:1,pass,nolog,ctl:auditLogParts=-C\"\n", format, path)
		w, err := coraza.NewWAF(coraza.NewWAFConfig().WithDirectives(text))
		if err != nil {
			run.Inconclusive("audit stress configuration rejected: %v", err)
			return
		}
		var wg sync.WaitGroup
		for g := 0; g < G; g++ {
			wg.Add(1)
			go func(g int) {
				defer wg.Done()
				for n := 0; n < N; n++ {
					id := fmt.Sprintf("tx-%s-%d-%d", format, g, n)
					tx := w.NewTransactionWithID(id)
					v := nasty[(g+n)%len(nasty)]
					tx.ProcessURI("/p?q="+fmt.Sprint(n), "POST", "HTTP/1.1")
					tx.AddRequestHeader("X-N", v)
					switch n % 7 { // some transactions change the parts of their own record
					case 3:
						tx.AddRequestHeader("X-Parts", "add")
					case 5:
						tx.AddRequestHeader("X-Parts", "del")
					}
					tx.AddRequestHeader("Content-Type", "text/plain")
					tx.ProcessRequestHeaders()
					_, _, _ = tx.WriteRequestBody([]byte("body " + v + "\n" + nasty[(n+3)%len(nasty)]))
					_, _ = tx.ProcessRequestBody()
					tx.AddResponseHeader("X-R", v)
					tx.ProcessResponseHeaders(200, "HTTP/1.1")
					tx.ProcessLogging()
					_ = tx.Close()
				}
			}(g)
		}
		wg.Wait()
		closeAny(w)
		f, err := os.Open(path)
		if err != nil {
			run.Violate(vf.Violation{Signature: "audit:stress-no-log-file|" + format, What: "serial audit log file was not written: " + err.Error(), Replay: map[string]any{"directives": text}})
			continue
		}
		seen := map[string]int{}
		bad := ""
		sc := bufio.NewScanner(f)
		sc.Buffer(make([]byte, 1<<20), 1<<24)
		if format == "json" {
			for sc.Scan() {
				line := sc.Text()
				if strings.TrimSpace(line) == "" {
					if bad == "" {
						bad = "empty line between records"
					}
					continue
				}
				var doc struct {
					Transaction struct {
						ID string `json:"id"`
					} `json:"transaction"`
				}
				if err := json.Unmarshal([]byte(line), &doc); err != nil {
					if bad == "" {
						bad = fmt.Sprintf("line is not one JSON document: %v: %.120q", err, line)
					}
					continue
				}
				seen[doc.Transaction.ID]++
			}
		} else {
			// native: every record is a run of sections --<boundary>-<part>-- with one boundary, A first, Z last
			cur, curID, lastPart := "", "", byte(0)
			for sc.Scan() {
				line := sc.Text()
				if len(line) == 16 && strings.HasPrefix(line, "--") && strings.HasSuffix(line, "--") && line[12] == '-' {
					b, part := line[2:12], line[13]
					if part == 'A' {
						if cur != "" && lastPart != 'Z' && bad == "" {
							bad = "record " + curID + " not terminated by section Z before the next record starts"
						}
						cur, curID = b, ""
					} else if b != cur {
						// a nasty body line that looks like a boundary belongs to the body
						continue
					}
					lastPart = part
					continue
				}
				if lastPart == 'A' && curID == "" && strings.HasPrefix(line, "[") {
					fs := strings.Fields(line)
					if len(fs) >= 3 {
						curID = fs[2]
						seen[curID]++
					}
				}
			}
			if lastPart != 'Z' && bad == "" {
				bad = "last record not terminated by section Z"
			}
		}
		f.Close()
		missing, dup := 0, 0
		for g := 0; g < G; g++ {
			for n := 0; n < N; n++ {
				c := seen[fmt.Sprintf("tx-%s-%d-%d", format, g, n)]
				if c == 0 {
					missing++
				} else if c > 1 {
					dup++
				}
			}
		}
		run.Eval("audit-stress-" + format)
		run.Extra["audit_stress_"+format] = map[string]any{"goroutines": G, "transactions_each": N, "records_found": len(seen), "missing": missing, "duplicated": dup, "malformed": bad}
		if bad != "" || missing > 0 || dup > 0 {
			run.Violate(vf.Violation{Signature: "audit:concurrent-records-not-intact|" + format,
				What:   fmt.Sprintf("%d goroutines x %d transactions sharing one serial %s audit log: %d records missing, %d duplicated, malformed: %s", G, N, format, missing, dup, bad),
				Replay: map[string]any{"family": "audit-stress", "directives": text, "goroutines": G, "transactions_each": N}})
		}
	}
}

// c19ConcurrentWriter: SecAuditLogType Concurrent - one file per transaction plus an index file shared by
// all transactions; the index entry of a transaction (its lines are written one after the other) must not
// be interleaved with another transaction's, and every transaction's own file must hold its record.
func c19ConcurrentWriter(run *vf.Run, dir string) {
	G := vf.Pick(run, 8, 16)
	N := vf.Pick(run, 150, 1000)
	index := filepath.Join(dir, "index.log")
	store := filepath.Join(dir, "store")
	_ = os.MkdirAll(store, 0o755)
	text := fmt.Sprintf("SecRuleEngine On\nSecAuditEngine On\nSecAuditLogParts ABFHZ\nSecAuditLogType Concurrent\nSecAuditLogFormat json\nSecAuditLog %s\nSecAuditLogStorageDir %s\nSecAction \"id:1,phase:1,pass,log,auditlog,msg:'m'\"\n", index, store)
	w, err := coraza.NewWAF(coraza.NewWAFConfig().WithDirectives(text))
	if err != nil {
		run.Inconclusive("concurrent audit writer configuration rejected: %v", err)
		return
	}
	var wg sync.WaitGroup
	for g := 0; g < G; g++ {
		wg.Add(1)
		go func(g int) {
			defer wg.Done()
			for n := 0; n < N; n++ {
				tx := w.NewTransactionWithID(fmt.Sprintf("ctx-%d-%d", g, n))
				tx.ProcessConnection(fmt.Sprintf("10.%d.%d.%d", g, n/250, n%250+1), 1000+g, "10.0.0.2", 80)
				tx.ProcessURI(fmt.Sprintf("/u-%d-%d", g, n), "GET", "HTTP/1.1")
				tx.ProcessRequestHeaders()
				_, _ = tx.ProcessRequestBody()
				tx.ProcessResponseHeaders(200+(g*N+n)%100, "HTTP/1.1")
				tx.ProcessLogging()
				_ = tx.Close()
			}
		}(g)
	}
	wg.Wait()
	closeAny(w)
	b, err := os.ReadFile(index)
	if err != nil {
		run.Violate(vf.Violation{Signature: "audit:concurrent-writer-no-index", What: "the index file of the concurrent audit writer was not written: " + err.Error(), Replay: map[string]any{"directives": text}})
		return
	}
	lines := strings.Split(strings.TrimRight(string(b), "\n"), "\n")
	seen := map[string]int{}
	mixed, filesBad := 0, 0
	firstMixed := ""
	// an entry is four consecutive lines: addresses + time, request line, status, "<id> - <file>";
	// all four must belong to one transaction (client address, URI and id all carry g-n)
	for i := 0; i < len(lines); {
		if !strings.HasPrefix(lines[i], "ctx-") && i+3 < len(lines) && strings.HasPrefix(lines[i+3], "ctx-") &&
			!strings.HasPrefix(lines[i+1], "ctx-") && !strings.HasPrefix(lines[i+2], "ctx-") {
			fs := strings.Fields(lines[i+3])
			id := strings.TrimPrefix(fs[0], "ctx-")
			var g, n int
			_, _ = fmt.Sscanf(id, "%d-%d", &g, &n)
			ok := strings.HasPrefix(lines[i], fmt.Sprintf("10.%d.%d.%d ", g, n/250, n%250+1)) &&
				strings.HasPrefix(strings.TrimSpace(lines[i+1]), fmt.Sprintf("\"GET /u-%s ", id)) &&
				strings.TrimSpace(lines[i+2]) == strconv.Itoa(200+(g*N+n)%100)
			seen[fs[0]]++
			if !ok {
				mixed++
				if firstMixed == "" {
					firstMixed = fmt.Sprintf("%q / %q / %q / %q", lines[i], lines[i+1], lines[i+2], lines[i+3])
				}
			}
			if len(fs) >= 3 {
				doc, err := os.ReadFile(fs[2])
				if err != nil || !strings.Contains(string(doc), fs[0]) {
					filesBad++
				}
			}
			i += 4
			continue
		}
		// not the start of a well-formed entry
		if strings.HasPrefix(lines[i], "ctx-") {
			seen[strings.Fields(lines[i])[0]]++
		}
		mixed++
		if firstMixed == "" {
			firstMixed = fmt.Sprintf("line %d %q does not start an entry of four lines", i+1, lines[i])
		}
		i++
	}
	missing := 0
	for g := 0; g < G; g++ {
		for n := 0; n < N; n++ {
			if seen[fmt.Sprintf("ctx-%d-%d", g, n)] != 1 {
				missing++
			}
		}
	}
	run.Eval("audit-stress-concurrent-writer")
	run.Extra["audit_stress_concurrent_writer"] = map[string]any{"goroutines": G, "transactions_each": N, "index_entries": len(seen), "missing_or_duplicated": missing, "interleaved": mixed, "record_files_bad": filesBad}
	if mixed > 0 || missing > 0 || filesBad > 0 {
		run.Violate(vf.Violation{Signature: "audit:concurrent-records-not-intact|concurrent-writer",
			What:   fmt.Sprintf("%d goroutines x %d transactions with SecAuditLogType Concurrent: %d index entries interleaved with another transaction's (%s), %d transactions without exactly one entry, %d record files missing or foreign", G, N, mixed, firstMixed, missing, filesBad),
			Replay: map[string]any{"family": "audit-stress", "directives": text, "goroutines": G, "transactions_each": N}})
	}
}

// safeMsgID returns the rule id of an audit message (0 when the message carries no rule data:
// the "H without K" messages hold a nil data pointer behind a non-nil interface).
func safeMsgID(m plugintypes.AuditLogMessage) (id int) {
	defer func() { _ = recover() }()
	if d := m.Data(); d != nil {
		return d.ID()
	}
	return 0
}

// ---- law FormatStable (Audit.tla): a formatted record handed to a writer reads the same later ----

type c19QueueWriter struct {
	f plugintypes.AuditLogFormatter
}

type c19Queued struct {
	id   string
	kept []byte // the bytes as returned by the formatter (not copied)
	copy string // their content at that moment
}

var (
	c19qMu    sync.Mutex
	c19queue  []c19Queued
	c19qOnce  sync.Once
	c19qError string
)

func (w *c19QueueWriter) Init(c plugintypes.AuditLogConfig) error { w.f = c.Formatter; return nil }
func (w *c19QueueWriter) Write(al plugintypes.AuditLog) error {
	if w.f == nil {
		return nil
	}
	b, err := w.f.Format(al)
	c19qMu.Lock()
	defer c19qMu.Unlock()
	if err != nil {
		c19qError = err.Error()
		return err
	}
	c19queue = append(c19queue, c19Queued{id: al.Transaction().ID(), kept: b, copy: string(b)})
	return nil
}
func (w *c19QueueWriter) Close() error { return nil }

// c19FormatStable: a writer that queues formatted records (a batching / asynchronous writer written against the
// plugin API) must find every queued record intact and carrying its own transaction id after later transactions
// have been formatted, sequentially and from several goroutines.
func c19FormatStable(run *vf.Run) {
	c19qOnce.Do(func() {
		plugins.RegisterAuditLogWriter("verifc19q", func() plugintypes.AuditLogWriter { return &c19QueueWriter{} })
	})
	for _, format := range []string{"native", "json", "jsonlegacy", "ocsf"} {
		for _, conc := range []int{1, 8} {
			c19qMu.Lock()
			c19queue, c19qError = nil, ""
			c19qMu.Unlock()
			text := fmt.Sprintf("SecRuleEngine On\nSecAuditEngine On\nSecAuditLogParts ABHKZ\nSecAuditLogType verifc19q\nSecAuditLogFormat %s\nSecAuditLog /dev/null\nSecRule REQUEST_HEADERS:x-n \"@rx .\" \"id:1,phase:1,pass,log,auditlog,msg:'m %%{MATCHED_VAR}'\"\n", format)
			w, err := coraza.NewWAF(coraza.NewWAFConfig().WithDirectives(text))
			if err != nil {
				run.Inconclusive("FormatStable: configuration rejected (%s): %v", format, err)
				continue
			}
			var wg sync.WaitGroup
			per := 40
			for g := 0; g < conc; g++ {
				wg.Add(1)
				go func(g int) {
					defer wg.Done()
					defer func() { _ = recover() }()
					for k := 0; k < per; k++ {
						tx := w.NewTransactionWithID(fmt.Sprintf("tx-%s-%d-%d-%s", format, g, k, strings.Repeat("i", k%7)))
						tx.AddRequestHeader("X-N", fmt.Sprintf("g%dk%d%s", g, k, strings.Repeat("v", (k*13)%50)))
						tx.ProcessRequestHeaders()
						tx.ProcessLogging()
						_ = tx.Close()
					}
				}(g)
			}
			wg.Wait()
			closeAny(w)
			c19qMu.Lock()
			q := c19queue
			c19qMu.Unlock()
			if len(q) != conc*per {
				run.Violate(vf.Violation{Signature: "audit:queued-records-count|" + format, What: fmt.Sprintf("%d transactions were logged through a queueing writer (format %s), %d records reached it (%s)", conc*per, format, len(q), c19qError),
					Replay: map[string]any{"family": "audit-format-stable", "format": format, "goroutines": conc}})
				continue
			}
			for _, r := range q {
				run.Eval("fmtstable-" + format + r.id)
				now := string(r.kept)
				if now != r.copy || !strings.Contains(now, r.id) {
					mode := "sequential"
					if conc > 1 {
						mode = "concurrent"
					}
					run.Violate(vf.Violation{Signature: "audit:formatted-record-not-stable|" + format + "+" + mode,
						What:   fmt.Sprintf("format %s, %s transactions: the record the formatter returned for transaction %s read %q when it was handed over and reads %q after later transactions were formatted (a writer that queues records would log another transaction's data)", format, mode, r.id, cut(r.copy, 120), cut(now, 120)),
						Replay: map[string]any{"family": "audit-format-stable", "format": format, "goroutines": conc, "transaction": r.id}})
					break
				}
			}
		}
	}
}

func cut(s string, n int) string {
	if len(s) > n {
		return s[:n] + "..."
	}
	return s
}

// c19Reload: a configuration reload builds the new WAF and closes the old one while requests are still in
// flight on it (WAF.Close documents that they are unaffected): a transaction created before the Close and
// finished after it is a finished transaction like any other - exactly one record, for every writer type.
func c19Reload(run *vf.Run) {
	base, err := os.MkdirTemp("", "verif-c19reload-")
	if err != nil {
		return
	}
	defer os.RemoveAll(base)
	for _, typ := range []string{"Serial", "Concurrent"} {
		dir := filepath.Join(base, typ)
		_ = os.MkdirAll(filepath.Join(dir, "store"), 0o755)
		logf := filepath.Join(dir, "audit.log")
		text := fmt.Sprintf("SecRuleEngine On\nSecAuditEngine On\nSecAuditLogParts ABHZ\nSecAuditLogType %s\nSecAuditLogFormat json\nSecAuditLog %s\nSecAuditLogStorageDir %s\nSecAction \"id:1,phase:1,pass,log,auditlog,msg:'m'\"\n", typ, logf, filepath.Join(dir, "store"))
		oldWAF, err := coraza.NewWAF(coraza.NewWAFConfig().WithDirectives(text))
		if err != nil {
			run.Inconclusive("c19Reload: configuration rejected: %v", err)
			return
		}
		before := oldWAF.NewTransactionWithID("finished-before-close")
		before.ProcessURI("/reload-before", "GET", "HTTP/1.1")
		before.ProcessRequestHeaders()
		before.ProcessLogging()
		_ = before.Close()
		inflight := oldWAF.NewTransactionWithID("in-flight-at-close")
		inflight.ProcessURI("/reload-inflight", "GET", "HTTP/1.1")
		inflight.ProcessRequestHeaders()
		newWAF, err := coraza.NewWAF(coraza.NewWAFConfig().WithDirectives(text))
		if err != nil {
			run.Inconclusive("c19Reload: configuration rejected: %v", err)
			return
		}
		closeAny(oldWAF)
		inflight.ProcessLogging()
		_ = inflight.Close()
		after := newWAF.NewTransactionWithID("on-the-new-waf")
		after.ProcessURI("/reload-after", "GET", "HTTP/1.1")
		after.ProcessRequestHeaders()
		after.ProcessLogging()
		_ = after.Close()
		closeAny(newWAF)
		count := map[string]int{}
		_ = filepath.Walk(dir, func(p string, info os.FileInfo, err error) error {
			if err != nil || info.IsDir() || (typ == "Concurrent" && p == logf) {
				return nil
			}
			b, _ := os.ReadFile(p)
			for _, m := range []string{"/reload-before", "/reload-inflight", "/reload-after"} {
				count[m] += strings.Count(string(b), "\"uri\":\""+m+"\"")
			}
			return nil
		})
		run.Eval("reload-" + typ)
		for _, m := range []string{"/reload-before", "/reload-inflight", "/reload-after"} {
			if count[m] != 1 {
				run.Violate(vf.Violation{Signature: "audit:reload-record-count|" + typ, What: fmt.Sprintf("audit log type %s, the old WAF closed while a transaction was in flight on it: the transaction %s has %d records, exactly one is due (records per transaction: %v)", typ, m, count[m], count),
					Replay: map[string]any{"family": "audit-reload", "type": typ, "directives": text}})
				break
			}
		}
	}
}

// c19ConcurrentIDPairs: distinct transaction ids finished in the same second on one WAF keep distinct record files
// (ids that differ only in a character a file name cannot carry must not be mapped onto each other).
func c19ConcurrentIDPairs(run *vf.Run) {
	base, err := os.MkdirTemp("", "verif-c19pairs-")
	if err != nil {
		return
	}
	defer os.RemoveAll(base)
	store := filepath.Join(base, "store")
	_ = os.MkdirAll(store, 0o755)
	text := fmt.Sprintf("SecRuleEngine On\nSecAuditEngine On\nSecAuditLogParts ABHZ\nSecAuditLogType Concurrent\nSecAuditLogFormat json\nSecAuditLog %s\nSecAuditLogStorageDir %s\nSecAction \"id:1,phase:1,pass,log,auditlog,msg:'m'\"\n", filepath.Join(base, "index.log"), store)
	w, err := coraza.NewWAF(coraza.NewWAFConfig().WithDirectives(text))
	if err != nil {
		run.Inconclusive("c19ConcurrentIDPairs: configuration rejected: %v", err)
		return
	}
	defer closeAny(w)
	ids := []string{"p/q", "p_q", "p\\q", "p%2Fq", "p%2fq", "p%5Cq", "p-q", "p.q", "p%q", "p%25q"}
	for attempt := 0; attempt < 3; attempt++ {
		start := time.Now().Unix()
		for k, id := range ids {
			tx := w.NewTransactionWithID(id)
			tx.ProcessURI(fmt.Sprintf("/pair-marker-%d-%d", attempt, k), "GET", "HTTP/1.1")
			tx.ProcessRequestHeaders()
			tx.ProcessLogging()
			_ = tx.Close()
		}
		if time.Now().Unix() != start {
			continue // the second changed in between: the file names differ anyway, try again
		}
		found := map[int]bool{}
		_ = filepath.Walk(store, func(p string, info os.FileInfo, err error) error {
			if err != nil || info.IsDir() {
				return nil
			}
			b, _ := os.ReadFile(p)
			for k := range ids {
				if strings.Contains(string(b), fmt.Sprintf("/pair-marker-%d-%d\"", attempt, k)) || strings.Contains(string(b), fmt.Sprintf("/pair-marker-%d-%d ", attempt, k)) {
					found[k] = true
				}
			}
			return nil
		})
		run.Eval("concid-pairs")
		var lost []string
		for k, id := range ids {
			if !found[k] {
				lost = append(lost, id)
			}
		}
		if len(lost) > 0 {
			run.Violate(vf.Violation{Signature: "audit:concurrent-record-lost|id:collision", What: fmt.Sprintf("concurrent audit writer: the transactions %q finished within one second on one WAF; no record file carries the transactions %q (another transaction's record took their file name)", ids, lost),
				Replay: map[string]any{"family": "audit-concurrent-id-pairs", "ids": ids, "lost": lost}})
		}
		return
	}
}

// c19ConcurrentIDs: law RecordPerTransaction for the concurrent writer, over transaction ids as a connector may
// hand them over (NewTransactionWithID with a request-id header of the peer): every id built from the alphabet
// {x, /, .., ., space, backslash, NUL-free bytes} must yield exactly one record file carrying the id, inside the
// configured storage directory, and an index entry naming that file; nothing may be created outside the directory.
func c19ConcurrentIDs(run *vf.Run) {
	atoms := []string{"x", "/", "..", ".", " ", "\\", "%2f", "é"}
	var ids []string
	for _, a := range atoms {
		for _, b := range atoms {
			ids = append(ids, "t"+a+b+"z")
			for _, c := range []string{"/", "..", "x"} {
				ids = append(ids, a+b+c)
			}
		}
	}
	ids = append(ids, "../../../../../../escape", "a/b/c/d", "/abs", "..")
	base, err := os.MkdirTemp("", "verif-c19ids-")
	if err != nil {
		run.Inconclusive("c19ConcurrentIDs: %v", err)
		return
	}
	defer os.RemoveAll(base)
	reported := map[string]bool{}
	for k, id := range ids {
		outer := filepath.Join(base, fmt.Sprintf("o%d", k))
		store := filepath.Join(outer, "l1", "l2", "l3", "l4", "store")
		_ = os.MkdirAll(store, 0o755)
		index := filepath.Join(outer, "index.log")
		text := fmt.Sprintf("SecRuleEngine On\nSecAuditEngine On\nSecAuditLogParts ABHZ\nSecAuditLogType Concurrent\nSecAuditLogFormat json\nSecAuditLog %s\nSecAuditLogStorageDir %s\nSecAction \"id:1,phase:1,pass,log,auditlog,msg:'m'\"\n", index, store)
		w, err := coraza.NewWAF(coraza.NewWAFConfig().WithDirectives(text))
		if err != nil {
			run.Inconclusive("c19ConcurrentIDs: configuration rejected: %v", err)
			return
		}
		marker := fmt.Sprintf("/marker-%d", k)
		func() {
			defer func() { _ = recover() }()
			tx := w.NewTransactionWithID(id)
			tx.ProcessURI(marker, "GET", "HTTP/1.1")
			tx.ProcessRequestHeaders()
			tx.ProcessLogging()
			_ = tx.Close()
		}()
		closeAny(w)
		inside, outside := 0, 0
		var where []string
		_ = filepath.Walk(outer, func(p string, info os.FileInfo, err error) error {
			if err != nil || info.IsDir() || p == index {
				return nil
			}
			b, _ := os.ReadFile(p)
			if !strings.Contains(string(b), marker) {
				return nil
			}
			if strings.HasPrefix(p, store+string(os.PathSeparator)) {
				inside++
			} else {
				outside++
			}
			where = append(where, strings.TrimPrefix(p, outer))
			return nil
		})
		run.Eval("concid-" + id)
		kind := ""
		switch {
		case outside > 0:
			kind = "record-outside-storage-dir"
		case inside == 0:
			kind = "record-lost"
		case inside > 1:
			kind = "record-duplicated"
		}
		if kind == "" {
			continue
		}
		cls := "plain"
		if strings.Contains(id, "..") {
			cls = "dotdot"
		} else if strings.Contains(id, "/") {
			cls = "slash"
		}
		sig := "audit:concurrent-" + kind + "|id:" + cls
		if reported[sig] {
			continue
		}
		reported[sig] = true
		run.Violate(vf.Violation{Signature: sig, What: fmt.Sprintf("concurrent audit writer, transaction id %q: %s (record files carrying the transaction: %v; storage directory %s)", id, kind, where, strings.TrimPrefix(store, outer)),
			Replay: map[string]any{"family": "audit-concurrent-id", "id": id, "files": where}})
	}
}
