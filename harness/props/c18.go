package props

import (
	"bytes"
	"encoding/json"
	"fmt"
	"io"
	"net/http"
	"net/http/httptest"
	"sort"
	"strconv"
	"strings"
	"sync"
	"sync/atomic"
	"time"

	coraza "github.com/corazawaf/coraza/v3"
	corazahttp "github.com/corazawaf/coraza/v3/http"
	"github.com/corazawaf/coraza/v3/types"
	"github.com/corazawaf/coraza/v3/verifharness/eng"
	"github.com/corazawaf/coraza/v3/verifharness/vf"
)

func init() { Registry["C18"] = C18 }

type mwOp struct {
	O string `json:"o"`
	N int    `json:"n"`
}

type mwCase struct {
	Deny       int    `json:"deny"`
	ReqAccess  bool   `json:"reqAccess"`
	ReqAction  string `json:"reqAction"`
	RespAccess bool   `json:"respAccess"`
	RespAction string `json:"respAction"`
	Ctl        string `json:"ctl"`
	BadCT      bool   `json:"badct"`
	Body       int    `json:"body"`
	Known      bool   `json:"known"`
	Script     []mwOp `json:"script"`
}

type mwExp struct {
	C   mwCase `json:"c"`
	Exp struct {
		HandlerInvoked bool `json:"handlerInvoked"`
		HandlerRead    int  `json:"handlerRead"`
		Status         int  `json:"status"`
		BodyLen        int  `json:"bodyLen"`
		Passthrough    bool `json:"passthrough"`
	} `json:"exp"`
}

func mwDirectives(c *mwCase) string {
	onoff := func(b bool) string {
		if b {
			return "On"
		}
		return "Off"
	}
	s := fmt.Sprintf("SecRuleEngine On\nSecRequestBodyAccess %s\nSecRequestBodyLimit 8\nSecRequestBodyInMemoryLimit 4\nSecRequestBodyLimitAction %s\nSecResponseBodyAccess %s\nSecResponseBodyLimit 8\nSecResponseBodyLimitAction %s\nSecResponseBodyMimeType text/plain\n",
		onoff(c.ReqAccess), c.ReqAction, onoff(c.RespAccess), c.RespAction)
	switch c.Ctl {
	case "reqOn1":
		s += "SecAction \"id:3,phase:1,pass,nolog,ctl:requestBodyAccess=On\"\n"
	case "respOn3":
		s += "SecAction \"id:2,phase:3,pass,nolog,ctl:responseBodyAccess=On\"\n"
	}
	if c.Deny > 0 {
		s += fmt.Sprintf("SecAction \"id:1,phase:%d,deny,status:403\"\n", c.Deny)
	}
	return s
}

func reqBytes(n int) []byte {
	b := make([]byte, n)
	for i := range b {
		b[i] = byte('A' + i%26)
	}
	return b
}

func respBytes(from, n int) []byte {
	b := make([]byte, n)
	for i := range b {
		b[i] = byte('a' + (from+i)%26)
	}
	return b
}

type mwHandlerRec struct {
	mu      sync.Mutex
	invoked map[string]bool
	read    map[string][]byte
}

// hiddenLen hides the length of a body (the client then sends it chunked) and hands it over three bytes at a
// time with a pause, so that the server reads it in several pieces.
type hiddenLen struct{ r io.Reader }

func (h hiddenLen) Read(p []byte) (int, error) {
	if len(p) > 3 {
		p = p[:3]
	}
	n, err := h.r.Read(p)
	if n > 0 {
		time.Sleep(2 * time.Millisecond)
	}
	return n, err
}

func scriptString(s []mwOp) string {
	var ps []string
	for _, o := range s {
		ps = append(ps, o.O+strconv.Itoa(o.N))
	}
	return strings.Join(ps, ",")
}

// C18: HTTP middleware blocks completely and otherwise passes traffic through intact.
func C18(run *vf.Run) {
	run.Rule = "Mw.tla gives, for every case (unconditional deny in phase 1-4 or none x request/response body access (configured, or switched on at run time by ctl:requestBodyAccess in phase 1 / ctl:responseBodyAccess in phase 3) x limit actions x request body size below / at / above the limit x announced or chunked length x handler script of ReadBody / WriteHeader(s) / Write(k) / ReadFrom(k) / Flush operations incl. 201, 404, 500, 204, 304, writes straddling the response limit), what the wrapped handler and the client may see; TLC enumerates the table checking BlockedNeverReachesHandler, BlockedResponseLeaksNothing, PassThroughIsIdentity; every case is run against a real net/http server (httptest) wrapped by the middleware built from /repo, with a scripted handler, and the handler-invoked flag, the bytes the handler read, the status, the pass-through header and the body bytes the client received are compared. Non-trivial = case in which something is blocked or a body travels"
	run.Exhaustive = true
	run.Assume("only deny is asserted for blocked statuses (drop / redirect status mapping is left open)")
	run.Assume("the handler always starts a response (a handler that never touches the ResponseWriter is generated only without rules)")
	var exps []mwExp
	var mu sync.Mutex
	res, err := vf.RunTLC(vf.TLCOpts{Module: "Mw", Cfg: "Mw.cfg", Workers: 4, Timeout: 10 * time.Minute,
		OnOut: func(raw json.RawMessage) {
			var e mwExp
			if json.Unmarshal(raw, &e) == nil {
				mu.Lock()
				exps = append(exps, e)
				mu.Unlock()
			}
		}})
	if err != nil {
		run.Inconclusive("Mw: %v", err)
		return
	}
	run.AddTLC(res)
	run.Logf("Mw.tla: %s; %d cases", res.Describe(), len(exps))
	if res.Violated != "" || !res.OK() || len(exps) == 0 {
		run.Inconclusive("Mw.tla: TLC did not complete cleanly: %s\n%s", res.Describe(), res.ErrorText)
		return
	}
	sort.Slice(exps, func(i, j int) bool { return fmt.Sprint(exps[i].C) < fmt.Sprint(exps[j].C) })
	// one server per configuration
	type srv struct {
		ts  *httptest.Server
		waf coraza.WAF
		rec *mwHandlerRec
	}
	servers := map[string]*srv{}
	defer func() {
		for _, s := range servers {
			s.ts.Close()
			closeAny(s.waf)
		}
	}()
	getSrv := func(c *mwCase) (*srv, error) {
		text := mwDirectives(c)
		if s, ok := servers[text]; ok {
			return s, nil
		}
		w, err := coraza.NewWAF(coraza.NewWAFConfig().WithDirectives(text))
		if err != nil {
			return nil, err
		}
		rec := &mwHandlerRec{invoked: map[string]bool{}, read: map[string][]byte{}}
		h := http.HandlerFunc(func(w http.ResponseWriter, r *http.Request) {
			id := r.Header.Get("X-Case")
			rec.mu.Lock()
			rec.invoked[id] = true
			rec.mu.Unlock()
			if r.Header.Get("X-BadCT") == "1" {
				w.Header().Set("Content-Type", "text/plain; charset") // a parameter section that does not parse
			} else {
				w.Header().Set("Content-Type", "text/plain")
			}
			w.Header().Set("X-Handler", "h-"+id)
			off := 0
			for _, part := range strings.Split(r.Header.Get("X-Script"), ",") {
				if len(part) < 2 {
					continue
				}
				n, _ := strconv.Atoi(part[1:])
				op := part[:1]
				if strings.HasPrefix(part, "RB") || strings.HasPrefix(part, "WH") || strings.HasPrefix(part, "RF") || strings.HasPrefix(part, "FL") {
					op = part[:2]
					n, _ = strconv.Atoi(part[2:])
				}
				switch op {
				case "RB":
					var b []byte
					switch n {
					case 1: // sniff a few bytes, copy the rest (io.Copy uses the reader's WriteTo when it has one)
						head := make([]byte, 3)
						k, _ := io.ReadFull(r.Body, head)
						var rest bytes.Buffer
						_, _ = io.Copy(&rest, r.Body)
						b = append(head[:k], rest.Bytes()...)
					case 2: // small reads
						small := make([]byte, 3)
						for {
							k, err := r.Body.Read(small)
							b = append(b, small[:k]...)
							if err != nil {
								break
							}
						}
					case 3:
						var all bytes.Buffer
						_, _ = io.Copy(&all, r.Body)
						b = all.Bytes()
					case 4:
						one := make([]byte, 1)
						k, _ := r.Body.Read(one)
						rest, _ := io.ReadAll(r.Body)
						b = append(one[:k], rest...)
					default:
						b, _ = io.ReadAll(r.Body)
					}
					rec.mu.Lock()
					rec.read[id] = b
					rec.mu.Unlock()
				case "WH":
					w.WriteHeader(n)
				case "W":
					_, _ = w.Write(respBytes(off, n))
					off += n
				case "RF":
					if rf, ok := w.(io.ReaderFrom); ok {
						_, _ = rf.ReadFrom(bytes.NewReader(respBytes(off, n)))
					} else {
						_, _ = w.Write(respBytes(off, n))
					}
					off += n
				case "FL":
					if f, ok := w.(http.Flusher); ok {
						f.Flush()
					}
				}
			}
		})
		// the transactions the middleware creates are recorded for Flow_Trace (the connector is a driver of call orders)
		s := &srv{ts: httptest.NewServer(corazahttp.WrapHandler(mwRecWAF{WAF: w, label: strings.ReplaceAll(text, "\n", " ; ")}, h)), waf: w, rec: rec}
		servers[text] = s
		return s, nil
	}
	client := &http.Client{Timeout: 20 * time.Second, Transport: &http.Transport{DisableKeepAlives: true}}
	reported := map[string]bool{}
	report := func(kind string, e *mwExp, detail string) {
		feat := []string{fmt.Sprintf("deny%d", e.C.Deny)}
		if e.C.ReqAccess {
			feat = append(feat, "req:"+e.C.ReqAction)
		}
		if e.C.RespAccess {
			feat = append(feat, "resp:"+e.C.RespAction)
		}
		sig := "mw:" + kind + "|" + strings.Join(feat, "+")
		if reported[kind+fmt.Sprint(e.C.Deny)] {
			return
		}
		reported[kind+fmt.Sprint(e.C.Deny)] = true
		run.Violate(vf.Violation{Signature: sig, What: fmt.Sprintf("%s: %s || %s || request body %d bytes (length announced: %v), handler script %s", kind, detail, strings.ReplaceAll(mwDirectives(&e.C), "\n", " ; "), e.C.Body, e.C.Known, scriptString(e.C.Script)),
			Replay: map[string]any{"family": "middleware", "case": e.C, "specified": e.Exp}})
	}
	for i := range exps {
		e := &exps[i]
		s, err := getSrv(&e.C)
		if err != nil {
			run.Inconclusive("middleware configuration rejected: %v", err)
			return
		}
		id := fmt.Sprintf("c%d", i)
		body := reqBytes(e.C.Body)
		var rd io.Reader
		if e.C.Body == 0 {
			rd = nil
		} else if e.C.Known {
			rd = bytes.NewReader(body)
		} else {
			rd = hiddenLen{bytes.NewReader(body)}
		}
		req, _ := http.NewRequest("POST", s.ts.URL+"/p", rd)
		req.Header.Set("X-Case", id)
		req.Header.Set("X-Script", scriptString(e.C.Script))
		if e.C.BadCT {
			req.Header.Set("X-BadCT", "1")
		}
		req.Header.Set("Content-Type", "text/plain")
		resp, err := client.Do(req)
		if err != nil {
			report("request-failed", e, err.Error())
			continue
		}
		got, _ := io.ReadAll(resp.Body)
		resp.Body.Close()
		s.rec.mu.Lock()
		invoked := s.rec.invoked[id]
		read, didRead := s.rec.read[id]
		s.rec.mu.Unlock()
		nt := ""
		if !e.Exp.Passthrough || e.Exp.BodyLen > 0 || e.C.Body > 0 {
			nt = fmt.Sprint(e.C)
		}
		run.Eval(nt)
		if i%701 == 0 {
			run.Sample(map[string]any{"directives": mwDirectives(&e.C), "request_body_bytes": e.C.Body, "length_announced": e.C.Known, "handler_script": scriptString(e.C.Script),
				"specified": e.Exp, "observed": map[string]any{"handler_invoked": invoked, "status": resp.StatusCode, "client_body": string(got)}})
		}
		if invoked != e.Exp.HandlerInvoked {
			if !e.Exp.HandlerInvoked {
				report("blocked-request-reached-handler", e, "the request is interrupted in a request phase but the wrapped handler was invoked")
			} else {
				report("handler-not-invoked", e, "nothing interrupts the request but the wrapped handler was not invoked")
			}
			continue
		}
		if resp.StatusCode != e.Exp.Status {
			report("client-status", e, fmt.Sprintf("client received status %d, specified %d", resp.StatusCode, e.Exp.Status))
		}
		if !e.Exp.Passthrough {
			if len(got) != 0 {
				report("blocked-but-body-leaked", e, fmt.Sprintf("the transaction is interrupted but the client received %d body byte(s): %q", len(got), string(got)))
			}
			if resp.Header.Get("X-Handler") != "" && !e.Exp.HandlerInvoked {
				report("blocked-but-handler-headers-leaked", e, "handler headers reached the client although the handler must not run")
			}
		} else {
			want := respBytes(0, e.Exp.BodyLen)
			if string(got) != string(want) {
				report("passthrough-body-differs", e, fmt.Sprintf("client received %q, the handler wrote %q", string(got), string(want)))
			}
			if resp.Header.Get("X-Handler") != "h-"+id {
				report("passthrough-header-lost", e, fmt.Sprintf("handler header X-Handler=%q did not reach the client (got %q)", "h-"+id, resp.Header.Get("X-Handler")))
			}
		}
		if e.Exp.HandlerRead >= 0 && didRead && string(read) != string(body) {
			report("handler-read-differs", e, fmt.Sprintf("the handler read %q, the client sent %q", string(read), string(body)))
		}
	}
	// code -> spec: the transactions the middleware created and drove are behaviours of Flow.tla
	// (every phase at most once, nothing evaluated after the interruption, no residual state between phases)
	time.Sleep(200 * time.Millisecond) // the deferred ProcessLogging / Close of the last requests
	traces := eng.GetFlowRecorder().TakeFinished()
	if len(traces) == 0 {
		run.Inconclusive("no middleware transaction was recorded for Flow_Trace")
		return
	}
	run.Rule += ". Code -> spec: every fourth transaction the middleware created is recorded through the verif hooks and validated event by event against Flow_Trace.tla"
	rejected, details, at, ok := eng.ValidateFlowBatches(run, traces, 20000)
	run.Logf("Flow_Trace over %d middleware transactions: rejected %d (completed=%v)", len(traces), len(rejected), ok)
	for i, t := range rejected {
		ev := ""
		if at[i] > 0 && at[i] <= len(t.Lines) {
			ev = string(t.Lines[at[i]-1].JSON)
		}
		run.Violate(vf.Violation{Signature: "mw:flow-trace-rejected", What: fmt.Sprintf("a transaction driven by the middleware is not a behaviour of Flow.tla: event #%d rejected (%s) || %s || %s", at[i], details[i], t.Label, ev),
			Replay: map[string]any{"family": "middleware-flow", "source": t.Label, "rejected_at": at[i]}})
		break
	}
}

// mwRecWAF hands the middleware transactions that are recorded by the flow recorder.
type mwRecWAF struct {
	coraza.WAF
	label string
}

var mwRecCount atomic.Int64

func (m mwRecWAF) NewTransaction() types.Transaction {
	tx := m.WAF.NewTransaction()
	if mwRecCount.Add(1)%4 == 0 { // every fourth transaction: the traces are small but there are many cases
		eng.GetFlowRecorder().AttachAuto(tx, "middleware || "+m.label)
	}
	return tx
}
