package props

import (
	"github.com/corazawaf/coraza/v3/verifharness/eng"
	"github.com/corazawaf/coraza/v3/verifharness/vf"
)

func init() { Registry["DEVTRACE"] = devTrace }

// devTrace is a development entry point, not a registered check.
func devTrace(run *vf.Run) {
	eng.TraceFamily(run, "rand", 600, 100, eng.GenOpts{MaxRules: 4, MaxEntries: 4, Flow: true, Actions: true, Chains: true, Engines: []string{"On", "On", "DetectionOnly"}}, 1)
}

func init() {
	Registry["DEVFLOW"] = func(run *vf.Run) { FlowTraceStage(run, "profiles", "crs", "generated") }
	Registry["DEVFLOWP"] = func(run *vf.Run) { FlowTraceStage(run, "profiles") }
	Registry["DEVFLOWC"] = func(run *vf.Run) { FlowTraceStage(run, "crs") }
	Registry["DEVFLOWA"] = func(run *vf.Run) { FlowTraceStage(run, "api") }
	Registry["DEVFLOWG"] = func(run *vf.Run) { FlowTraceStage(run, "generated") }
}
