package props

import (
	"time"

	"github.com/corazawaf/coraza/v3/verifharness/eng"
	"github.com/corazawaf/coraza/v3/verifharness/vf"
)

func init() { Registry["C08"] = C08 }

// C08: skip / skipAfter / allow / chain steer evaluation exactly as documented.
func C08(run *vf.Run) {
	run.Rule = "TLC enumerates every rule list of N slots over the flow-control templates (plain, skip:1/2, skipAfter:M, SecMarker M, allow, allow:phase, allow:request, deny, deny+skip:1, deny+skipAfter:M; each optionally a chain) x phases x every subset of rules/chain links made to match x engine mode, plus the modes family (ctl:ruleEngine=DetectionOnly / On / Off in the middle of a phase next to allow, allow:phase and deny) and the markers family: 4 (5) slots over {SecMarker M, skipAfter:M, plain} with the label declared any number of times and a logging-phase rule at the end; each scenario is replayed on the real library; non-trivial = at least one rule fires in the specification"
	run.Exhaustive = true
	run.Assume("TLC 1.8.0 explores the bounded Engine_MC instance completely")
	run.Assume("scenario rendering (harness/eng/render.go) writes the structured rule description in SecLang as documented")
	n := vf.Pick(run, 2, 3)
	phases := vf.Pick(run, "{1, 2, 5}", "{1, 2, 5}")
	eng.ReplayFamily(run, eng.FamilyOpts{
		Name:    "flow",
		CfgText: engineCfg("flow", n, 1, phases, `{"On", "DetectionOnly"}`),
		Proj:    eng.ProjOpts{},
		Timeout: vf.Pick(run, 10*time.Minute, 60*time.Minute),
		Workers: 3,
		Slices:  6,
	})
	if run.NumViolations() > 0 {
		return
	}
	// the engine mode switched in the middle of a phase next to allow / deny
	eng.ReplayFamily(run, eng.FamilyOpts{
		Name:    "modes",
		CfgText: engineCfg("modes", vf.Pick(run, 2, 3), 0, `{1, 5}`, `{"On", "DetectionOnly"}`),
		Proj:    eng.ProjOpts{},
		Timeout: vf.Pick(run, 10*time.Minute, 60*time.Minute),
		Workers: 3,
		Slices:  6,
	})
	if run.NumViolations() > 0 {
		return
	}
	// the same label declared several times, jumps before / between / after the declarations
	eng.ReplayFamily(run, eng.FamilyOpts{
		Name:    "markers",
		CfgText: engineCfg("markers", vf.Pick(run, 4, 5), 0, `{1, 2, 5}`, `{"On"}`),
		Proj:    eng.ProjOpts{},
		Timeout: vf.Pick(run, 10*time.Minute, 60*time.Minute),
		Workers: 3,
		Slices:  6,
	})
	if run.NumViolations() > 0 || len(run.InconclusiveList()) > 0 {
		return
	}
	// code -> spec over arbitrary rule sets: recorded executions of the repository's test profiles, the Core Rule Set and
	// generated rule sets must be behaviours of Flow.tla (Flow_Trace.tla)
	FlowTraceStage(run, "profiles", "crs", "generated", "api")
}
