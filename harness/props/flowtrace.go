package props

import (
	"encoding/json"
	"fmt"
	"io/fs"
	"math/rand"
	"os"
	"path/filepath"
	"sort"
	"strings"

	coreruleset "github.com/corazawaf/coraza-coreruleset"
	coraza "github.com/corazawaf/coraza/v3"
	ctest "github.com/corazawaf/coraza/v3/testing"
	_ "github.com/corazawaf/coraza/v3/testing/engine" // registers the repository's test profiles
	"github.com/corazawaf/coraza/v3/testing/profile"
	"github.com/corazawaf/coraza/v3/types"
	"github.com/corazawaf/coraza/v3/verifharness/eng"
	"github.com/corazawaf/coraza/v3/verifharness/vf"
)

// Code -> spec for arbitrary rule sets: executions of the repository's own test profiles, of the
// Core Rule Set and of generated rule sets are recorded through the verif hooks and TLC checks
// every event against Flow_Trace.tla (the control skeleton of the rule loop: branch per rule from
// the residual state, shape of an evaluation, effect of the executed actions, phase protocol).

type flowStats struct {
	Transactions int            `json:"transactions"`
	Events       int            `json:"events"`
	Branches     map[string]int `json:"branches"`
	Sources      map[string]int `json:"transactions_per_source"`
}

func (s *flowStats) add(src string, t eng.FlowTrace) {
	s.Transactions++
	s.Sources[src]++
	for _, l := range t.Lines {
		s.Events++
		if l.Kind == "rule" {
			s.Branches[l.Branch]++
		}
	}
}

// driveProfileStage runs one stage of a repository test profile (optionally with extra directives
// and a call script other than the canonical one) with the flow recorder attached.
func driveProfileStage(fr *eng.FlowRecorder, p *profile.Profile, title string, st profile.Stage, extra string, script string) (tr eng.FlowTrace, err error) {
	defer func() {
		if r := recover(); r != nil {
			err = fmt.Errorf("panic: %v", r)
		}
	}()
	w, e := coraza.NewWAF(coraza.NewWAFConfig().
		WithRootFS(os.DirFS(filepath.Join(repoRoot(), "testing", "testdata"))).
		WithDirectives(p.Rules).WithDirectives(extra))
	if e != nil {
		return tr, fmt.Errorf("compile: %v", e)
	}
	if c, ok := w.(interface{ Close() error }); ok {
		defer c.Close()
	}
	t := ctest.NewTest(title, w)
	tx := t.Transaction()
	defer tx.Close()
	fr.Attach(tx)
	in := st.Stage.Input
	if in.URI != "" {
		t.RequestURI = in.URI
	}
	if in.Method != "" {
		t.RequestMethod = in.Method
	}
	if in.Version != "" {
		t.RequestProtocol = in.Version
	}
	if in.Headers != nil {
		t.RequestHeaders = in.Headers
	}
	if st.Stage.Output.Headers != nil {
		t.ResponseHeaders = st.Stage.Output.Headers
	}
	t.ResponseCode = 200
	t.ResponseProtocol = "HTTP/1.1"
	t.ServerAddress = in.DestAddr
	t.ServerPort = in.Port
	if in.StopMagic {
		t.DisableMagic()
	}
	if e := t.SetEncodedRequest(in.EncodedRequest); e != nil {
		return tr, e
	}
	if e := t.SetRawRequest(in.RawRequest); e != nil {
		return tr, e
	}
	if e := t.SetRequestBody(in.Data); e != nil {
		return tr, e
	}
	if e := t.SetResponseBody(st.Stage.Output.Data); e != nil {
		return tr, e
	}
	switch script {
	case "":
		_ = t.RunPhases()
	default:
		// the same data, the phase calls in an order a connector might produce
		tx.ProcessConnection(t.RequestAddress, t.RequestPort, t.ServerAddress, t.ServerPort)
		tx.ProcessURI(t.RequestURI, t.RequestMethod, t.RequestProtocol)
		for k, v := range t.RequestHeaders {
			tx.AddRequestHeader(k, v)
		}
		for _, c := range script {
			switch c {
			case '1':
				tx.ProcessRequestHeaders()
			case '2':
				_, _ = tx.ProcessRequestBody()
			case '3':
				for k, v := range t.ResponseHeaders {
					tx.AddResponseHeader(k, v)
				}
				tx.ProcessResponseHeaders(t.ResponseCode, t.ResponseProtocol)
			case '4':
				_, _ = tx.ProcessResponseBody()
			case '5':
				tx.ProcessLogging()
			}
		}
	}
	tr = eng.FlowTrace{Label: "profile " + p.Meta.Name + " / " + title + " [" + extra + "] script=" + script, Lines: fr.Detach(tx)}
	return tr, nil
}

// crsRequests: traffic that takes the Core Rule Set through its blocking, scoring and skipping paths.
var crsRequests = []struct {
	Name, Method, URI, Body, CT string
	Headers                     [][2]string
}{
	{"benign-get", "GET", "/index.html?id=5&name=alice", "", "", [][2]string{{"Host", "example.com"}, {"User-Agent", "Mozilla/5.0"}, {"Accept", "*/*"}}},
	{"sqli", "GET", "/?id=1%27%20OR%20%271%27%3D%271%27--%20", "", "", [][2]string{{"Host", "example.com"}, {"User-Agent", "Mozilla/5.0"}, {"Accept", "*/*"}}},
	{"xss-post", "POST", "/comment", "text=%3Cscript%3Ealert(1)%3C%2Fscript%3E&x=1", "application/x-www-form-urlencoded", [][2]string{{"Host", "example.com"}, {"User-Agent", "Mozilla/5.0"}, {"Accept", "*/*"}}},
	{"lfi-rce", "GET", "/?file=../../../../etc/passwd&cmd=;cat+/etc/shadow", "", "", [][2]string{{"Host", "example.com"}, {"User-Agent", "curl/8.0"}, {"Accept", "*/*"}}},
	{"scanner-no-host", "GET", "/", "", "", [][2]string{{"User-Agent", "nikto"}}},
	{"json-body", "POST", "/api", `{"a":{"b":"<script>alert(1)</script>"},"c":[1,"' or 1=1--"]}`, "application/json", [][2]string{{"Host", "example.com"}, {"User-Agent", "Mozilla/5.0"}, {"Accept", "*/*"}}},
	{"xml-body", "POST", "/soap", `<?xml version="1.0"?><a><b x="1 UNION SELECT 1">text</b></a>`, "text/xml", [][2]string{{"Host", "example.com"}, {"User-Agent", "Mozilla/5.0"}, {"Accept", "*/*"}}},
	{"method-not-allowed", "TRACE", "/", "", "", [][2]string{{"Host", "example.com"}, {"User-Agent", "Mozilla/5.0"}, {"Accept", "*/*"}}},
	{"multipart", "POST", "/upload", "--b\r\nContent-Disposition: form-data; name=\"f\"; filename=\"a.php\"\r\nContent-Type: text/plain\r\n\r\n<?php system($_GET['c']); ?>\r\n--b--\r\n", "multipart/form-data; boundary=b", [][2]string{{"Host", "example.com"}, {"User-Agent", "Mozilla/5.0"}, {"Accept", "*/*"}}},
	{"numeric-host", "GET", "/?q=1", "", "", [][2]string{{"Host", "127.0.0.1"}, {"User-Agent", "Mozilla/5.0"}, {"Accept", "*/*"}}},
}

func crsWAF(extra string) (coraza.WAF, error) {
	rec, err := fs.ReadFile(coreruleset.FS, "@coraza.conf-recommended")
	if err != nil {
		b, e2 := os.ReadFile(filepath.Join(repoRoot(), "coraza.conf-recommended"))
		if e2 != nil {
			return nil, err
		}
		rec = b
	}
	return coraza.NewWAF(coraza.NewWAFConfig().WithRootFS(coreruleset.FS).
		WithDirectives(string(rec)).
		WithDirectives(extra).
		WithDirectives("Include @crs-setup.conf.example").
		WithDirectives("Include @owasp_crs/*.conf"))
}

func driveCRS(fr *eng.FlowRecorder, w coraza.WAF, k int, label string, responseBody string) (tr eng.FlowTrace, err error) {
	defer func() {
		if r := recover(); r != nil {
			err = fmt.Errorf("panic: %v", r)
		}
	}()
	rq := crsRequests[k]
	tx := w.NewTransaction()
	defer tx.Close()
	fr.Attach(tx)
	tx.ProcessConnection("192.0.2.7", 40000, "192.0.2.1", 80)
	tx.ProcessURI(rq.URI, rq.Method, "HTTP/1.1")
	for _, h := range rq.Headers {
		tx.AddRequestHeader(h[0], h[1])
	}
	if rq.CT != "" {
		tx.AddRequestHeader("Content-Type", rq.CT)
		tx.AddRequestHeader("Content-Length", fmt.Sprint(len(rq.Body)))
	}
	run := func() {
		if it := tx.ProcessRequestHeaders(); it != nil {
			return
		}
		if rq.Body != "" {
			if it, _, _ := tx.WriteRequestBody([]byte(rq.Body)); it != nil {
				return
			}
		}
		if it, _ := tx.ProcessRequestBody(); it != nil {
			return
		}
		tx.AddResponseHeader("Content-Type", "text/html")
		if it := tx.ProcessResponseHeaders(200, "HTTP/1.1"); it != nil {
			return
		}
		if tx.IsResponseBodyAccessible() && tx.IsResponseBodyProcessable() {
			if it, _, _ := tx.WriteResponseBody([]byte(responseBody)); it != nil {
				return
			}
		}
		_, _ = tx.ProcessResponseBody()
	}
	run()
	tx.ProcessLogging()
	return eng.FlowTrace{Label: "crs " + label + " / " + rq.Name, Lines: fr.Detach(tx)}, nil
}

// recordScenFlow drives a generated scenario of the engine families with the flow recorder attached.
func recordScenFlow(fr *eng.FlowRecorder, s *eng.Scen) (eng.FlowTrace, eng.Observed) {
	eng.NormalizeScen(s)
	var lines []eng.FlowLine
	obs := eng.Run(s, eng.RunOpts{Hooks: func(tx types.Transaction) { fr.Attach(tx) },
		Finish: func(tx types.Transaction, _ *eng.Outcome) { lines = fr.Detach(tx) }})
	return eng.FlowTrace{Label: "generated || " + strings.ReplaceAll(obs.Text, "\n", " ; ") + fmt.Sprint(" || ", s.Req), Lines: lines}, obs
}

// recordScenAPI compiles a generated scenario together with body access and small body limits and
// drives a random sequence of Transaction calls (repeated, out of order, body writes that reach the
// limits) with the flow recorder attached.
func recordScenAPI(fr *eng.FlowRecorder, s *eng.Scen, rng *rand.Rand) (tr eng.FlowTrace, ok bool) {
	eng.NormalizeScen(s)
	la := []string{"ProcessPartial", "Reject"}
	extra := fmt.Sprintf("SecRequestBodyAccess On\nSecResponseBodyAccess On\nSecResponseBodyMimeType text/plain\nSecRequestBodyLimit %d\nSecRequestBodyLimitAction %s\nSecResponseBodyLimit %d\nSecResponseBodyLimitAction %s\n",
		2+rng.Intn(4), la[rng.Intn(2)], 2+rng.Intn(4), la[rng.Intn(2)])
	// every other scenario also gets one or two rules that always fire and steer the evaluation, in a random phase,
	// in front of the generated rules, and two logging-phase rules behind a marker at the end
	flow := ""
	if rng.Intn(2) == 0 {
		always := []string{"deny,skip:2", "drop,skipAfter:ZEND", "pass,skip:1", "allow:phase", "allow:request", "allow", "pass,ctl:ruleEngine=DetectionOnly",
			"pass,ctl:ruleEngine=On", "pass,ctl:ruleRemoveById=10-30", "redirect:http://x/,status:302", "pass,skipAfter:ZEND", "deny,skipAfter:NOWHERE", "pass,ctl:ruleRemoveById=9098"}
		for k := 0; k < 1+rng.Intn(2); k++ {
			flow += fmt.Sprintf("SecAction \"id:%d,phase:%d,nolog,%s\"\n", 9001+k, 1+rng.Intn(5), always[rng.Intn(len(always))])
		}
	}
	text := extra + flow + eng.Render(s) + "SecMarker ZEND\nSecAction \"id:9098,phase:5,pass,nolog\"\nSecAction \"id:9099,phase:5,pass,nolog\"\n"
	w, err, p := eng.Compile(text)
	if err != nil || p != "" {
		return tr, false
	}
	defer func() {
		if c, ok := w.(interface{ Close() error }); ok {
			c.Close()
		}
	}()
	var script []string
	func() {
		defer func() {
			if r := recover(); r != nil {
				tr.Label = "api panic: " + fmt.Sprint(r)
			}
		}()
		tx := w.NewTransaction()
		defer tx.Close()
		fr.Attach(tx)
		tx.ProcessConnection("10.0.0.1", 1234, "10.0.0.2", 80)
		tx.ProcessURI("/", "POST", "HTTP/1.1")
		eng.Feed(tx, s.Req)
		tx.AddRequestHeader("Content-Type", "application/x-www-form-urlencoded")
		tx.AddResponseHeader("Content-Type", "text/plain")
		canonical := []string{"PRH", "WREQ", "PRB", "PRSH", "WRESP", "PRSB", "PL"}
		names := []string{"PRH", "PRB", "PRSH", "PRSB", "WREQ", "WREQ", "WRESP", "WRESP"}
		n := 4 + rng.Intn(9)
		logged := false
		for j := 0; j < n && !logged; j++ {
			name := names[rng.Intn(len(names))]
			if rng.Intn(2) == 0 {
				name = canonical[j%len(canonical)]
			}
			k := 1 + rng.Intn(3)
			switch name {
			case "PRH":
				tx.ProcessRequestHeaders()
			case "PRB":
				_, _ = tx.ProcessRequestBody()
			case "PRSH":
				tx.ProcessResponseHeaders(200, "HTTP/1.1")
			case "PRSB":
				_, _ = tx.ProcessResponseBody()
			case "WREQ":
				if rng.Intn(2) == 0 {
					_, _, _ = tx.WriteRequestBody([]byte("a=bcdef"[:k]))
				} else {
					_, _, _ = tx.ReadRequestBodyFrom(strings.NewReader("a=bcdef"[:k]))
				}
				name += fmt.Sprint(k)
			case "WRESP":
				if rng.Intn(2) == 0 {
					_, _, _ = tx.WriteResponseBody([]byte("xyzuvw"[:k]))
				} else {
					_, _, _ = tx.ReadResponseBodyFrom(strings.NewReader("xyzuvw"[:k]))
				}
				name += fmt.Sprint(k)
			case "PL":
				tx.ProcessLogging()
				logged = true
			}
			script = append(script, name)
		}
		if !logged {
			tx.ProcessLogging()
		}
		tr.Lines = fr.Detach(tx)
	}()
	if strings.HasPrefix(tr.Label, "api panic") {
		return tr, true
	}
	tr.Label = "api || " + strings.ReplaceAll(text, "\n", " ; ") + fmt.Sprint(" || ", s.Req) + " || calls " + strings.Join(script, " ")
	return tr, true
}

// FlowTraceStage records and validates. which selects the sources: "profiles", "crs", "generated".
func FlowTraceStage(run *vf.Run, which ...string) {
	run.Rule += ". Code -> spec: recorded executions (" + strings.Join(which, ", ") + ": the repository's own test profiles under the canonical and six other call orders and under DetectionOnly, the bundled Core Rule Set over attack and benign traffic at several paranoia levels, generated rule sets) are validated event by event against Flow_Trace.tla: the branch of every rule-loop iteration from the residual state, the shape of every evaluation (non-disruptive actions once per matched value in order, flow / disruptive actions once per completed chain, one datum per satisfied value), the effect of skip / skipAfter / allow / deny / ctl on the state read back from the transaction, the phase protocol"
	run.Assume("action arguments are read off the compiled action objects by reflection (skip count, marker label, allow scope, ctl option and value)")
	fr := eng.GetFlowRecorder()
	stats := &flowStats{Branches: map[string]int{}, Sources: map[string]int{}}
	var traces []eng.FlowTrace
	want := map[string]bool{}
	for _, w := range which {
		want[w] = true
	}
	if want["profiles"] {
		names := make([]string, 0, len(profile.Profiles))
		for n := range profile.Profiles {
			names = append(names, n)
		}
		sort.Strings(names)
		variants := []struct{ extra, script string }{{"", ""}, {"SecRuleEngine DetectionOnly", ""}, {"", "12345"}, {"", "1235"}, {"", "21345"}, {"", "1122334455"}, {"", "13245"}, {"", "5"}, {"", "125"}}
		if !run.Thorough() {
			variants = variants[:6]
		}
		skipped := 0
		for _, n := range names {
			p := profile.Profiles[n]
			for _, t := range p.Tests {
				for _, st := range t.Stages {
					for _, v := range variants {
						tr, err := driveProfileStage(fr, &p, t.Title, st, v.extra, v.script)
						fr.ForgetRules()
						if err != nil {
							if strings.HasPrefix(err.Error(), "panic") {
								run.Violate(vf.Violation{Signature: "flow:panic|profile", What: "panic while driving a repository test profile: " + err.Error() + " || " + n + " / " + t.Title,
									Replay: map[string]any{"profile": n, "test": t.Title, "extra": v.extra, "script": v.script}})
							} else {
								skipped++ // profiles that need other files / are expected not to compile
							}
							continue
						}
						traces = append(traces, tr)
						stats.add("profiles", tr)
					}
				}
			}
		}
		run.Extra["flow_profiles_skipped"] = skipped
		run.Logf("flow traces: %d transactions of the repository's test profiles recorded (%d stages skipped)", stats.Sources["profiles"], skipped)
	}
	if want["crs"] || want["crsx"] {
		setups := []struct{ label, extra string }{
			{"On/PL1", "SecRuleEngine On"},
			{"DetectionOnly/PL2", "SecRuleEngine DetectionOnly\nSecAction \"id:900000,phase:1,pass,t:none,nolog,setvar:tx.blocking_paranoia_level=2\""},
			{"On/PL4/early", "SecRuleEngine On\nSecAction \"id:900000,phase:1,pass,t:none,nolog,setvar:tx.blocking_paranoia_level=4\"\nSecAction \"id:900120,phase:1,pass,t:none,nolog,setvar:tx.early_blocking=1\""},
			{"On/PL1/exclusions", "SecRuleEngine On\nSecRule REQUEST_URI \"@beginsWith /\" \"id:1000,phase:1,pass,nolog,ctl:ruleRemoveById=942100-942999,ctl:ruleRemoveByTag=attack-xss,ctl:ruleRemoveTargetById=932160;ARGS:cmd\""},
		}
		if want["crsx"] && !want["crs"] {
			setups = setups[3:]
		} else if !run.Thorough() && !want["crsx"] {
			setups = setups[:3]
		}
		for _, su := range setups {
			w, err := crsWAF(su.extra)
			if err != nil {
				run.Inconclusive("flow traces: the bundled Core Rule Set does not compile: %v", err)
				return
			}
			for k := range crsRequests {
				if !run.Thorough() && k%2 == 1 && su.label != "On/PL1" {
					continue
				}
				tr, err := driveCRS(fr, w, k, su.label, "<html>root:x:0:0:root:/root:/bin/bash</html>")
				if err != nil {
					run.Violate(vf.Violation{Signature: "flow:panic|crs", What: "panic while driving the Core Rule Set: " + err.Error(), Replay: map[string]any{"setup": su, "request": crsRequests[k]}})
					continue
				}
				traces = append(traces, tr)
				stats.add("crs", tr)
			}
			fr.ForgetRules()
			if c, ok := w.(interface{ Close() error }); ok {
				c.Close()
			}
		}
		run.Logf("flow traces: %d Core Rule Set transactions recorded", stats.Sources["crs"])
	}
	if want["generated"] {
		rng := rand.New(rand.NewSource(run.Seed*104729 + 17))
		n := vf.Pick(run, 400, 4000)
		for k := 0; k < n; k++ {
			s := eng.GenScen(rng, eng.GenOpts{MaxRules: 5, MaxEntries: 4, Actions: true, Chains: true, Flow: true, Engines: []string{"On", "On", "DetectionOnly"}})
			tr, obs := recordScenFlow(fr, s)
			fr.ForgetRules()
			if obs.Panic != "" || obs.CompileEr != "" || len(tr.Lines) == 0 {
				continue
			}
			traces = append(traces, tr)
			stats.add("generated", tr)
		}
		run.Logf("flow traces: %d generated transactions recorded", stats.Sources["generated"])
	}
	if want["api"] {
		rng := rand.New(rand.NewSource(run.Seed*15485863 + 5))
		n := vf.Pick(run, 600, 6000)
		for k := 0; k < n; k++ {
			s := eng.GenScen(rng, eng.GenOpts{MaxRules: 4, MaxEntries: 3, Actions: true, Chains: k%3 == 0, Flow: true, Engines: []string{"On", "On", "DetectionOnly"}})
			tr, ok := recordScenAPI(fr, s, rng)
			fr.ForgetRules()
			if !ok {
				continue
			}
			if strings.HasPrefix(tr.Label, "api panic") {
				run.Violate(vf.Violation{Signature: "flow:panic|api", What: tr.Label, Replay: map[string]any{"scenario": s}})
				continue
			}
			traces = append(traces, tr)
			stats.add("api", tr)
		}
		run.Logf("flow traces: %d generated transactions under random call sequences recorded", stats.Sources["api"])
	}
	run.Extra["flow_trace"] = stats
	run.Logf("flow traces: %d events, rule-loop branches %v", stats.Events, stats.Branches)
	if stats.Transactions == 0 {
		run.Inconclusive("flow traces: nothing recorded")
		return
	}
	if !flowBindingSelfTest(run, traces) {
		return
	}
	rejected, details, at, ok := eng.ValidateFlowBatches(run, traces, vf.Pick(run, 20000, 20000))
	if !ok {
		return
	}
	for i, t := range rejected {
		kind, ev := "trace-rejected", ""
		if at[i] > 0 && at[i] <= len(t.Lines) {
			l := t.Lines[at[i]-1]
			kind += ":" + l.Kind
			if l.Kind == "rule" || l.Kind == "phase" || l.Kind == "call" {
				kind += ":" + l.Branch
			}
			ev = string(l.JSON)
		} else if at[i] == -1 {
			kind = "invariant"
		}
		src := strings.SplitN(t.Label, " ", 2)[0]
		var lines []json.RawMessage
		for _, l := range t.Lines {
			lines = append(lines, l.JSON)
		}
		run.Violate(vf.Violation{Signature: "flow:" + kind + "|" + src,
			What:   fmt.Sprintf("the recorded execution is not a behaviour of Flow.tla: event #%d rejected (%s) || %s || %s", at[i], details[i], t.Label, ev),
			Replay: map[string]any{"source": t.Label, "rejected_at": at[i], "detail": details[i], "trace": lines}})
	}
	for _, t := range traces {
		fired := false
		for _, l := range t.Lines {
			if l.Kind == "rule" && l.Branch != "evaluated" {
				fired = true
			}
		}
		k := ""
		if fired {
			k = t.Label
		}
		run.Eval(k)
	}
}

// flowBindingSelfTest: a faithful trace is accepted; with one logged branch replaced, one logged
// post-state falsified, or one rule event dropped it must be rejected.
func flowBindingSelfTest(run *vf.Run, traces []eng.FlowTrace) bool {
	var pick *eng.FlowTrace
	for i := range traces {
		n := 0
		for _, l := range traces[i].Lines {
			if l.Kind == "rule" && l.Branch == "skipCounter" {
				n++
			}
		}
		if n > 0 && len(traces[i].Lines) < 400 {
			pick = &traces[i]
			break
		}
	}
	if pick == nil {
		for i := range traces {
			if len(traces[i].Lines) > 6 && len(traces[i].Lines) < 400 {
				pick = &traces[i]
				break
			}
		}
	}
	if pick == nil {
		run.Inconclusive("flow binding self-test: no suitable trace")
		return false
	}
	mutate := func(f func(m map[string]any) bool, drop bool) eng.FlowTrace {
		out := eng.FlowTrace{Label: pick.Label}
		done := false
		for _, l := range pick.Lines {
			if !done && l.Kind == "rule" {
				if drop {
					done = true
					continue
				}
				var m map[string]any
				_ = json.Unmarshal(l.JSON, &m)
				if f(m) {
					done = true
					b, _ := json.Marshal(m)
					l.JSON = b
				}
			}
			out.Lines = append(out.Lines, l)
		}
		return out
	}
	faithful, e0 := eng.ValidateFlow([]eng.FlowTrace{*pick}, 0)
	branch, e1 := eng.ValidateFlow([]eng.FlowTrace{mutate(func(m map[string]any) bool {
		if m["branch"] == "evaluated" {
			m["branch"] = "skipCounter"
		} else {
			m["branch"] = "evaluated"
		}
		return true
	}, false)}, 0)
	state, e2 := eng.ValidateFlow([]eng.FlowTrace{mutate(func(m map[string]any) bool {
		st := m["st"].(map[string]any)
		st["skip"] = st["skip"].(float64) + 1
		return true
	}, false)}, 0)
	dropped, e3 := eng.ValidateFlow([]eng.FlowTrace{mutate(nil, true)}, 0)
	for _, e := range []error{e0, e1, e2, e3} {
		if e != nil {
			run.Inconclusive("flow binding self-test: TLC error: %v", e)
			return false
		}
	}
	run.Extra["flow_binding_selftest"] = map[string]any{"faithful_trace_accepted": faithful.Accepted, "falsified_branch_rejected": !branch.Accepted,
		"falsified_state_rejected": !state.Accepted, "dropped_event_rejected": !dropped.Accepted}
	if !faithful.Accepted {
		// not a binding problem: let the main validation report it
		return true
	}
	if branch.Accepted || state.Accepted || dropped.Accepted {
		run.Inconclusive("flow binding self-test: a falsified trace was accepted (branch=%v state=%v drop=%v)", branch.Accepted, state.Accepted, dropped.Accepted)
		return false
	}
	return true
}
