package props

import (
	"encoding/json"
	"fmt"
	coraza "github.com/corazawaf/coraza/v3"
	"os"
	"path/filepath"
	"reflect"
	"regexp"
	"sort"
	"strconv"
	"strings"
	"sync"
	"time"

	"github.com/corazawaf/coraza/v3/internal/corazawaf"
	"github.com/corazawaf/coraza/v3/internal/seclang"
	"github.com/corazawaf/coraza/v3/verifharness/vf"
)

func init() { Registry["C16"] = C16 }

type slTarget struct {
	Col   string   `json:"col"`
	Neg   bool     `json:"neg"`
	Count bool     `json:"count"`
	KK    string   `json:"kk"`
	Key   []string `json:"key"`
}

type slOp struct {
	Neg  bool     `json:"neg"`
	Name []string `json:"name"`
	Arg  []string `json:"arg"`
}

type slAct struct {
	Name   string   `json:"name"`
	HasVal bool     `json:"hasVal"`
	Val    []string `json:"val"`
}

type slDesc struct {
	Targets []slTarget `json:"targets"`
	Op      slOp       `json:"op"`
	Acts    []slAct    `json:"acts"`
}

type slCase struct {
	Fam string `json:"fam"`
	DD  struct {
		Dir string   `json:"dir"`
		Arg []string `json:"arg"`
	} `json:"dd"`
	DS    []slDesc        `json:"ds"`
	D     slDesc          `json:"-"` // DS[0]
	Style json.RawMessage `json:"style"`
	Toks  []string        `json:"toks"`
	Mut   struct {
		Kind string `json:"kind"`
		Pos  int    `json:"pos"`
		Role string `json:"role"`
	} `json:"mut"`
	Exp struct {
		OK  bool     `json:"ok"`
		Why string   `json:"why"`
		V   []slDesc `json:"v"`
	} `json:"exp"`
}

// c16Compile compiles a configuration text with the real parser and returns the dump of its rules.
func c16Compile(text string, viaInclude string) (dumps []*corazawaf.VerifRuleDump, errText string, panicText string) {
	func() {
		defer func() {
			if r := recover(); r != nil {
				panicText = fmt.Sprint(r)
			}
		}()
		waf := corazawaf.NewWAF()
		p := seclang.NewParser(waf)
		var err error
		if viaInclude != "" {
			err = p.FromString("Include " + viaInclude + "\n")
		} else {
			err = p.FromString(text)
		}
		if err != nil {
			errText = err.Error()
			return
		}
		// what NewWAF does after the last directive
		if err := waf.Validate(); err != nil {
			errText = err.Error()
			return
		}
		rules := waf.Rules.GetRules()
		for i := range rules {
			dumps = append(dumps, rules[i].VerifDump())
		}
	}()
	return
}

var caseInsensitiveCols = map[string]bool{"REQUEST_HEADERS": true, "TX": true}

var reUpperEscape = regexp.MustCompile(`\\[A-Z]`)

// c16Diff compares what the real parser compiled with a description; "" if they agree.
func c16Diff(d *corazawaf.VerifRuleDump, want *slDesc) string {
	// targets: negated targets become exceptions of the preceding targets over the same collection
	type wt struct {
		t   slTarget
		exc []slTarget
	}
	var wts []wt
	for _, t := range want.Targets {
		if t.Neg {
			for i := range wts {
				if wts[i].t.Col == t.Col {
					wts[i].exc = append(wts[i].exc, t)
				}
			}
			continue
		}
		wts = append(wts, wt{t: t})
	}
	keyDiff := func(what string, col string, t slTarget, gotStr, gotRx string, hasRx bool) string {
		key := strings.Join(t.Key, "")
		switch t.KK {
		case "none":
			if gotStr != "" || hasRx {
				return fmt.Sprintf("%s: no key was written, compiled key %q / regex %q", what, gotStr, gotRx)
			}
		case "plain":
			w := key
			if caseInsensitiveCols[col] {
				w = strings.ToLower(w)
			}
			if hasRx {
				return fmt.Sprintf("%s: the plain key %q was compiled into the regular expression %q", what, key, gotRx)
			}
			if gotStr != w {
				return fmt.Sprintf("%s: key %q was compiled as %q", what, key, gotStr)
			}
		case "rx":
			if !hasRx {
				return fmt.Sprintf("%s: the regex key /%s/ was compiled as the plain key %q", what, key, gotStr)
			}
			ok := gotRx == key || gotRx == "(?i)"+key || gotRx == "(?i:"+key+")"
			if !ok && caseInsensitiveCols[col] && gotRx == strings.ToLower(key) && !reUpperEscape.MatchString(key) {
				ok = true
			}
			if !ok {
				return fmt.Sprintf("%s: the regex key /%s/ was compiled as /%s/", what, key, gotRx)
			}
		}
		return ""
	}
	if len(d.Targets) != len(wts) {
		return fmt.Sprintf("%d target(s) compiled, %d written", len(d.Targets), len(wts))
	}
	for i, w := range wts {
		g := d.Targets[i]
		if g.Variable != w.t.Col {
			return fmt.Sprintf("target %d: variable %s compiled, %s written", i, g.Variable, w.t.Col)
		}
		if g.Count != w.t.Count {
			return fmt.Sprintf("target %d: count=%v compiled, %v written", i, g.Count, w.t.Count)
		}
		if s := keyDiff(fmt.Sprintf("target %d", i), w.t.Col, w.t, g.KeyStr, g.KeyRx, g.HasRx); s != "" {
			return s
		}
		if len(g.Exceptions) != len(w.exc) {
			return fmt.Sprintf("target %d: %d exclusion(s) compiled, %d written", i, len(g.Exceptions), len(w.exc))
		}
		for j, e := range w.exc {
			if s := keyDiff(fmt.Sprintf("target %d exclusion %d", i, j), w.t.Col, e, g.Exceptions[j].KeyStr, g.Exceptions[j].KeyRx, g.Exceptions[j].HasRx); s != "" {
				return s
			}
		}
	}
	// operator
	name := strings.Join(want.Op.Name, "")
	if name == "" {
		name = "rx"
	}
	wantFn := "@" + name
	if want.Op.Neg {
		wantFn = "!" + wantFn
	}
	if !d.HasOperator {
		return "no operator compiled"
	}
	if d.OperatorName != wantFn || d.OperatorNegated != want.Op.Neg {
		return fmt.Sprintf("operator %q (negated=%v) compiled, %q (negated=%v) written", d.OperatorName, d.OperatorNegated, wantFn, want.Op.Neg)
	}
	if arg := strings.Join(want.Op.Arg, ""); d.OperatorData != arg {
		return fmt.Sprintf("operator argument %q compiled, %q written", d.OperatorData, arg)
	}
	// actions
	var tags []string
	id, phase, msg, logdata, rev, ver, status := 0, 2, "", "", "", "", ""
	flags, written := map[string]bool{}, map[string]bool{}
	for _, a := range want.Acts {
		v := strings.Join(a.Val, "")
		switch a.Name {
		case "id":
			id, _ = strconv.Atoi(v)
		case "phase":
			phase, _ = strconv.Atoi(v)
		case "msg":
			msg = v
		case "logdata":
			logdata = v
		case "tag":
			tags = append(tags, v)
		case "rev":
			rev = v
		case "ver":
			ver = v
		case "status":
			status = v
		case "severity", "t":
		default:
			flags[a.Name] = true
		}
		written[a.Name] = true
	}
	switch {
	case d.ID != id:
		return fmt.Sprintf("id %d compiled, %d written", d.ID, id)
	case d.Phase != phase:
		return fmt.Sprintf("phase %d compiled, %d written", d.Phase, phase)
	case d.Msg != msg:
		return fmt.Sprintf("msg %q compiled, %q written", d.Msg, msg)
	case d.LogData != logdata:
		return fmt.Sprintf("logdata %q compiled, %q written", d.LogData, logdata)
	case d.Rev != rev:
		return fmt.Sprintf("rev %q compiled, %q written", d.Rev, rev)
	case d.Version != ver:
		return fmt.Sprintf("ver %q compiled, %q written", d.Version, ver)
	case !reflect.DeepEqual(append([]string{}, d.Tags...), append([]string{}, tags...)):
		return fmt.Sprintf("tags %q compiled, %q written", d.Tags, tags)
	}
	got := map[string]bool{}
	for _, a := range d.Actions {
		got[strings.ToLower(a)] = true
	}
	// of several disruptive actions only the last one written takes effect, wherever the others stand in the list
	disruptive := map[string]bool{"deny": true, "drop": true, "pass": true, "block": true, "allow": true, "redirect": true, "proxy": true}
	lastDisruptive := ""
	for _, a := range want.Acts {
		if disruptive[a.Name] {
			lastDisruptive = a.Name
		}
	}
	for f := range flags {
		if f == "block" {
			continue // block stands for the inherited disruptive action and is replaced by it
		}
		if disruptive[f] && f != lastDisruptive {
			if got[f] && f != "pass" { // (pass may also come from the default actions)
				return fmt.Sprintf("disruptive action %s was written before %s and must be replaced by it, yet it is among the compiled actions %v", f, lastDisruptive, d.Actions)
			}
			continue
		}
		if !got[f] {
			return fmt.Sprintf("action %s was written but is not among the compiled actions %v", f, d.Actions)
		}
	}
	for a := range got {
		if !written[a] && a != "log" && a != "auditlog" && a != "pass" {
			return fmt.Sprintf("action %s was compiled but never written (written: %v)", a, want.Acts)
		}
	}
	if status != "" && strconv.Itoa(d.Status) != status {
		return fmt.Sprintf("status %d compiled, %s written", d.Status, status)
	}
	return ""
}

// c16DiffAll compares a compiled rule and its chain with a sequence of descriptions (starter, links).
func c16DiffAll(d *corazawaf.VerifRuleDump, want []slDesc) string {
	cur := d
	for i := range want {
		if cur == nil {
			return fmt.Sprintf("%d rule(s) written, the compiled chain has only %d", len(want), i)
		}
		w := want[i]
		if i > 0 {
			// a link has no id / phase of its own
			w.Acts = append([]slAct{{Name: "id", HasVal: true, Val: []string{"0"}}, {Name: "phase", HasVal: true, Val: []string{strconv.Itoa(cur.Phase)}}}, w.Acts...)
		}
		if diff := c16Diff(cur, &w); diff != "" {
			if i > 0 {
				return fmt.Sprintf("chain link %d: %s", i, diff)
			}
			return diff
		}
		cur = cur.Chain
	}
	if cur != nil {
		return fmt.Sprintf("%d rule(s) written, the compiled chain is longer", len(want))
	}
	return ""
}

func c16DumpKey(d *corazawaf.VerifRuleDump) string {
	c := *d
	c.Raw = ""
	b, _ := json.Marshal(c)
	return string(b)
}

// C16: directive text means the same however it is written; nothing is silently altered.
func C16(run *vf.Run) {
	run.Rule = "SecLang.tla: the SecRule text format as a token language (one-character delimiters and opaque words): a renderer from structured descriptions (targets with plain / regex / quoted-regex keys, counts, exclusions; operators with negation, implicit @rx and arguments holding quotes, backslashes, commas, colons, pipes, slashes; action lists whose quoted values hold commas, colons, escaped quotes, backslashes before the closing quote, text that looks like another action), the line assembler (comments, indentation, continuation) and a reference reader with ONE escape rule (a delimiter is escaped iff preceded by an odd run of backslashes). SecLang_MC enumerates every description x every rendering style (directive / action letter case, optional quoting, space after commas, continuation between sections or inside the action list, indentation, comment line; plus placement in an included file) and TLC checks RoundTrip: the reference reader reads every rendering back as the description; every rendering and every near-miss text (one structural delimiter deleted or duplicated, labelled with its role) is compiled by the real parser from /repo and the compiled rule (verif dump: targets, keys, exclusions, operator name / negation / argument, id, phase, msg, logdata, tags, rev, ver, action names) is compared with the description - for near-miss texts with what the reference reader makes of the text: if the reference reader rejects it the parser must return an error; all renderings of one description must compile to identical rules. Non-trivial = every text"
	run.Exhaustive = true
	run.Assume("words (names, plain text) are opaque: only delimiter handling is explored; the vocabulary is 3 collections, 4 operators, 14 actions")
	run.Assume("SecAction / SecMarker / chains / SecRuleUpdate* texts are not rendered")
	var cases, dirCases []slCase
	var mu sync.Mutex
	var tlcErr error
	fams := []string{"targets", "op", "acts", "chain", "dirarg"}
	slices := 2
	allStyles := vf.Pick(run, "FALSE", "TRUE")
	var wg sync.WaitGroup
	for _, fam := range fams {
		for sl := 0; sl < slices; sl++ {
			wg.Add(1)
			go func(fam string, sl int) {
				defer wg.Done()
				res, err := vf.RunTLC(vf.TLCOpts{Module: "SecLang_MC", CfgText: fmt.Sprintf("SPECIFICATION Spec\nCONSTANTS\n  Family = \"%s\"\n  Mutate = TRUE\n  AllStyles = %s\n  Slice = %d\n  Slices = %d\nINVARIANTS RoundTrip Emit\nCHECK_DEADLOCK FALSE\n", fam, allStyles, sl, slices),
					Workers: 3, Timeout: vf.Pick(run, 10*time.Minute, 90*time.Minute),
					OnOut: func(raw json.RawMessage) {
						var c slCase
						if err := json.Unmarshal(raw, &c); err == nil && c.Fam == "dirarg" {
							mu.Lock()
							dirCases = append(dirCases, c)
							mu.Unlock()
						} else if err == nil && len(c.DS) > 0 {
							c.D = c.DS[0]
							mu.Lock()
							cases = append(cases, c)
							mu.Unlock()
						}
					}})
				mu.Lock()
				defer mu.Unlock()
				if err != nil {
					tlcErr = err
					return
				}
				run.AddTLC(res)
				if res.Violated != "" || !res.OK() {
					tlcErr = fmt.Errorf("family %s slice %d: %s %s", fam, sl, res.Describe(), res.ErrorText)
				}
			}(fam, sl)
		}
	}
	wg.Wait()
	if tlcErr != nil || len(cases) == 0 {
		run.Inconclusive("SecLang_MC: %v (%d cases)", tlcErr, len(cases))
		return
	}
	sort.Slice(cases, func(i, j int) bool {
		a, b := strings.Join(cases[i].Toks, ""), strings.Join(cases[j].Toks, "")
		if a != b {
			return a < b
		}
		return cases[i].Mut.Kind+cases[i].Mut.Role < cases[j].Mut.Kind+cases[j].Mut.Role
	})
	run.Logf("SecLang_MC: %d texts", len(cases))
	c16Layout(run)
	c16IncludeContext(run)
	// single-argument directives: quoted or not, whatever the case of the directive name, they configure the same thing
	{
		prelude := "SecRule ARGS \"@rx a\" \"id:1,phase:2,pass,tag:'t',tag:'tt',tag:'t.t'\"\nSecRule ARGS \"@rx a\" \"id:10,phase:2,pass\"\n"
		seen := map[string]map[string]string{}
		for i := range dirCases {
			c := &dirCases[i]
			if c.Mut.Kind != "none" {
				continue
			}
			text := prelude + strings.Join(c.Toks, "") + "\n"
			sum := ""
			func() {
				defer func() {
					if r := recover(); r != nil {
						sum = fmt.Sprint("panic: ", r)
					}
				}()
				waf := corazawaf.NewWAF()
				err := seclang.NewParser(waf).FromString(text)
				var rs []string
				rules := waf.Rules.GetRules()
				for k := range rules {
					rs = append(rs, c16DumpKey(rules[k].VerifDump()))
				}
				sum = fmt.Sprintf("error=%v engine=%v reqlimit=%v rules=%v", err != nil, waf.RuleEngine, waf.RequestBodyLimit, rs)
			}()
			run.Eval(text)
			k := c.DD.Dir + " " + strings.Join(c.DD.Arg, "")
			if seen[k] == nil {
				seen[k] = map[string]string{}
			}
			seen[k][sum] = strings.Join(c.Toks, "")
		}
		for k, g := range seen {
			if len(g) > 1 {
				var ws []string
				for sum, t := range g {
					ws = append(ws, strconv.Quote(t)+" => "+sum[:min(len(sum), 90)])
				}
				sort.Strings(ws)
				run.Violate(vf.Violation{Signature: "seclang:renderings-differ|directive-argument", What: "the directive " + k + " configures different things depending on how it is written (quoted argument / case of the name): " + strings.Join(ws, " || "),
					Replay: map[string]any{"family": "seclang-directive", "directive": k, "renderings": ws}})
				break
			}
		}
	}
	scratch := vf.Scratch("c16")
	defer os.RemoveAll(scratch)
	reported := map[string]bool{}
	report := func(sig, what string, c *slCase, text string) {
		if reported[sig] {
			return
		}
		reported[sig] = true
		run.Violate(vf.Violation{Signature: sig, What: fmt.Sprintf("%s || text: %s", what, strconv.Quote(text)),
			Replay: map[string]any{"family": "seclang", "text": text, "description": c.DS, "mutation": c.Mut, "reference_reading": c.Exp}})
	}
	// feature of a description for signatures
	feat := func(c *slCase) string {
		switch c.Fam {
		case "targets":
			var fs []string
			for _, t := range c.D.Targets {
				f := t.KK
				for _, k := range t.Key {
					if len(k) == 1 && strings.ContainsAny(k, `|/\:'.`) {
						f += "[" + k + "]"
					}
				}
				if t.Neg {
					f = "!" + f
				}
				if t.Count {
					f = "&" + f
				}
				fs = append(fs, f)
			}
			return "targets:" + strings.Join(fs, "|")
		case "op":
			f := "op:"
			if c.D.Op.Neg {
				f += "!"
			}
			if len(c.D.Op.Name) == 0 {
				f += "implicit"
			} else {
				f += "@"
			}
			for _, k := range c.D.Op.Arg {
				if len(k) == 1 && strings.ContainsAny(k, `"|/\:', `) {
					f += "[" + k + "]"
				}
			}
			if len(c.D.Op.Arg) == 0 {
				f += "[noarg]"
			}
			return f
		default:
			f := "acts:"
			for _, a := range c.D.Acts {
				sp := ""
				for _, k := range a.Val {
					if len(k) == 1 && strings.ContainsAny(k, `"|/\:', `) {
						sp += k
					}
				}
				if sp != "" {
					f += a.Name + "[" + sp + "]"
				}
			}
			return f
		}
	}
	groups := map[string]map[string]string{}    // description -> dump -> one text
	groupsPre := map[string]map[string]string{} // the same under a SecDefaultAction
	for i := range cases {
		c := &cases[i]
		text := strings.Join(c.Toks, "")
		dumps, errText, p := c16Compile(text, "")
		run.Eval(text)
		if i%1511 == 0 {
			run.Sample(map[string]any{"text": text, "mutation": c.Mut, "reference_reads": c.Exp.OK, "parser_error": errText, "rules": len(dumps)})
		}
		mutated := c.Mut.Kind != "none"
		mutSig := ""
		if mutated {
			mutSig = c.Fam + "+" + c.Mut.Kind + "+" + c.Mut.Role
		}
		if p != "" {
			report("seclang:panic|"+feat(c)+"+"+mutSig, "the parser panicked: "+strings.SplitN(p, "\n", 2)[0], c, text)
			continue
		}
		accepted := errText == ""
		// diffRules compares everything compiled with a sequence of descriptions grouped into chains
		diffRules := func(want []slDesc) string {
			var chains [][]slDesc
			open := false
			for _, w := range want {
				if open {
					chains[len(chains)-1] = append(chains[len(chains)-1], w)
				} else {
					chains = append(chains, []slDesc{w})
				}
				open = false
				for _, a := range w.Acts {
					if a.Name == "chain" {
						open = true
					}
				}
			}
			if len(chains) != len(dumps) {
				return fmt.Sprintf("the text holds %d rule(s) / chain(s), %d were compiled", len(chains), len(dumps))
			}
			for k := range chains {
				if diff := c16DiffAll(dumps[k], chains[k]); diff != "" {
					return diff
				}
			}
			return ""
		}
		if !mutated {
			if !accepted {
				report("seclang:valid-text-rejected|"+feat(c), "a rendering the reference reader reads back as its description is rejected: "+errText, c, text)
				continue
			}
			if diff := diffRules(c.DS); diff != "" {
				report("seclang:compiled-differs|"+feat(c), "the compiled rule is not the description the text was rendered from: "+diff, c, text)
				continue
			}
			dk, _ := json.Marshal(c.DS)
			if groups[string(dk)] == nil {
				groups[string(dk)] = map[string]string{}
			}
			groups[string(dk)][c16DumpKey(dumps[0])] = text
			// the same text under a SecDefaultAction: what a rule inherits must not depend on how it is written
			if dp, ep, pp := c16Compile("SecDefaultAction \"phase:2,log,auditlog,deny,status:403\"\n"+text, ""); pp != "" || ep != "" || len(dp) != 1 {
				report("seclang:valid-text-rejected|default-action+"+feat(c), fmt.Sprintf("a valid rendering is rejected once a SecDefaultAction precedes it (error %q panic %q)", ep, pp), c, text)
			} else {
				if groupsPre[string(dk)] == nil {
					groupsPre[string(dk)] = map[string]string{}
				}
				groupsPre[string(dk)][c16DumpKey(dp[0])] = text
			}
			// a chain split across files: the starter in the main text, the links in an included file
			if c.Fam == "chain" {
				cut := -1
				lineStart, seen := true, 0
				for k, t := range c.Toks {
					if t == "\n" {
						lineStart = true
						continue
					}
					if lineStart && t != " " {
						if strings.EqualFold(t, "secrule") {
							seen++
							if seen == 2 {
								cut = k
								break
							}
						}
						lineStart = false
					}
				}
				if cut > 0 {
					// a chain left open: the starter says "chain" and no link follows it - another directive stands in
					// between, or the text ends. The reference reader has no reading for that (a starter without its
					// links would run its disruptive action on the first condition alone): the parser must reject it.
					for _, broken := range []struct{ kind, text string }{
						{"marker-between-starter-and-link", strings.Join(c.Toks[:cut], "") + "\nSecMarker M\n" + strings.Join(c.Toks[cut:], "") + "\n"},
						{"text-ends-after-starter", strings.TrimRight(strings.Join(c.Toks[:cut], ""), " \t\n\\") + "\n"},
					} {
						_, e3, p3 := c16Compile(broken.text, "")
						run.Eval(broken.text)
						if p3 != "" {
							report("seclang:panic|chain-left-open+"+broken.kind, "the parser panicked: "+p3, c, broken.text)
						} else if e3 == "" {
							report("seclang:near-miss-accepted|chain-left-open+"+broken.kind, "a chain starter that is not followed by its link ("+broken.kind+") is compiled without an error: the starter's disruptive and flow actions now depend on its own condition alone", c, broken.text)
						}
					}
					inc := filepath.Join(scratch, fmt.Sprintf("links%d.conf", i))
					if os.WriteFile(inc, []byte(strings.Join(c.Toks[cut:], "")+"\n"), 0o644) == nil {
						d2, e2, p2 := c16Compile(strings.Join(c.Toks[:cut], "")+"\nInclude "+inc+"\n", "")
						if p2 != "" || e2 != "" || len(d2) != 1 || c16DumpKey(d2[0]) != c16DumpKey(dumps[0]) {
							report("seclang:include-differs|chain-split", fmt.Sprintf("a chain whose links sit in an included file compiles differently (error %q panic %q)", e2, p2), c, text)
						}
						os.Remove(inc)
					}
				}
			}
			// the same text in an included file
			if i%3 == 0 {
				inc := filepath.Join(scratch, fmt.Sprintf("inc%d.conf", i))
				if os.WriteFile(inc, []byte(text+"\n"), 0o644) == nil {
					d2, e2, p2 := c16Compile("", inc)
					if p2 != "" || e2 != "" || len(d2) != 1 || c16DumpKey(d2[0]) != c16DumpKey(dumps[0]) {
						report("seclang:include-differs|"+feat(c), fmt.Sprintf("the same text compiles differently from an included file (error %q panic %q)", e2, p2), c, text)
					}
					os.Remove(inc)
				}
			}
			continue
		}
		// near-miss text
		if !accepted {
			continue // rejecting is always allowed
		}
		first := &corazawaf.VerifRuleDump{}
		if len(dumps) > 0 {
			first = dumps[0]
		}
		if !c.Exp.OK {
			report("seclang:near-miss-accepted|"+c.Exp.Why+"+"+mutSig, fmt.Sprintf("near-miss text (%s of the delimiter in role %s) cannot be read as a rule ("+c.Exp.Why+"), yet the parser compiled it without an error into: targets %+v operator %q %q msg %q tags %q actions %v",
				c.Mut.Kind, c.Mut.Role, first.Targets, first.OperatorName, first.OperatorData, first.Msg, first.Tags, first.Actions), c, text)
			continue
		}
		if diff := diffRules(c.Exp.V); diff != "" {
			report("seclang:near-miss-compiled-differs|"+mutSig, fmt.Sprintf("near-miss text (%s of the delimiter in role %s) compiles into something other than what it says: %s", c.Mut.Kind, c.Mut.Role, diff), c, text)
		}
	}
	for pass, gm := range []map[string]map[string]string{groups, groupsPre} {
		for dk, g := range gm {
			if len(g) > 1 {
				var texts []string
				for _, t := range g {
					texts = append(texts, strconv.Quote(t))
				}
				sort.Strings(texts)
				var ds []slDesc
				_ = json.Unmarshal([]byte(dk), &ds)
				c := &slCase{DS: ds, D: ds[0]}
				c.Mut.Kind = "none"
				what := "equivalent renderings of one description compile to different rules: "
				if pass == 1 {
					what = "under SecDefaultAction \"phase:2,log,auditlog,deny,status:403\" equivalent renderings of one description compile to different rules: "
				}
				report("seclang:renderings-differ|"+fmt.Sprint(pass), what+strings.Join(texts, " vs "), c, texts[0])
			}
		}
	}
}

// c16Layout replays the line-level family (Layout_MC.tla): every sequence of <= MaxLines physical lines over
// {rule, rule with a long word, rule over two lines, comment, long comment, blank} x every ending of the text.
// The compiled rules must be exactly the rule lines, in order; where the specification leaves rejecting open
// (a very long line, a dangling continuation) an error is accepted; fewer rules than written never are.
func c16Layout(run *vf.Run) {
	type layCase struct {
		Lines     []string `json:"lines"`
		Ending    string   `json:"ending"`
		IDs       []int    `json:"ids"`
		MayReject bool     `json:"mayReject"`
	}
	var cases []layCase
	var mu sync.Mutex
	res, err := vf.RunTLC(vf.TLCOpts{Module: "Layout_MC", CfgText: fmt.Sprintf("SPECIFICATION Spec\nCONSTANTS\n  MaxLines = %d\nINVARIANTS IdsAscending Emit\nCHECK_DEADLOCK FALSE\n", vf.Pick(run, 3, 4)),
		Workers: 4, Timeout: 10 * time.Minute,
		OnOut: func(raw json.RawMessage) {
			var c layCase
			if json.Unmarshal(raw, &c) == nil && len(c.Lines) > 0 {
				mu.Lock()
				cases = append(cases, c)
				mu.Unlock()
			}
		}})
	if err != nil || !res.OK() || len(cases) == 0 {
		run.Inconclusive("Layout_MC: %v %v (%d cases)", err, res, len(cases))
		return
	}
	run.AddTLC(res)
	run.Logf("Layout_MC: %s; %d texts", res.Describe(), len(cases))
	reported := map[string]bool{}
	for _, long := range []int{300, 65000, 65536, 70000, 200000} {
		for ci := range cases {
			c := &cases[ci]
			hasLong := false
			for _, k := range c.Lines {
				if k == "ruleLong" || k == "commentLong" {
					hasLong = true
				}
			}
			if !hasLong && long != 300 {
				continue // the size only matters for texts that hold a long line
			}
			var sb strings.Builder
			for i, k := range c.Lines {
				id := i + 1
				switch k {
				case "rule":
					fmt.Fprintf(&sb, "SecAction \"id:%d,phase:1,pass\"", id)
				case "ruleLong":
					fmt.Fprintf(&sb, "SecAction \"id:%d,phase:1,pass,msg:'%s'\"", id, strings.Repeat("m", long))
				case "contRule":
					fmt.Fprintf(&sb, "SecAction \\\n  \"id:%d,phase:1,pass\"", id)
				case "comment":
					sb.WriteString("# a comment")
				case "commentLong":
					sb.WriteString("# " + strings.Repeat("c", long))
				case "blank":
				}
				if i < len(c.Lines)-1 {
					sb.WriteString("\n")
				}
			}
			switch c.Ending {
			case "nl":
				sb.WriteString("\n")
			case "cont":
				sb.WriteString(" \\")
				if ci%2 == 0 {
					sb.WriteString("\n")
				}
			}
			text := sb.String()
			dumps, errText, p := c16Compile(text, "")
			run.Eval("layout" + text[:min(len(text), 200)] + fmt.Sprint(long, c.Ending))
			feat := strings.Join(c.Lines, ",") + "+end:" + c.Ending
			kind := ""
			switch {
			case p != "":
				kind = "panic"
			case errText != "" && !c.MayReject:
				kind = "valid-text-rejected"
			case errText == "":
				var got []int
				for _, d := range dumps {
					got = append(got, d.ID)
				}
				if fmt.Sprint(got) != fmt.Sprint(c.IDs) {
					kind = "rules-dropped"
					errText = fmt.Sprintf("the text holds the rules %v, compiled without an error: %v", c.IDs, got)
				} else {
					for i, k := range c.Lines {
						if k == "ruleLong" {
							for _, d := range dumps {
								if d.ID == i+1 && len(d.Msg) != long {
									kind, errText = "long-word-altered", fmt.Sprintf("msg of rule %d was written with %d bytes, compiled with %d", d.ID, long, len(d.Msg))
								}
							}
						}
					}
				}
			}
			if kind == "" {
				continue
			}
			lk := "short"
			if hasLong {
				lk = "long-line"
			}
			sig := "seclang:layout-" + kind + "|" + lk + "+end:" + c.Ending
			if reported[sig] {
				continue
			}
			reported[sig] = true
			shown := text
			if len(shown) > 400 {
				shown = shown[:200] + " ... " + shown[len(shown)-150:]
			}
			run.Violate(vf.Violation{Signature: sig, What: fmt.Sprintf("line layout %s (long = %d bytes): %s %s || text: %s", feat, long, kind, errText, strconv.Quote(shown)),
				Replay: map[string]any{"family": "seclang-layout", "lines": c.Lines, "ending": c.Ending, "long": long, "expected_ids": c.IDs}})
		}
	}
}

// c16IncludeContext: splitting a configuration across included files does not change the rules that FOLLOW the
// Include either. A rule whose operator names a relative data file is written (a) after an Include of a file that
// lives in another directory, (b) after the same directive written inline; in both the data file next to the
// including file is the one that counts (a data file of the same name sits next to the included file too).
func c16IncludeContext(run *vf.Run) {
	base, err := os.MkdirTemp("", "verif-c16inc-")
	if err != nil {
		return
	}
	defer os.RemoveAll(base)
	a, b := filepath.Join(base, "a"), filepath.Join(base, "b")
	_ = os.MkdirAll(a, 0o755)
	_ = os.MkdirAll(b, 0o755)
	_ = os.WriteFile(filepath.Join(a, "words.data"), []byte("alpha\n"), 0o644)
	_ = os.WriteFile(filepath.Join(b, "words.data"), []byte("beta\n"), 0o644)
	_ = os.WriteFile(filepath.Join(b, "inc.conf"), []byte("SecAction \"id:1,phase:1,pass,nolog\"\n"), 0o644)
	rule := "SecRule ARGS \"@pmFromFile words.data\" \"id:2,phase:1,pass,nolog\"\n"
	_ = os.WriteFile(filepath.Join(a, "split.conf"), []byte("SecRuleEngine On\nInclude "+filepath.Join(b, "inc.conf")+"\n"+rule), 0o644)
	_ = os.WriteFile(filepath.Join(a, "inline.conf"), []byte("SecRuleEngine On\nSecAction \"id:1,phase:1,pass,nolog\"\n"+rule), 0o644)
	probe := func(file string) (string, error) {
		w, err := coraza.NewWAF(coraza.NewWAFConfig().WithDirectivesFromFile(filepath.Join(a, file)))
		if err != nil {
			return "", err
		}
		defer closeAny(w)
		out := ""
		for _, v := range []string{"alpha", "beta"} {
			tx := w.NewTransaction()
			tx.AddGetRequestArgument("x", v)
			tx.ProcessRequestHeaders()
			fired := false
			for _, mr := range tx.MatchedRules() {
				if mr.Rule().ID() == 2 {
					fired = true
				}
			}
			_ = tx.Close()
			out += fmt.Sprintf("%s:%v ", v, fired)
		}
		return out, nil
	}
	inline, e1 := probe("inline.conf")
	split, e2 := probe("split.conf")
	run.Eval("include-context")
	if e1 != nil {
		run.Inconclusive("include context: the inline form is rejected: %v", e1)
		return
	}
	if e2 != nil || split != inline {
		run.Violate(vf.Violation{Signature: "seclang:include-differs|rule-after-include", What: fmt.Sprintf("a rule with a relative data file written after an Include of a file in another directory: rule 2 behaves %q (error %v); with the included directive written inline it behaves %q", split, e2, inline),
			Replay: map[string]any{"family": "seclang-include-context", "inline": inline, "split": split}})
	}
}
