package props

import (
	"time"

	"github.com/corazawaf/coraza/v3/verifharness/eng"
	"github.com/corazawaf/coraza/v3/verifharness/vf"
)

func init() { Registry["C17"] = C17 }

// C17: rule exclusions and updates equal the rewritten rule set.
func C17(run *vf.Run) {
	run.Rule = "Engine.tla defines every exclusion/update directive as a rewriting of the rule list (ApplyDir) and the ctl counterparts as run-time state; TLC enumerates the dirs family: a 4-rule base set (ids, tags, messages, a chain, a message-less SecAction) x every directive shape (SecRuleRemoveById single/list/range, ByTag, ByMsg, SecRuleUpdateTargetById/ByTag with additions and exclusions over single ids, lists and ranges, SecRuleUpdateActionById with disruptive/non-disruptive actions) [x a second directive], and every ctl:ruleRemoveById/ByTag/ByMsg/ruleRemoveTargetById/ByTag/ByMsg placed before and in the middle of the rules, over every subset of the request data; the real library compiles the directive form and must behave like the specification's rewritten rule set; each transaction is run twice on the same WAF so a ctl effect leaking into the next transaction shows. Non-trivial = a rule fires"
	run.Exhaustive = true
	run.Assume("TLC 1.8.0 explores the bounded Engine_MC instance completely")
	two := vf.Pick(run, 0, 1)
	eng.ReplayFamily(run, eng.FamilyOpts{Name: "dirs", CfgText: engineCfg("dirs", 0, two, "{1, 2}", `{"On"}`),
		Proj: eng.ProjOpts{}, Timeout: vf.Pick(run, 10*time.Minute, 90*time.Minute), Workers: 3, Slices: 6, Runs: 2, SameWAF: true})
	if run.NumViolations() > 0 || len(run.InconclusiveList()) > 0 {
		return
	}
	// code -> spec over arbitrary rule sets: recorded executions of the repository's test profiles, the Core Rule Set and
	// generated rule sets must be behaviours of Flow.tla (Flow_Trace.tla)
	FlowTraceStage(run, "crsx", "profiles", "generated")
}
