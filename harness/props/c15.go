package props

import (
	"encoding/json"
	"fmt"
	"net"
	"sort"
	"strings"
	"sync"
	"testing/fstest"
	"time"

	coraza "github.com/corazawaf/coraza/v3"
	"github.com/corazawaf/coraza/v3/experimental/plugins/plugintypes"
	"github.com/corazawaf/coraza/v3/internal/operators"
	"github.com/corazawaf/coraza/v3/verifharness/eng"
	"github.com/corazawaf/coraza/v3/verifharness/vf"
)

func init() { Registry["C15"] = C15 }

// the (operator, argument) pairs of Operators_MC!Pairs, in the same order
var opPairs = [][2]string{{"streq", "a"}, {"streq", "aA"}, {"contains", "a"}, {"contains", "aA"}, {"strmatch", "Aa"},
	{"beginsWith", "a"}, {"beginsWith", "aA"}, {"endsWith", "a"}, {"endsWith", "Aa"}, {"within", "a b aA"},
	{"eq", "1"}, {"eq", "-1"}, {"eq", "0"}, {"eq", "x"}, {"ge", "1"}, {"ge", "-1"}, {"gt", "0"}, {"gt", "-1"}, {"le", "1"}, {"le", "-1"}, {"lt", "1"}, {"lt", "0"},
	{"pm", "ab Aa"}, {"pm", "a"}, {"pm", "bab"}, {"pm", "aA  bb"}, {"pm", "a\xffb"}, {"pm", "\xc3\xa9"}, {"validateUrlEncoding", ""}, {"validateUtf8Encoding", ""}}
var byteRanges = []string{"97-98,0", "65", "0-255", "1-254"}
var cidrArgs = []string{"10.0.0.0/30", "10.0.0.5", "10.0.0.4/31", "10.0.0.5/30", "10.0.0.128/25", "10.0.0.0/24"}

func getOp(name, arg string) (plugintypes.Operator, error) {
	return operators.Get(name, plugintypes.OperatorOptions{Arguments: arg})
}

// C15: built-in operators decide exactly their documented predicates.
func C15(run *vf.Run) {
	run.Rule = "Operators.tla: direct executable definitions of @streq @contains @strmatch @beginsWith @endsWith @within, the numeric comparisons (decimal integers, anything else counts as 0), @pm (ASCII-case-insensitive substring of any phrase), @validateByteRange, @validateUrlEncoding, @validateUtf8Encoding and @ipMatch (CIDR membership over 10.0.0.0/24). Operators_MC evaluates every (operator, argument) pair of its table on every byte string over an alphabet (letters of both cases, space, %, digits, minus, a valid 2-byte UTF-8 sequence, the three bytes of U+FFFD, 0xFF) up to MaxLen (phrase at the very end, value shorter than the shortest phrase, truncated %X, ranges touching 0 and 255 are in it by construction), checks model-level theorems and prints the truth table; the five numeric comparisons are also tabulated over decimal texts of any length (sign and magnitude comparison in the model: values at, next to and far beyond the 64-bit bounds, signs, leading zeros, trailing garbage; the corner where both texts lie beyond 64 bits is left open); the real operators (internal registry) are evaluated on every row; negation (leading '!') and TX.0-9 capture are checked through single-rule WAFs on a sample; @ipMatch is compared on all 256 addresses x 6 CIDR arguments plus IPv4-mapped IPv6 and malformed inputs against net.IPNet. Non-trivial = row on which at least one operator holds"
	run.Exhaustive = true
	run.Assume("@rx: RE2 semantics are Go's regexp (trusted base); its prefilter is C11")
	maxLen := vf.Pick(run, 3, 4)
	type row struct {
		In   eng.Bytes         `json:"in"`
		Row  []bool            `json:"row"`
		Br   []bool            `json:"br"`
		Cidr map[string][]bool `json:"-"`
	}
	var rows []row
	var cidr [][]bool
	type wideRow struct {
		Op    string    `json:"op"`
		Arg   eng.Bytes `json:"arg"`
		In    eng.Bytes `json:"in"`
		Holds bool      `json:"holds"`
		Open  bool      `json:"open"`
	}
	var wide []wideRow
	type capRow struct {
		Op   string      `json:"op"`
		Arg  eng.Bytes   `json:"arg"`
		In   eng.Bytes   `json:"in"`
		TX   []eng.Bytes `json:"tx"`
		Used int         `json:"used"`
	}
	var caps []capRow
	type rxDotRow struct {
		Arg   eng.Bytes `json:"arg"`
		In    eng.Bytes `json:"in"`
		Holds bool      `json:"holds"`
	}
	var rxdots []rxDotRow
	var mu sync.Mutex
	res, err := vf.RunTLC(vf.TLCOpts{Module: "Operators_MC", CfgText: fmt.Sprintf("SPECIFICATION Spec\nCONSTANTS\n  Alphabet = {97, 65, 98, 32, 37, 49, 45, 195, 169, 255, 50, 239, 191, 189}\n  MaxLen = %d\nINVARIANTS ContainsReflexive EqIsGeAndLe FullRangeNeverViolated WideAgreesWithNarrow WideTrichotomy Emit\n", maxLen),
		Workers: 8, Timeout: vf.Pick(run, 10*time.Minute, 60*time.Minute),
		OnOut: func(raw json.RawMessage) {
			var probe map[string]json.RawMessage
			if json.Unmarshal(raw, &probe) != nil {
				return
			}
			mu.Lock()
			defer mu.Unlock()
			if c, ok := probe["cidr"]; ok {
				_ = json.Unmarshal(c, &cidr)
				return
			}
			if c, ok := probe["wide"]; ok {
				_ = json.Unmarshal(c, &wide)
				return
			}
			if c, ok := probe["cap"]; ok {
				_ = json.Unmarshal(c, &caps)
				return
			}
			if c, ok := probe["rxdot"]; ok {
				_ = json.Unmarshal(c, &rxdots)
				return
			}
			var r row
			if json.Unmarshal(raw, &r) == nil {
				rows = append(rows, r)
			}
		}})
	if err != nil {
		run.Inconclusive("Operators_MC: %v", err)
		return
	}
	run.AddTLC(res)
	run.Logf("Operators_MC: %s; %d rows", res.Describe(), len(rows))
	if res.Violated != "" || !res.OK() || len(rows) == 0 || len(cidr) != 256 || len(wide) == 0 || len(caps) == 0 {
		run.Inconclusive("Operators_MC: TLC did not complete cleanly: %s (cidr rows %d)\n%s", res.Describe(), len(cidr), res.ErrorText)
		return
	}
	sort.Slice(rows, func(i, j int) bool { return string(rows[i].In) < string(rows[j].In) })
	w, err := coraza.NewWAF(coraza.NewWAFConfig())
	if err != nil {
		run.Inconclusive("NewWAF: %v", err)
		return
	}
	tx := w.NewTransaction()
	defer tx.Close()
	ts := tx.(plugintypes.TransactionState)
	reported := map[string]bool{}
	report := func(kind, op, arg string, in []byte, detail string) {
		sig := "op:" + kind + "|" + op
		if reported[sig] {
			return
		}
		reported[sig] = true
		run.Violate(vf.Violation{Signature: sig, What: fmt.Sprintf("%s: @%s %q on input %q: %s", kind, op, arg, string(in), detail),
			Replay: map[string]any{"family": "operators", "op": op, "arg": arg, "input": eng.Bytes(in)}})
	}
	var ops []plugintypes.Operator
	for _, p := range opPairs {
		o, err := getOp(p[0], p[1])
		if err != nil {
			run.Inconclusive("operator @%s %q rejected: %v", p[0], p[1], err)
			return
		}
		ops = append(ops, o)
	}
	var brs []plugintypes.Operator
	for _, a := range byteRanges {
		o, err := getOp("validateByteRange", a)
		if err != nil {
			run.Inconclusive("validateByteRange %q rejected: %v", a, err)
			return
		}
		brs = append(brs, o)
	}
	eval := func(o plugintypes.Operator, v string) (res bool, p string) {
		defer func() {
			if r := recover(); r != nil {
				p = fmt.Sprint(r)
			}
		}()
		return o.Evaluate(ts, v), ""
	}
	for i, r := range rows {
		anyHolds := false
		for k, o := range ops {
			got, p := eval(o, string(r.In))
			if p != "" {
				report("panic", opPairs[k][0], opPairs[k][1], r.In, p)
				continue
			}
			if got != r.Row[k] {
				report("predicate-differs", opPairs[k][0], opPairs[k][1], r.In, fmt.Sprintf("the operator returned %v, its documented predicate is %v", got, r.Row[k]))
			}
			anyHolds = anyHolds || r.Row[k]
		}
		for k, o := range brs {
			got, p := eval(o, string(r.In))
			if p != "" {
				report("panic", "validateByteRange", byteRanges[k], r.In, p)
				continue
			}
			if got != r.Br[k] {
				report("predicate-differs", "validateByteRange", byteRanges[k], r.In, fmt.Sprintf("the operator returned %v, its documented predicate is %v", got, r.Br[k]))
			}
		}
		nt := ""
		if anyHolds {
			nt = string(r.In)
		}
		run.Eval(nt)
		if i%499 == 0 {
			run.Sample(map[string]any{"input": string(r.In), "pairs": opPairs[:6], "specified_row_prefix": r.Row[:6]})
		}
	}
	// numbers of any length: the five comparisons on long decimal texts (the model compares sign and magnitude)
	for _, wr := range wide {
		if wr.Open {
			continue
		}
		o, err := getOp(wr.Op, string(wr.Arg))
		if err != nil {
			run.Inconclusive("operator @%s %q rejected: %v", wr.Op, string(wr.Arg), err)
			return
		}
		got, p := eval(o, string(wr.In))
		if p != "" {
			report("panic", wr.Op, string(wr.Arg), wr.In, p)
		} else if got != wr.Holds {
			report("predicate-differs", wr.Op, string(wr.Arg), wr.In, fmt.Sprintf("the operator returned %v; comparing the two integers gives %v", got, wr.Holds))
		}
		nt := ""
		if wr.Holds {
			nt = "wide-" + wr.Op + string(wr.Arg) + string(wr.In)
		}
		run.Eval(nt)
	}
	// @ipMatch: all addresses of 10.0.0.0/24 against the CIDR arguments; TLA+ table vs real operator vs net.IPNet
	for k, a := range cidrArgs {
		o, err := getOp("ipMatch", a)
		if err != nil {
			run.Inconclusive("ipMatch %q rejected: %v", a, err)
			return
		}
		for x := 0; x < 256; x++ {
			ip := fmt.Sprintf("10.0.0.%d", x)
			got, p := eval(o, ip)
			if p != "" {
				report("panic", "ipMatch", a, []byte(ip), p)
				continue
			}
			if got != cidr[x][k] {
				report("predicate-differs", "ipMatch", a, []byte(ip), fmt.Sprintf("the operator returned %v, CIDR membership is %v", got, cidr[x][k]))
			}
			run.Eval("")
		}
		// beyond the model: IPv4-mapped IPv6, malformed input (reference: net.IPNet)
		for _, ip := range []string{"::ffff:10.0.0.1", "::ffff:10.0.0.5", "10.0.0.300", "x", "", "10.0.0.1 ", "0010.0.0.1", "fe80::1"} {
			want := false
			if parsed := net.ParseIP(ip); parsed != nil {
				cs := a
				if !strings.Contains(cs, "/") {
					cs += "/32"
				}
				if _, n, err := net.ParseCIDR(cs); err == nil {
					want = n.Contains(parsed)
				}
			}
			got, p := eval(o, ip)
			if p != "" {
				report("panic", "ipMatch", a, []byte(ip), p)
			} else if got != want {
				report("predicate-differs", "ipMatch", a, []byte(ip), fmt.Sprintf("the operator returned %v, net.IPNet.Contains says %v", got, want))
			}
			run.Eval("ipmatch-" + a + ip)
		}
	}
	// list entries of every written form (reference: a bare address is a host route of its own family, net.IPNet otherwise)
	for _, entry := range []string{"10.0.0.1", "::ffff:10.0.0.1", "::ffff:0a00:0001", "::1", "fe80::1", "fe80::/10", "::ffff:10.0.0.0/120", "10.0.0.1,::1", "2001:db8::1"} {
		o, err := getOp("ipMatch", entry)
		if err != nil {
			run.Inconclusive("ipMatch %q rejected: %v", entry, err)
			return
		}
		var nets []*net.IPNet
		for _, e := range strings.Split(entry, ",") {
			cs := e
			if !strings.Contains(cs, "/") {
				if ip := net.ParseIP(cs); ip != nil && !strings.Contains(cs, ":") {
					cs += "/32"
				} else {
					cs += "/128"
				}
			}
			if _, n, err := net.ParseCIDR(cs); err == nil {
				nets = append(nets, n)
			}
		}
		for _, ip := range []string{"10.0.0.1", "10.0.0.2", "::ffff:10.0.0.1", "::ffff:10.0.0.9", "::1", "::2", "fe80::1", "fe80::2", "febf::1", "2001:db8::1", "2001:db8::2", "0.0.0.1", "::ffff:0.0.0.1"} {
			parsed := net.ParseIP(ip)
			want := false
			for _, n := range nets {
				if parsed != nil && n.Contains(parsed) {
					want = true
				}
			}
			got, p := eval(o, ip)
			if p != "" {
				report("panic", "ipMatch", entry, []byte(ip), p)
			} else if got != want {
				report("predicate-differs", "ipMatch", entry, []byte(ip), fmt.Sprintf("the operator returned %v, membership in the listed networks (net.IPNet) is %v", got, want))
			}
			run.Eval("ipmatch-entry-" + entry + ip)
		}
	}
	// @pmFromFile and @pmFromDataset: the phrases of a file / data set (blank and whitespace-only lines,
	// comments, padded phrases) behave like @pm on the same phrases: pair index of @pm "ab Aa"
	pmIdx := -1
	for k, p := range opPairs {
		if p[0] == "pm" && p[1] == "ab Aa" {
			pmIdx = k
		}
	}
	fileOp, err1 := operators.Get("pmFromFile", plugintypes.OperatorOptions{Arguments: "words.txt", Path: []string{"."}, Root: fstest.MapFS{"words.txt": &fstest.MapFile{Data: []byte("ab\n   \n\t\n# a comment\n  # an indented comment\n  Aa  \n\n")}}})
	dsOp, err2 := operators.Get("pmFromDataset", plugintypes.OperatorOptions{Arguments: "ds", Datasets: map[string][]string{"ds": {"ab", "Aa"}}})
	if err1 != nil || err2 != nil || pmIdx < 0 {
		run.Inconclusive("pmFromFile / pmFromDataset rejected: %v %v", err1, err2)
	} else {
		for _, r := range rows {
			for name, o := range map[string]plugintypes.Operator{"pmFromFile": fileOp, "pmFromDataset": dsOp} {
				got, p := eval(o, string(r.In))
				if p != "" {
					report("panic", name, "ab / Aa", r.In, p)
				} else if got != r.Row[pmIdx] {
					report("predicate-differs", name, "phrases ab, Aa (file with blank, whitespace-only and comment lines)", r.In, fmt.Sprintf("the operator returned %v, membership of a listed phrase is %v", got, r.Row[pmIdx]))
				}
			}
		}
	}
	c15RuleLevel(run, report)
	// @rx: the dot matches the newline whatever else the pattern contains
	for _, c := range rxdots {
		op, err := getOp("rx", string(c.Arg))
		if err != nil {
			run.Inconclusive("rx dot table: pattern %q rejected: %v", string(c.Arg), err)
			continue
		}
		if got := op.Evaluate(ts, string(c.In)); got != c.Holds {
			report("rx-dot-newline", "rx", string(c.Arg), c.In, fmt.Sprintf("the operator returned %v, the pattern read with the dot matching every byte gives %v", got, c.Holds))
		}
		run.Eval("rxdot-" + string(c.Arg) + string(c.In))
	}
	// the capture table of the specification: n groups / n phrases found, TX.0-9 as CaptureTX says
	for _, c := range caps {
		var sb strings.Builder
		// an earlier capturing rule fills TX.0-9, so a text that is not stored shows as a stale value
		sb.WriteString("SecRuleEngine On\nSecRule REQUEST_HEADERS:x-w \"@rx (0)(1)(2)(3)(4)(5)(6)(7)(8)\" \"id:9,phase:1,pass,capture\"\n")
		fmt.Fprintf(&sb, "SecRule REQUEST_HEADERS:x-v \"@%s %s\" \"id:1,phase:1,pass,capture", c.Op, string(c.Arg))
		for i := 0; i < c.Used; i++ {
			fmt.Fprintf(&sb, ",setvar:'tx.c%d=%%{tx.%d}'", i, i)
		}
		sb.WriteString("\"\n")
		w, err := coraza.NewWAF(coraza.NewWAFConfig().WithDirectives(sb.String()))
		if err != nil {
			run.Inconclusive("capture table: probe rejected: %v\n%s", err, sb.String())
			continue
		}
		tx := w.NewTransaction()
		tx.AddRequestHeader("X-W", "012345678")
		tx.AddRequestHeader("X-V", string(c.In))
		tx.ProcessRequestHeaders()
		fired := false
		for _, mr := range tx.MatchedRules() {
			if mr.Rule().ID() == 1 {
				fired = true
			}
		}
		vars := tx.(plugintypes.TransactionState).Variables().TX()
		if !fired {
			report("capture-rule-silent", c.Op, string(c.Arg), c.In, "the capturing rule did not fire on an input that contains every group / phrase")
		} else {
			for i := 0; i < c.Used; i++ {
				got := ""
				if g := vars.Get(fmt.Sprintf("c%d", i)); len(g) > 0 {
					got = g[0]
				}
				if got != string(c.TX[i]) {
					report("capture-differs", c.Op, string(c.Arg), c.In, fmt.Sprintf("TX.%d copied out by setvar is %q, text %d of the match is %q (%d texts in the match)", i, got, i, string(c.TX[i]), len(c.TX)))
				}
			}
		}
		run.Eval("captab-" + c.Op + string(c.Arg))
		tx.Close()
		closeAny(w)
	}
}

// c15RuleLevel: negation yields the exact complement, capturing operators store the matched texts
// in TX.0-9, @pmFromDataset / @pmFromFile behave like @pm on the same phrases.
func c15RuleLevel(run *vf.Run, report func(kind, op, arg string, in []byte, detail string)) {
	type probe struct{ op, arg, val string }
	probes := []probe{{"streq", "a", "a"}, {"streq", "a", "b"}, {"contains", "aA", "xaAx"}, {"contains", "aA", "xaax"}, {"ge", "2", "3"}, {"ge", "2", "1"},
		{"pm", "ab Aa", "xAB"}, {"pm", "ab Aa", "x"}, {"validateUtf8Encoding", "", "\xff"}, {"validateUtf8Encoding", "", "ok"}, {"ipMatch", "10.0.0.0/30", "10.0.0.2"}, {"ipMatch", "10.0.0.0/30", "10.0.0.9"},
		{"rx", "a(b)(c)?", "zabz"}, {"rx", "a.c", "a\nc"}, {"rx", "^x$", "x"}, {"rx", "^x$", "xx"}}
	for _, p := range probes {
		arg := ""
		if p.arg != "" {
			arg = " " + p.arg
		}
		fire := func(neg string) (bool, string) {
			text := fmt.Sprintf("SecRuleEngine On\nSecRule REQUEST_HEADERS:x-v \"%s@%s%s\" \"id:1,phase:1,pass,capture\"\n", neg, p.op, arg)
			w, err := coraza.NewWAF(coraza.NewWAFConfig().WithDirectives(text))
			if err != nil {
				return false, "rejected: " + err.Error()
			}
			defer closeAny(w)
			tx := w.NewTransaction()
			defer tx.Close()
			tx.AddRequestHeader("X-V", p.val)
			tx.ProcessRequestHeaders()
			return len(tx.MatchedRules()) == 1, ""
		}
		pos, e1 := fire("")
		neg, e2 := fire("!")
		run.Eval("neg-" + p.op + p.arg + p.val)
		if e1 != "" || e2 != "" {
			run.Inconclusive("rule-level operator probe rejected: %s %s", e1, e2)
			continue
		}
		if pos == neg {
			report("negation-not-complement", p.op, p.arg, []byte(p.val), fmt.Sprintf("@%s fired=%v and !@%s fired=%v", p.op, pos, p.op, neg))
		}
	}
	// captures: @rx groups and @pm matches land in TX.0-9
	caps := []struct {
		op, arg, val string
		want         map[string]string
	}{
		{"rx", "a(b)(c)?d", "zabdz", map[string]string{"0": "abd", "1": "b", "2": ""}},
		{"rx", "^abd$", "abd", map[string]string{"0": "abd"}},
		{"pm", "ab cd", "xxabyycd", map[string]string{"0": "ab", "1": "cd"}},
	}
	for _, c := range caps {
		var sb strings.Builder
		// an earlier capturing rule fills TX.0-3, so a group that does not take part in the next match must be reset
		sb.WriteString("SecRuleEngine On\nSecRule REQUEST_HEADERS:x-w \"@rx (p)(q)(r)\" \"id:9,phase:1,pass,capture\"\n")
		fmt.Fprintf(&sb, "SecRule REQUEST_HEADERS:x-v \"@%s %s\" \"id:1,phase:1,pass,capture", c.op, c.arg)
		for i := 0; i <= 2; i++ {
			fmt.Fprintf(&sb, ",setvar:'tx.c%d=%%{tx.%d}'", i, i)
		}
		sb.WriteString("\"\n")
		w, err := coraza.NewWAF(coraza.NewWAFConfig().WithDirectives(sb.String()))
		if err != nil {
			run.Inconclusive("capture probe rejected: %v", err)
			continue
		}
		tx := w.NewTransaction()
		tx.AddRequestHeader("X-W", "pqr")
		tx.AddRequestHeader("X-V", c.val)
		tx.ProcessRequestHeaders()
		vars := tx.(plugintypes.TransactionState).Variables().TX()
		for k, want := range c.want {
			got := ""
			if g := vars.Get("c" + k); len(g) > 0 {
				got = g[0]
			}
			if got != want {
				report("capture-differs", c.op, c.arg, []byte(c.val), fmt.Sprintf("TX.%s copied out by setvar is %q, the matched text is %q", k, got, want))
			}
		}
		run.Eval("cap-" + c.op + c.arg)
		tx.Close()
		closeAny(w)
	}
}
