package props

import "github.com/corazawaf/coraza/v3/verifharness/vf"

func init() { Registry["XSCALEMD"] = func(run *vf.Run) { scaleMatchData(run, "dev") } }

func init() { Registry["XDEEP"] = c07Deep }

func init() { Registry["XINC"] = c16IncludeContext }
