package props

import (
	"path/filepath"
	"testing/fstest"
)

func filepathGlob(g string) ([]string, error) { return filepath.Glob(g) }

func mapFS(files map[string]string) fstest.MapFS {
	m := fstest.MapFS{}
	for n, c := range files {
		m[n] = &fstest.MapFile{Data: []byte(c)}
	}
	return m
}
