package props

import (
	"bytes"
	"encoding/json"
	"fmt"
	"io"
	"os"
	"regexp"
	"runtime"
	"sort"
	"strings"
	"sync"
	"time"

	coraza "github.com/corazawaf/coraza/v3"
	"github.com/corazawaf/coraza/v3/debuglog"
	"github.com/corazawaf/coraza/v3/experimental/plugins"
	"github.com/corazawaf/coraza/v3/experimental/plugins/plugintypes"
	"github.com/corazawaf/coraza/v3/internal/corazawaf"
	"github.com/corazawaf/coraza/v3/types"
	"github.com/corazawaf/coraza/v3/verifharness/vf"
)

func init() { Registry["C05"] = C05 }

// The configuration every C05 history runs on. Predecessor behaviours are triggered by tokens in
// the X-Do request header; the probe request carries none of them.
const c05Rules = `
SecRuleEngine On
SecRequestBodyAccess On
SecRequestBodyLimit 64
SecRequestBodyInMemoryLimit 8
SecRequestBodyLimitAction ProcessPartial
SecResponseBodyAccess On
SecResponseBodyLimit 64
SecResponseBodyMimeType text/plain
SecAuditEngine RelevantOnly
SecAuditLogParts ABCFHKZ
SecAuditLogType verifc05
SecAuditLogFormat json
SecTmpDir %TMP%
SecArgumentsLimit 4
SecRule REQUEST_HEADERS:x-do "@contains match" "id:1001,phase:1,pass,log"
SecRule REQUEST_HEADERS:x-do "@contains setvar" "id:1002,phase:1,pass,setvar:tx.leak=1,setvar:tx.score=+5"
SecRule REQUEST_HEADERS:x-do "@contains capture" "id:1003,phase:1,pass,capture,chain"
  SecRule REQUEST_HEADERS:x-val "@rx (se)(cret)" "capture"
SecRule REQUEST_HEADERS:x-do "@contains deny1" "id:1011,phase:1,deny,status:401"
SecRule REQUEST_HEADERS:x-do "@contains deny2" "id:1012,phase:2,deny,status:402"
SecRule REQUEST_HEADERS:x-do "@contains deny3" "id:1013,phase:3,deny,status:403"
SecRule REQUEST_HEADERS:x-do "@contains deny4" "id:1014,phase:4,deny,status:404"
SecRule REQUEST_HEADERS:x-do "@contains ctlEngine" "id:1020,phase:1,pass,ctl:ruleEngine=DetectionOnly"
SecRule REQUEST_HEADERS:x-do "@contains ctlEngine" "id:1120,phase:2,deny,status:409"
SecRule REQUEST_HEADERS:x-do "@contains ctlReqAccess" "id:1021,phase:1,pass,ctl:requestBodyAccess=Off"
SecRule REQUEST_HEADERS:x-do "@contains ctlReqLimit" "id:1022,phase:1,pass,ctl:requestBodyLimit=3"
SecRule REQUEST_HEADERS:x-do "@contains ctlAuditEngine" "id:1023,phase:1,pass,ctl:auditEngine=Off"
SecRule REQUEST_HEADERS:x-do "@contains ctlAuditParts" "id:1024,phase:1,pass,ctl:auditLogParts=-C"
SecRule REQUEST_HEADERS:x-do "@contains ctlForceReqBody" "id:1025,phase:1,pass,ctl:forceRequestBodyVariable=On"
SecRule REQUEST_HEADERS:x-do "@contains ctlRespAccess" "id:1026,phase:1,pass,ctl:responseBodyAccess=Off"
SecRule REQUEST_HEADERS:x-do "@contains ctlDebugLevel" "id:1030,phase:1,pass,ctl:debugLogLevel=9"
SecRule REQUEST_HEADERS:x-do "@contains ctlRespProcessor" "id:1031,phase:1,pass,ctl:responseBodyProcessor=JSON"
SecRule REQUEST_HEADERS:x-do "@contains ctlRmId" "id:1027,phase:1,pass,ctl:ruleRemoveById=2001"
SecRule REQUEST_HEADERS:x-do "@contains ctlRmRange" "id:1028,phase:1,pass,ctl:ruleRemoveById=2100-2199"
SecRule REQUEST_HEADERS:x-do "@contains ctlRmTarget" "id:1029,phase:1,pass,ctl:ruleRemoveTargetById=2002;ARGS:a"
SecRule REQUEST_HEADERS:x-do "@contains allow," "id:1040,phase:1,allow"
SecRule REQUEST_HEADERS:x-do "@contains allowRequest" "id:1041,phase:1,allow:request"
SecRule REQUEST_HEADERS:x-do "@contains tfCache" "id:1042,phase:5,pass,t:lowercase,t:trim"
SecRule REQUEST_HEADERS:x-do "@contains skipAfter" "id:1051,phase:5,pass,skipAfter:NOWHERE"
SecRule REQUEST_HEADERS:x-do "@contains skip," "id:1050,phase:5,pass,skip:7"
SecRule ARGS:a "@streq x" "id:2001,phase:2,pass,nolog"
SecRule ARGS "@streq x" "id:2002,phase:2,pass,nolog"
SecRule ARGS:b "@streq y" "id:2011,phase:2,pass,nolog"
SecRule ARGS_POST:d "@rx ." "id:2012,phase:2,pass,nolog"
SecRule TX:leak "@eq 1" "id:2003,phase:2,pass,nolog"
SecRule TX:0 "@rx ." "id:2004,phase:2,pass,nolog"
SecRule TX:1 "@rx ." "id:2005,phase:2,pass,nolog"
SecRule &TX:score "@gt 0" "id:2006,phase:2,pass,nolog"
SecRule REQUEST_BODY "@contains x" "id:2007,phase:2,pass,nolog"
SecRule MATCHED_VARS "@rx ." "id:2008,phase:1,pass,nolog"
SecRule RESPONSE_BODY "@contains r" "id:2009,phase:4,pass,nolog"
SecRule RES_BODY_ERROR|RES_BODY_PROCESSOR_ERROR|REQBODY_ERROR "@eq 1" "id:2013,phase:4,pass,nolog"
SecAction "id:2101,phase:1,pass,nolog"
SecAction "id:2102,phase:2,pass,nolog"
SecAction "id:2103,phase:3,pass,nolog"
SecAction "id:2104,phase:4,pass,nolog"
SecAction "id:2105,phase:5,pass,nolog"
SecRule REQUEST_HEADERS:x-probe "@contains deny" "id:2010,phase:2,deny,status:418,log,auditlog"
`

type c05Audit struct {
	mu   sync.Mutex
	logs map[string][]string // tx id -> serialized records
}

var c05Writer = &c05Audit{logs: map[string][]string{}}
var c05Once sync.Once

type c05AuditWriter struct{}

func (c05AuditWriter) Init(plugintypes.AuditLogConfig) error { return nil }
func (c05AuditWriter) Write(al plugintypes.AuditLog) error {
	id := al.Transaction().ID()
	var msgs []string
	for _, m := range al.Messages() {
		if id := safeMsgID(m); id != 0 {
			msgs = append(msgs, fmt.Sprint(id))
		}
	}
	body := ""
	if al.Transaction().Request() != nil {
		body = al.Transaction().Request().Body()
	}
	rec := fmt.Sprintf("parts=%s msgs=%v body=%q interrupted=%v", string(al.Parts()), msgs, body, al.Transaction().IsInterrupted())
	c05Writer.mu.Lock()
	c05Writer.logs[id] = append(c05Writer.logs[id], rec)
	c05Writer.mu.Unlock()
	return nil
}
func (c05AuditWriter) Close() error { return nil }

func c05Records(id string) []string {
	c05Writer.mu.Lock()
	defer c05Writer.mu.Unlock()
	r := c05Writer.logs[id]
	delete(c05Writer.logs, id)
	return r
}

// c05Outcome is the full observable outcome of a probe transaction.
type c05Outcome struct {
	PerPhase []string
	Fired    []int
	Intr     string
	TX       []string
	ReqBody  string
	RespBody string
	Audit    []string
	Debug    []string // what the transaction wrote to the WAF's debug log (the WAF's own level is 0: nothing)
}

// the debug log of each WAF of this check: an in-memory writer, level 0 (nothing is logged unless a
// transaction raises its own level with ctl:debugLogLevel)
type c05Buf struct {
	mu sync.Mutex
	b  bytes.Buffer
}

func (b *c05Buf) Write(p []byte) (int, error) {
	b.mu.Lock()
	defer b.mu.Unlock()
	return b.b.Write(p)
}
func (b *c05Buf) mark() int { b.mu.Lock(); defer b.mu.Unlock(); return b.b.Len() }
func (b *c05Buf) since(m int) string {
	b.mu.Lock()
	defer b.mu.Unlock()
	if m > b.b.Len() {
		return ""
	}
	return string(b.b.Bytes()[m:])
}

var c05Bufs sync.Map // coraza.WAF -> *c05Buf

func c05NewWAF(text string) (coraza.WAF, error) {
	buf := &c05Buf{}
	w, err := coraza.NewWAF(coraza.NewWAFConfig().WithDebugLogger(debuglog.Default().WithOutput(buf).WithLevel(debuglog.LevelNoLog)).WithDirectives(text))
	if err == nil {
		c05Bufs.Store(w, buf)
	}
	return w, err
}

var c05DbgMask = regexp.MustCompile(`^\S+ \S+ |tx_id="[^"]*"`)

func (o c05Outcome) key() string { b, _ := json.Marshal(o); return string(b) }

func intrStr(it *types.Interruption) string {
	if it == nil {
		return "none"
	}
	return fmt.Sprintf("%d/%s/%d", it.RuleID, it.Action, it.Status)
}

// runTx drives one transaction. tokens trigger predecessor behaviours; probe = no tokens.
// Returns the outcome, the transaction (already closed), and a reader kept from before Close.
func c05RunTx(w coraza.WAF, id string, tokens []string, probeDeny bool) (c05Outcome, *corazawaf.Transaction, io.Reader, map[string]any, map[string][]string) {
	has := func(t string) bool {
		for _, x := range tokens {
			if x == t {
				return true
			}
		}
		return false
	}
	var dbg *c05Buf
	dbgMark := 0
	if b, ok := c05Bufs.Load(w); ok {
		dbg = b.(*c05Buf)
		dbgMark = dbg.mark()
	}
	tx := w.NewTransactionWithID(id)
	itx := tx.(*corazawaf.Transaction)
	var o c05Outcome
	tx.ProcessConnection("10.0.0.1", 1, "10.0.0.2", 80)
	uri := "/p?a=x&b=y"
	if has("otherArgs") {
		uri = "/p?p1=1&p2=2&p3=3"
	}
	tx.ProcessURI(uri, "POST", "HTTP/1.1")
	tx.AddRequestHeader("Host", "h")
	tx.AddRequestHeader("Content-Type", "application/x-www-form-urlencoded")
	if len(tokens) > 0 {
		tx.AddRequestHeader("X-Do", strings.Join(tokens, ",")+",")
		tx.AddRequestHeader("X-Val", "secret")
	}
	if probeDeny {
		tx.AddRequestHeader("X-Probe", "deny")
	}
	body := "c=x&d=1"
	if has("spill") {
		body = "c=x&d=12345678901234567890"
	}
	if has("otherArgs") {
		body = "q1=x&q2=1&q3=2"
	}
	it := tx.ProcessRequestHeaders()
	o.PerPhase = append(o.PerPhase, intrStr(it))
	var kept io.Reader
	if it == nil {
		it2, _, _ := tx.WriteRequestBody([]byte(body))
		if it2 == nil {
			if has("keepReader") {
				kept, _ = tx.RequestBodyReader()
			}
			it, _ = tx.ProcessRequestBody()
			o.PerPhase = append(o.PerPhase, intrStr(it))
		} else {
			it = it2
		}
	}
	if it == nil {
		tx.AddResponseHeader("Content-Type", "text/plain")
		it = tx.ProcessResponseHeaders(200, "HTTP/1.1")
		o.PerPhase = append(o.PerPhase, intrStr(it))
	}
	if it == nil {
		if _, _, err := tx.WriteResponseBody([]byte("resp")); err == nil {
			it, _ = tx.ProcessResponseBody()
			o.PerPhase = append(o.PerPhase, intrStr(it))
		}
	}
	if !has("noLogging") {
		tx.ProcessLogging()
	}
	for _, mr := range tx.MatchedRules() {
		o.Fired = append(o.Fired, mr.Rule().ID())
	}
	o.Intr = intrStr(tx.Interruption())
	for _, md := range itx.Variables().TX().FindAll() {
		o.TX = append(o.TX, md.Key()+"="+md.Value())
	}
	sort.Strings(o.TX)
	if r, err := tx.RequestBodyReader(); err == nil {
		b, _ := io.ReadAll(r)
		o.ReqBody = string(b)
	}
	if r, err := tx.ResponseBodyReader(); err == nil {
		b, _ := io.ReadAll(r)
		o.RespBody = string(b)
	}
	dirtySnap := itx.VerifSnapshotFields()
	dirtyVars := itx.VerifVariablesDump()
	_ = tx.Close()
	if has("closeTwice") {
		_ = tx.Close()
	}
	o.Audit = c05Records(id)
	if dbg != nil {
		for _, l := range strings.Split(dbg.since(dbgMark), "\n") {
			if l != "" {
				o.Debug = append(o.Debug, c05DbgMask.ReplaceAllString(l, ""))
			}
		}
		if len(o.Debug) > 6 {
			o.Debug = append(o.Debug[:6], fmt.Sprintf("... %d lines", len(o.Debug)))
		}
	}
	return o, itx, kept, dirtySnap, dirtyVars
}

// maskVars drops the variables that legitimately differ between two transactions.
func maskVars(m map[string][]string) map[string][]string {
	out := map[string][]string{}
	for k, v := range m {
		lk := strings.ToLower(k)
		if strings.HasPrefix(lk, "time") || lk == "uniqueid" || lk == "duration" {
			continue
		}
		out[k] = v
	}
	return out
}

// fieldsOfSnapshot maps the hook's snapshot keys to the Fields of Pool.tla.
func fieldOf(key string) string {
	switch {
	case strings.HasPrefix(key, "requestBodyBuffer"):
		return "requestBodyBuffer"
	case strings.HasPrefix(key, "responseBodyBuffer"):
		return "responseBodyBuffer"
	}
	return key
}

// C05: transactions are isolated from earlier transactions on the same WAF.
func C05(run *vf.Run) {
	run.Rule = "Pool.tla: a pooled Transaction object as a record of fields (default/dirty), predecessor behaviours as tokens that dirty fields, Close and NewTransaction with the reset lists of the code; TLC checks FreshAfterNew and ReadersDead over all histories of predecessors (one predecessor performing up to 2 - thorough 3 - behaviours, thorough also two predecessors performing one each) (match, setvar, capture, deny in phase 1-4, every ctl override including the debug log level, pending allow / skip / skipAfter, body spill, response body, no ProcessLogging, Close twice, kept reader, transformation cache) and emits every history; each history is replayed on a real WAF on one goroutine (the pool really hands the same object back: pointer identity is checked), then (1) the reflective snapshot of the recycled object right after NewTransaction is compared field by field with a brand-new transaction, (2) a probe transaction is run on the used WAF and on a fresh WAF and the full observable outcome (per-phase interruptions, fired rules, TX dump, body reader contents, audit record, lines written to the WAF's debug log - the WAF's own level is 0, a predecessor may raise its own with ctl:debugLogLevel) is compared, (3) a reader kept from before Close must yield no data, (4) the dirty fields observed after each predecessor must lie within Dirties of Pool.tla (binding of the model). Non-trivial = history whose recycled object was really reused"
	run.Exhaustive = true
	run.Assume("sync.Pool hands the object back on the same goroutine when no GC intervenes (checked per history by pointer identity; histories where it does not are counted as not exercised)")
	c05Once.Do(func() {
		plugins.RegisterAuditLogWriter("verifc05", func() plugintypes.AuditLogWriter { return c05AuditWriter{} })
	})
	var hists [][][]string
	var mu sync.Mutex
	// quick: one predecessor doing up to 2 behaviours; thorough: one predecessor doing up to 3, and two predecessors doing one each
	type bound struct{ tokens, preds int }
	bounds := vf.Pick(run, []bound{{2, 1}}, []bound{{3, 1}, {1, 2}})
	var res *vf.TLCResult
	var err error
	for _, b := range bounds {
		res, err = vf.RunTLC(vf.TLCOpts{Module: "Pool", CfgText: fmt.Sprintf("SPECIFICATION Spec\nCONSTANTS\n  MaxTokens = %d\n  MaxPreds = %d\nINVARIANTS FreshAfterNew ReadersDead Emit\nCHECK_DEADLOCK FALSE\n", b.tokens, b.preds),
			Workers: 8, Timeout: vf.Pick(run, 20*time.Minute, 60*time.Minute),
			OnOut: func(raw json.RawMessage) {
				var d struct {
					Hist [][]string `json:"hist"`
				}
				if json.Unmarshal(raw, &d) == nil {
					mu.Lock()
					hists = append(hists, d.Hist)
					mu.Unlock()
				}
			}})
		if err != nil || res.Violated != "" || !res.OK() {
			break
		}
		if b != bounds[len(bounds)-1] {
			run.AddTLC(res)
		}
	}
	if err != nil {
		run.Inconclusive("Pool: %v", err)
		return
	}
	run.AddTLC(res)
	run.Logf("Pool.tla: %s; %d histories", res.Describe(), len(hists))
	if res.Violated != "" {
		run.Inconclusive("Pool.tla invariant %s violated in TLC: the reset lists of the model admit a leak:\n%s", res.Violated, res.ErrorText)
		return
	}
	if !res.OK() || len(hists) == 0 {
		run.Inconclusive("Pool.tla: TLC did not complete: %s", res.Describe())
		return
	}
	seen := map[string]bool{}
	var uniq [][][]string
	for _, h := range hists {
		for _, s := range h {
			sort.Strings(s)
		}
		k := fmt.Sprint(h)
		if !seen[k] {
			seen[k] = true
			uniq = append(uniq, h)
		}
	}
	sort.Slice(uniq, func(i, j int) bool { return fmt.Sprint(uniq[i]) < fmt.Sprint(uniq[j]) })
	tmp, _ := os.MkdirTemp("", "verif-c05-")
	defer os.RemoveAll(tmp)
	text := strings.ReplaceAll(c05Rules, "%TMP%", tmp)

	// Dirties of Pool.tla, transcribed for the binding check
	always := map[string]bool{"variables": true, "lastPhase": true, "stopWatches": true, "matchedRules": true, "Capture": true, "audit": true, "transformationCache": true}
	type fail struct {
		kind, detail string
		hist         [][]string
	}
	var fails []fail
	var fmu sync.Mutex
	addFail := func(kind, detail string, h [][]string) {
		fmu.Lock()
		fails = append(fails, fail{kind, detail, h})
		fmu.Unlock()
	}
	var wg sync.WaitGroup
	sem := make(chan struct{}, runtime.NumCPU()/2+1)
	var ctr int64
	for hi, h := range uniq {
		wg.Add(1)
		sem <- struct{}{}
		go func(hi int, h [][]string) {
			defer wg.Done()
			defer func() { <-sem }()
			runtime.LockOSThread()
			defer runtime.UnlockOSThread()
			defer func() {
				if r := recover(); r != nil {
					addFail("panic", fmt.Sprint(r), h)
				}
			}()
			w, err := c05NewWAF(text)
			if err != nil {
				run.Inconclusive("C05 configuration rejected: %v", err)
				return
			}
			fresh, _ := c05NewWAF(text)
			var last *corazawaf.Transaction
			var kept io.Reader
			for pi, toks := range h {
				id := fmt.Sprintf("h%d-p%d", hi, pi)
				_, itx, k, _, _ := c05RunTx(w, id, toks, false)
				last = itx
				if k != nil {
					kept = k
				}
			}
			// the recycled object, right after NewTransaction
			probeID := fmt.Sprintf("h%d-probe", hi)
			tx := w.NewTransactionWithID(probeID)
			itx := tx.(*corazawaf.Transaction)
			reused := itx == last
			snap := itx.VerifSnapshotFields()
			vars := maskVars(itx.VerifVariablesDump())
			ftx := fresh.NewTransactionWithID(probeID)
			fsnap := ftx.(*corazawaf.Transaction).VerifSnapshotFields()
			fvars := maskVars(ftx.(*corazawaf.Transaction).VerifVariablesDump())
			_ = ftx.Close()
			_ = tx.Close()
			if reused {
				for k, v := range fsnap {
					if fmt.Sprint(snap[k]) != fmt.Sprint(v) {
						f := fieldOf(k)
						kind := "recycled-object-differs"
						if f == "transformationCache" || f == "stopWatches" {
							continue // not observable: emptied at the start of every phase / timing only
						}
						addFail(kind+":"+f, fmt.Sprintf("field %s of the recycled transaction is %v, brand-new is %v", k, snap[k], v), h)
					}
				}
				for k, v := range fvars {
					if fmt.Sprint(vars[k]) != fmt.Sprint(v) {
						addFail("recycled-object-differs:variables", fmt.Sprintf("collection %s of the recycled transaction holds %v, brand-new holds %v", k, vars[k], v), h)
					}
				}
				for k, v := range vars {
					if _, ok := fvars[k]; !ok && len(v) > 0 {
						addFail("recycled-object-differs:variables", fmt.Sprintf("collection %s of the recycled transaction holds %v, brand-new has none", k, v), h)
					}
				}
			}
			// a reader kept from a closed transaction yields nothing, also after the buffer is reused
			if kept != nil {
				b, _ := io.ReadAll(kept)
				if len(b) > 0 {
					addFail("stale-reader-yields-data", fmt.Sprintf("a body reader handed out before Close returned %q afterwards", string(b)), h)
				}
			}
			// probe on the used WAF vs on the fresh WAF, plain and interrupted
			for _, pd := range []bool{false, true} {
				a, _, _, _, _ := c05RunTx(w, probeID+fmt.Sprint(pd), nil, pd)
				b, _, _, _, _ := c05RunTx(fresh, probeID+fmt.Sprint(pd), nil, pd)
				if kept != nil {
					if bb, _ := io.ReadAll(kept); len(bb) > 0 {
						addFail("stale-reader-yields-data", fmt.Sprintf("a body reader handed out before Close returned %q after the buffer was reused", string(bb)), h)
					}
				}
				if a.key() != b.key() {
					addFail("probe-outcome-differs", fmt.Sprintf("probe after the history: %s ; same probe on a fresh WAF: %s", a.key(), b.key()), h)
				}
			}
			nt := ""
			if reused {
				nt = fmt.Sprint(h)
			}
			run.Eval(nt)
			fmu.Lock()
			ctr++
			if ctr%97 == 1 {
				run.Sample(map[string]any{"history (tokens per predecessor)": h, "object_reused": reused})
			}
			fmu.Unlock()
			closeAny(w)
			closeAny(fresh)
		}(hi, h)
	}
	wg.Wait()

	// binding of the model: dirty fields seen after single-token predecessors lie within Dirties
	c05Binding(run, text, always)

	sort.Slice(fails, func(i, j int) bool { return fmt.Sprint(fails[i].hist) < fmt.Sprint(fails[j].hist) })
	seenKind := map[string]bool{}
	for _, f := range fails {
		// one violation per (kind, first token set)
		var toks []string
		for _, s := range f.hist {
			toks = append(toks, s...)
		}
		sort.Strings(toks)
		sig := "pool:" + f.kind + "|" + strings.Join(dedupStr(toks), "+")
		base := f.kind
		covered := false
		for k := range seenKind {
			if strings.HasPrefix(k, base+"|") {
				have := map[string]bool{}
				for _, t := range toks {
					have[t] = true
				}
				all := true
				for _, t := range strings.Split(strings.TrimPrefix(k, base+"|"), "+") {
					if t != "" && !have[t] {
						all = false
					}
				}
				if all {
					covered = true
				}
			}
		}
		if covered {
			continue
		}
		seenKind[base+"|"+strings.Join(dedupStr(toks), "+")] = true
		run.Violate(vf.Violation{Signature: sig, What: fmt.Sprintf("%s after predecessor history %v: %s", f.kind, f.hist, f.detail),
			Replay: map[string]any{"family": "pool", "history": f.hist, "detail": f.detail}})
	}
}

func dedupStr(s []string) []string {
	var out []string
	for i, x := range s {
		if i == 0 || x != s[i-1] {
			out = append(out, x)
		}
	}
	return out
}

func closeAny(w coraza.WAF) {
	c05Bufs.Delete(w)
	if c, ok := w.(interface{ Close() error }); ok {
		_ = c.Close()
	}
}

// c05Binding keeps Pool.tla's Dirties honest: a model whose table does not cover what the real
// predecessor dirties is a model error (exit 2), never a verdict.
func c05Binding(run *vf.Run, text string, always map[string]bool) {
	dirties := map[string][]string{
		"match": {"matchedRules", "variables", "audit"}, "setvar": {"variables", "matchedRules", "audit"},
		"capture": {"variables", "matchedRules", "Capture", "audit"},
		"deny1":   {"interruption", "matchedRules", "variables", "audit"}, "deny2": {"interruption", "matchedRules", "variables", "audit"},
		"deny3": {"interruption", "matchedRules", "variables", "audit"}, "deny4": {"interruption", "matchedRules", "variables", "audit"},
		"ctlEngine": {"RuleEngine", "matchedRules", "detectionOnlyInterruption", "audit"}, "ctlReqAccess": {"RequestBodyAccess"},
		"ctlReqLimit": {"RequestBodyLimit"}, "ctlAuditEngine": {"AuditEngine"}, "ctlAuditParts": {"AuditLogParts"},
		"ctlForceReqBody": {"ForceRequestBodyVariable"}, "ctlRespAccess": {"ResponseBodyAccess"}, "ctlRmId": {"ruleRemoveByID"},
		"ctlRmRange": {"ruleRemoveByIDRanges"}, "ctlDebugLevel": {"debugLogger"}, "ctlRespProcessor": {"variables"}, "ctlRmTarget": {"ruleRemoveTargetByID"}, "allow": {"AllowType"}, "allowRequest": {"AllowType"},
		"skip": {"Skip"}, "skipAfter": {"SkipAfter"}, "spill": {"requestBodyBuffer", "variables"}, "respBody": {"responseBodyBuffer", "variables"},
		"keepReader": {"requestBodyBuffer"}, "tfCache": {"transformationCache"}, "otherArgs": {"variables"},
	}
	w, err := coraza.NewWAF(coraza.NewWAFConfig().WithDirectives(text))
	if err != nil {
		return
	}
	defer closeAny(w)
	pristine := w.NewTransactionWithID("pristine").(*corazawaf.Transaction).VerifSnapshotFields()
	exercised := 0
	for tok, allowed := range dirties {
		ok := map[string]bool{"requestBodyBuffer": true, "responseBodyBuffer": true} // every transaction writes bodies
		for k := range always {
			ok[k] = true
		}
		for _, f := range allowed {
			ok[f] = true
		}
		_, _, _, snap, _ := c05RunTx(w, "bind-"+tok, []string{tok}, false)
		hit := false
		for k, v := range snap {
			if fmt.Sprint(pristine[k]) != fmt.Sprint(v) {
				f := fieldOf(k)
				if !ok[f] {
					run.Inconclusive("Pool.tla is out of date: predecessor behaviour %q dirties field %s (%v -> %v) which Dirties(%q) does not list", tok, k, pristine[k], v, tok)
				}
				for _, a := range allowed {
					if a == f && !always[f] {
						hit = true
					}
				}
			}
		}
		if hit {
			exercised++
		}
	}
	run.Extra["pool_binding_tokens_whose_specific_field_was_seen_dirty"] = exercised
}
