package props

import (
	"io/fs"
	"regexp"
	"sort"
	"strings"

	coreruleset "github.com/corazawaf/coraza-coreruleset"
)

var rxRule = regexp.MustCompile(`(?m)^\s*SecRule\s+\S+\s+"(!?)@rx\s+((?:[^"\\]|\\.)*)"`)

// loadCRSPatterns returns every distinct @rx pattern of the bundled OWASP CRS.
func loadCRSPatterns() []string {
	set := map[string]bool{}
	_ = fs.WalkDir(coreruleset.FS, ".", func(path string, d fs.DirEntry, err error) error {
		if err != nil || d.IsDir() || !strings.HasSuffix(path, ".conf") {
			return nil
		}
		b, err := fs.ReadFile(coreruleset.FS, path)
		if err != nil {
			return nil
		}
		text := strings.ReplaceAll(string(b), "\\\n", "")
		for _, m := range rxRule.FindAllStringSubmatch(text, -1) {
			p := strings.ReplaceAll(m[2], `\"`, `"`)
			if p != "" {
				set[p] = true
			}
		}
		return nil
	})
	out := make([]string, 0, len(set))
	for p := range set {
		out = append(out, p)
	}
	sort.Strings(out)
	return out
}
