package props

import (
	"math/rand"
	"strings"
	"time"

	"github.com/corazawaf/coraza/v3/verifharness/txm"
	"github.com/corazawaf/coraza/v3/verifharness/vf"
)

func init() { Registry["C02"] = C02; Registry["C10"] = C10 }

func bodyComponent(c string) bool {
	return strings.Contains(c, "bytes") || strings.Contains(c, "DATA_ERROR") || strings.Contains(c, "REQUEST_BODY") || strings.Contains(c, "reader-content")
}

// C02: first disruptive match interrupts; interruption is final; engine modes hold.
func C02(run *vf.Run) {
	run.Rule = "Tx.tla: the Transaction API as a state machine (one action per entry point, Engine.tla as the body of each phase, body buffers with both limit actions). TLC explores every reachable state for call sequences of unbounded length (the witness path is outside the VIEW) over configurations engine mode x one disruptive (deny / drop / redirect, with a status action written before or after it) or ctl:ruleEngine rule in any phase x a second deny in any phase x body access/limits/actions, checking AtMostOnce, InterruptFinal, NothingAfterInterrupt, SameInterruptionReported, DetectionOnlySilent, OffEvaluatesNothing in every state; every edge of the state graph (witness path + call) is replayed on a real transaction and the returned interruption, recorded interruption, fired rules (marker rule per phase = evaluation count), last phase and engine mode are compared with the specified successor(s). In the other direction (Tx_Trace.tla) random call sequences - repeated, out-of-order and interleaved calls, all write entry points - are driven on real transactions, every call is logged when it returns and TLC validates the log call by call against the same actions (a falsified log must be rejected). Non-trivial = a path on which some rule fired or body bytes were stored"
	run.Exhaustive = true
	run.Assume("TLC 1.8.0 explores the bounded Tx_MC instance completely")
	run.Assume("calls after Close are not generated; ProcessLogging is called at most once per transaction")
	rel := func(c string) bool { return !bodyComponent(c) }
	if !txm.ModelCheck(run, txm.MCOpts{Name: "lifecycle", Engines: `{"On", "DetectionOnly", "Off"}`, ReqLimits: "{2}", Ks: "{1, 3}", Modes: `{"slice", "unknown"}`,
		DisruptKinds: vf.Pick(run, `{"deny", "ctlDet", "ctlReqOn"}`, `{"deny", "drop", "redirect", "ctlDet", "ctlOn", "ctlOff", "ctlReqOn", "ctlReqOff", "ctlRespOn", "ctlRespOff"}`),
		Phases2:      vf.Pick(run, "{2, 4}", "{1, 2, 3, 4, 5}"), Workers: 14, Timeout: vf.Pick(run, 15*time.Minute, 120*time.Minute)}) {
		return
	}
	// (the edges of one instance are held in memory while they are replayed: the thorough tier explores the response
	// side in an instance of its own instead of adding WRESP to this one - that product needed > 29 GB)
	txm.ReplayEdges(run, txm.MCOpts{Name: "lifecycle-edges", Engines: `{"On", "DetectionOnly"}`, ReqLimits: "{2}", Ks: "{3}", Modes: `{"slice"}`,
		CallNames:    `{"PRH", "PRB", "PRSH", "PRSB", "PL", "WREQ"}`,
		DisruptKinds: vf.Pick(run, `{"deny", "redirect", "redirect301late", "ctlDet", "ctlOn", "ctlOff", "ctlReqOn", "ctlReqOff"}`, `{"deny", "deny401late", "drop", "redirect", "redirect301", "redirect301late", "ctlDet", "ctlOn", "ctlOff", "ctlReqOn", "ctlReqOff", "ctlRespOn", "ctlRespOff"}`),
		Phases2:      "{1, 2, 3, 4, 5}", Workers: 14, Timeout: vf.Pick(run, 15*time.Minute, 120*time.Minute), Relevant: rel})
	if run.NumViolations() > 0 {
		return
	}
	if run.Thorough() && run.NumViolations() == 0 {
		txm.ReplayEdges(run, txm.MCOpts{Name: "lifecycle-edges-response-side", Engines: `{"On", "DetectionOnly"}`, ReqLimits: "{2}", Ks: "{1, 3}", Modes: `{"slice", "unknown"}`,
			CallNames:    `{"PRH", "PRSH", "PRSB", "PL", "WRESP"}`,
			DisruptKinds: `{"deny", "drop", "redirect301late", "ctlDet", "ctlOn", "ctlOff", "ctlRespOn", "ctlRespOff"}`,
			Phases2:      "{1, 3, 4, 5}", ReqShapes: `{"off/Reject"}`, Workers: 14, Timeout: 120 * time.Minute, Relevant: rel})
	}
	// a second disruptive rule in any phase (before, in, or after the phase of the first special rule)
	txm.ReplayEdges(run, txm.MCOpts{Name: "two-disruptive-edges", Engines: `{"On", "DetectionOnly"}`, ReqLimits: "{2}", Ks: "{3}", Modes: `{"slice"}`,
		CallNames:    vf.Pick(run, `{"PRH", "PRB", "PRSH", "PRSB", "PL"}`, `{"PRH", "PRB", "PRSH", "PRSB", "PL", "WREQ"}`),
		DisruptKinds: vf.Pick(run, `{"deny", "redirect", "ctlDet", "ctlOn", "ctlOff"}`, `{"deny", "drop", "redirect301late", "ctlDet", "ctlOn", "ctlOff"}`),
		Phases2:      "{1, 2, 3, 4, 5}", Qs: "{1, 2, 3, 4, 5}", ReqShapes: vf.Pick(run, `{"off/Reject"}`, `{"off/Reject", "on/Reject"}`), RespShapes: `{"off/Reject"}`,
		Workers: 14, Timeout: vf.Pick(run, 15*time.Minute, 120*time.Minute), Relevant: rel})
	if run.NumViolations() > 0 {
		return
	}
	c02Trace(run)
}

// C10: body buffering is byte-faithful and limits are enforced exactly.
func C10(run *vf.Run) {
	run.Rule = "Tx.tla body buffers: bytes are modelled by their position in the supplied stream. TLC explores all mixes of slice writes, reader writes with known length and reader writes of unknown length, chunk sizes below / at / above the limit, both limit actions, limits lowered or raised at run time by ctl:requestBodyLimit / responseBodyLimit, memory limit below the hard limit (spill to disk), request and response side, interleaved with the phase calls, checking Faithful (stored = prefix of supplied, never beyond the limit), RejectExact (refused iff the cumulative size reaches the limit), PartialExact, BodyVarIsStoredPrefix in every state; every edge is replayed on a real transaction: bytes taken, bytes read back from the body readers, REQUEST_BODY as seen by the body phase, INBOUND/OUTBOUND_DATA_ERROR and the 413/500 refusal are compared; sizes are also multiplied (x1, x4096, x40000) so the same behaviours cross io.CopyN/bytes.Buffer chunk sizes. Non-trivial = a path that stored body bytes"
	run.Exhaustive = true
	run.Assume("TLC 1.8.0 explores the bounded Tx_MC instance completely")
	run.Assume("after a refused write (Reject) the content of the buffer is left open (Choice_AfterRefusal)")
	if !txm.ModelCheck(run, txm.MCOpts{Name: "body", Engines: `{"On", "DetectionOnly"}`, ReqLimits: vf.Pick(run, "{2}", "{2, 3}"), Ks: "{1, 2, 3}", Modes: `{"slice", "known", "unknown"}`,
		DisruptKinds: vf.Pick(run, `{}`, `{"deny"}`), Phases2: vf.Pick(run, "{}", "{2, 4}"), Workers: 14, Timeout: vf.Pick(run, 15*time.Minute, 120*time.Minute)}) {
		return
	}
	for _, side := range []string{`{"PRH", "PRB", "WREQ"}`, `{"PRSH", "PRSB", "WRESP"}`} {
		txm.ReplayEdges(run, txm.MCOpts{Name: "body-edges", Engines: `{"On"}`, ReqLimits: "{2, 3}", Ks: "{1, 2, 3}", Modes: `{"slice", "known", "unknown"}`,
			DisruptKinds: `{}`, Phases2: "{}", CallNames: side, Workers: 14, Timeout: vf.Pick(run, 15*time.Minute, 120*time.Minute),
			Scales: vf.Pick(run, []txm.Scale{1, 4096}, []txm.Scale{1, 4096, 40000}), Relevant: bodyComponent})
	}
	// limits lowered / raised at run time by ctl (request side by a phase-1 rule, response side by a phase-3 rule)
	if run.NumViolations() == 0 {
		txm.ReplayEdges(run, txm.MCOpts{Name: "body-edges-ctl-request-limit", Engines: `{"On"}`, ReqLimits: "{2}", Ks: "{1, 3}", Modes: `{"slice", "known", "unknown"}`,
			DisruptKinds: `{"ctlReqLimit1"}`, Phases2: "{1}", ReqShapes: `{"on/Reject", "on/ProcessPartial"}`, RespShapes: `{"off/Reject"}`,
			CallNames: `{"PRH", "PRB", "WREQ"}`, Workers: 14, Timeout: vf.Pick(run, 15*time.Minute, 120*time.Minute), Scales: []txm.Scale{1}, Relevant: bodyComponent})
		txm.ReplayEdges(run, txm.MCOpts{Name: "body-edges-ctl-response-limit", Engines: `{"On"}`, ReqLimits: "{2}", Ks: "{1, 3}", Modes: `{"slice", "known", "unknown"}`,
			DisruptKinds: `{"ctlRespLimit1"}`, Phases2: "{3}", ReqShapes: `{"off/Reject"}`, RespShapes: `{"on/Reject", "on/ProcessPartial"}`,
			CallNames: `{"PRSH", "PRSB", "WRESP"}`, Workers: 14, Timeout: vf.Pick(run, 15*time.Minute, 120*time.Minute), Scales: []txm.Scale{1}, Relevant: bodyComponent})
	}
	if run.Thorough() {
		txm.ReplayEdges(run, txm.MCOpts{Name: "body-edges-mixed", Engines: `{"On", "DetectionOnly"}`, ReqLimits: "{2}", Ks: "{1, 3}", Modes: `{"slice", "unknown"}`,
			DisruptKinds: `{"deny"}`, Phases2: "{2}", Workers: 14, Timeout: 120 * time.Minute, Scales: []txm.Scale{1}, Relevant: bodyComponent})
	}
}

func init() { Registry["XTXTRACE"] = c02Trace } // development entry: trace validation alone

// c02Trace: code -> spec. Random call sequences (repeated, out-of-order and interleaved calls, all three
// write entry points on both sides) are driven on real transactions over the configurations of the
// lifecycle instance, every call is logged when it returns, and TLC validates the log against Tx.tla.
func c02Trace(run *vf.Run) {
	cfgs := txm.CollectCfgs(run, txm.MCOpts{Name: "trace-cfgs", Engines: `{"On", "DetectionOnly", "Off"}`, ReqLimits: "{2}", Ks: "{1}", Modes: `{"slice"}`,
		DisruptKinds: `{"deny", "redirect301late", "ctlDet", "ctlOn", "ctlOff", "ctlReqOn", "ctlReqOff", "ctlRespOn"}`, Phases2: "{1, 2, 3, 4, 5}", Qs: "{0, 2, 4}",
		Timeout: 10 * time.Minute})
	if len(cfgs) == 0 {
		return
	}
	// sample configurations (seeded), a few random paths each
	rng := rand.New(rand.NewSource(run.Seed))
	rng.Shuffle(len(cfgs), func(i, j int) { cfgs[i], cfgs[j] = cfgs[j], cfgs[i] })
	n := vf.Pick(run, 150, 1500)
	if n > len(cfgs) {
		n = len(cfgs)
	}
	ok, events, detail := txm.TraceTx(run, cfgs[:n], vf.Pick(run, 2, 4), 12, run.Seed, 0)
	run.Logf("Tx_Trace: %d configurations, %d events, accepted=%v %s", n, events, ok, detail)
	if len(run.InconclusiveList()) > 0 {
		return
	}
	if !ok && !strings.Contains(detail, "TRACE_REJECTED_AT") && !strings.Contains(detail, "violated ") {
		run.Inconclusive("Tx_Trace: TLC did not complete: %s", detail)
		return
	}
	if !ok {
		run.Violate(vf.Violation{Signature: "tx:trace-rejected", What: "a recorded call sequence of real transactions is not a behaviour of Tx.tla: " + detail, Replay: map[string]any{"family": "tx-trace", "seed": run.Seed, "detail": detail}})
		return
	}
	run.TraceValidated(n * vf.Pick(run, 2, 4))
	// binding self-test: one falsified field must make TLC reject the log
	ok2, _, _ := txm.TraceTx(run, cfgs[:10], 2, 12, run.Seed, 1)
	if ok2 {
		run.Inconclusive("Tx_Trace accepted a log with a falsified field: the trace specification does not bind")
	}
	if run.NumViolations() > 0 || len(run.InconclusiveList()) > 0 {
		return
	}
	// code -> spec over arbitrary rule sets: recorded executions of the repository's test profiles, the Core Rule Set and
	// generated rule sets must be behaviours of Flow.tla (Flow_Trace.tla)
	FlowTraceStage(run, "profiles", "crs", "api")
}
