package props

import (
	"bytes"
	"encoding/json"
	"errors"
	"fmt"
	corazahttp "github.com/corazawaf/coraza/v3/http"
	"io"
	"mime/multipart"
	"net/http"
	"net/http/httptest"
	"os"
	"path/filepath"
	"sort"
	"strings"
	"sync"
	"time"

	coraza "github.com/corazawaf/coraza/v3"
	"github.com/corazawaf/coraza/v3/debuglog"
	"github.com/corazawaf/coraza/v3/internal/corazawaf"
	"github.com/corazawaf/coraza/v3/internal/verif"
	"github.com/corazawaf/coraza/v3/types"
	"github.com/corazawaf/coraza/v3/verifharness/vf"
)

func init() { Registry["C20"] = C20 }

type fsCase struct {
	Spill    bool   `json:"spill"`
	Entry    string `json:"entry"`
	Limit    string `json:"limit"`
	Audit    bool   `json:"audit"`
	Arm      string `json:"arm"`
	NFiles   int    `json:"nfiles"`
	Keep     string `json:"keep"`
	Relevant bool   `json:"relevant"`
	Point    string `json:"point"`
	Nth      int    `json:"nth"`
	Steps    int    `json:"steps"`
	Trunc    bool   `json:"trunc"`
}

type fsExpect struct {
	C         fsCase   `json:"c"`
	Live      []string `json:"live"`
	Surfaced  bool     `json:"surfaced"`
	CloseErr  bool     `json:"closeErr"`
	Fired     bool     `json:"fired"`
	Inspected bool     `json:"inspected"`
}

type fsObs struct {
	Spill       int
	Uploads     int
	Surfaced    bool
	How         []string
	CloseErr    bool
	HookFired   bool
	Panic       string
	ProbeOK     bool
	ProbeDetail string
}

// the fault hook is process-wide: C20 cases run one at a time
var fsMu sync.Mutex

func multipartBody(nfiles int, trunc bool) (string, string) {
	b := "verifboundary"
	var sb strings.Builder
	sb.WriteString("--" + b + "\r\nContent-Disposition: form-data; name=\"field1\"\r\n\r\nvalue1\r\n")
	for i := 1; i <= nfiles; i++ {
		fmt.Fprintf(&sb, "--%s\r\nContent-Disposition: form-data; name=\"file%d\"; filename=\"f%d.txt\"\r\nContent-Type: text/plain\r\n\r\n%s\r\n", b, i, i, strings.Repeat(fmt.Sprint(i), 40))
	}
	sb.WriteString("--" + b + "--\r\n")
	if trunc && nfiles > 0 {
		// cut in the middle of the content of the last file part
		full := sb.String()
		cut := strings.LastIndex(full, strings.Repeat(fmt.Sprint(nfiles), 40)) + 20
		return full[:cut], "multipart/form-data; boundary=" + b
	}
	return sb.String(), "multipart/form-data; boundary=" + b
}

func listDir(dir, prefix string) int {
	ents, _ := os.ReadDir(dir)
	n := 0
	for _, e := range ents {
		if strings.HasPrefix(e.Name(), prefix) {
			n++
		}
	}
	return n
}

func fsRun(c fsCase, base string, idx int) (o fsObs) {
	fsMu.Lock()
	defer fsMu.Unlock()
	tmp := filepath.Join(base, fmt.Sprintf("t%d", idx))
	up := filepath.Join(base, fmt.Sprintf("u%d", idx))
	_ = os.MkdirAll(tmp, 0o755)
	_ = os.MkdirAll(up, 0o755)
	defer os.RemoveAll(tmp)
	defer os.RemoveAll(up)
	mem := 1 << 20
	if c.Spill {
		mem = 16
	}
	logAct := "nolog"
	if c.Relevant {
		logAct = "log"
	}
	limit := "1048576"
	if c.Limit == "reached" {
		limit = "60\nSecRequestBodyLimitAction ProcessPartial"
	}
	text := fmt.Sprintf(`SecRuleEngine On
SecRequestBodyAccess On
SecRequestBodyLimit %s
SecRequestBodyInMemoryLimit %d
SecUploadDir %s
SecUploadKeepFiles %s
SecRule ARGS_POST:field1 "@streq value1" "id:10,phase:2,pass,%s"
SecAction "id:20,phase:5,pass,nolog"
`, limit, mem, up, c.Keep, logAct)
	if c.Audit {
		text += fmt.Sprintf("SecAuditEngine On\nSecAuditLogParts ABCZ\nSecAuditLogType Serial\nSecAuditLogFormat json\nSecAuditLog %s\n", filepath.Join(up, "audit.log"))
	}
	var logbuf bytes.Buffer
	logger := debuglog.Default().WithOutput(&logbuf).WithLevel(debuglog.LevelError)
	// SecTmpDir is not implemented by the library: the spill directory is os.TempDir() at NewWAF time
	oldTmp, hadTmp := os.LookupEnv("TMPDIR")
	os.Setenv("TMPDIR", tmp)
	w, err := coraza.NewWAF(coraza.NewWAFConfig().WithDirectives(text).WithDebugLogger(logger))
	if hadTmp {
		os.Setenv("TMPDIR", oldTmp)
	} else {
		os.Unsetenv("TMPDIR")
	}
	if err != nil {
		o.Panic = "config rejected: " + err.Error()
		return
	}
	defer closeAny(w)
	counts := map[string]int{}
	armed := c.Arm != "logging"
	verif.FaultHook = func(point string) error {
		if !armed {
			return nil
		}
		counts[point]++
		if point == c.Point && counts[point] == c.Nth {
			o.HookFired = true
			return errors.New("verif: injected " + point + " failure")
		}
		return nil
	}
	defer func() { verif.FaultHook = nil }()
	surf := func(how string) {
		o.Surfaced = true
		o.How = append(o.How, how)
	}
	func() {
		defer func() {
			if r := recover(); r != nil {
				o.Panic = fmt.Sprint(r)
			}
		}()
		tx := w.NewTransaction()
		itx := tx.(*corazawaf.Transaction)
		body, ct := multipartBody(c.NFiles, c.Trunc)
		tx.ProcessConnection("10.0.0.1", 1, "10.0.0.2", 80)
		tx.ProcessURI("/u", "POST", "HTTP/1.1")
		tx.AddRequestHeader("Host", "h")
		tx.AddRequestHeader("Content-Type", ct)
		tx.ProcessRequestHeaders()
		// step 1
		var it *types.Interruption
		var err error
		switch c.Entry {
		case "known":
			it, _, err = tx.ReadRequestBodyFrom(strings.NewReader(body))
		case "unknown":
			it, _, err = tx.ReadRequestBodyFrom(struct{ io.Reader }{strings.NewReader(body)})
		default:
			it, _, err = tx.WriteRequestBody([]byte(body))
		}
		if err != nil {
			surf("request body write (" + c.Entry + ") error: " + err.Error())
		} else if it != nil {
			surf("request body write interruption")
		}
		if c.Steps >= 2 {
			if it, err := tx.ProcessRequestBody(); err != nil {
				surf("ProcessRequestBody error: " + err.Error())
			} else if it != nil {
				surf("ProcessRequestBody interruption")
			}
			v := itx.Variables()
			if v.RequestBodyError().Get() == "1" {
				surf("REQBODY_ERROR=1 (" + v.RequestBodyErrorMsg().Get() + ")")
			}
			if v.MultipartStrictError().Get() == "1" {
				surf("MULTIPART_STRICT_ERROR=1")
			}
		}
		if c.Steps >= 3 {
			tx.ProcessResponseHeaders(200, "HTTP/1.1")
			_, _ = tx.ProcessResponseBody()
			armed = true
			tx.ProcessLogging()
		}
		if err := tx.Close(); err != nil {
			o.CloseErr = true
			surf("Close error: " + err.Error())
		}
	}()
	verif.FaultHook = nil
	if logbuf.Len() > 0 {
		surf("debug log entry: " + strings.TrimSpace(strings.SplitN(logbuf.String(), "\n", 2)[0]))
	}
	o.Spill = listDir(tmp, "body")
	o.Uploads = listDir(up, "crzmp")
	// the recycled transaction object works normally
	func() {
		defer func() {
			if r := recover(); r != nil {
				o.ProbeDetail = "probe panicked: " + fmt.Sprint(r)
			}
		}()
		run := func(w coraza.WAF) string {
			tx := w.NewTransaction()
			tx.ProcessURI("/u", "POST", "HTTP/1.1")
			tx.AddRequestHeader("Content-Type", "application/x-www-form-urlencoded")
			var its []string
			its = append(its, intrStr(tx.ProcessRequestHeaders()))
			it, _, err := tx.WriteRequestBody([]byte("field1=value1&z=" + strings.Repeat("z", 40)))
			its = append(its, intrStr(it), fmt.Sprint(err))
			it, err = tx.ProcessRequestBody()
			its = append(its, intrStr(it), fmt.Sprint(err))
			tx.ProcessLogging()
			var ids []int
			for _, mr := range tx.MatchedRules() {
				ids = append(ids, mr.Rule().ID())
			}
			cerr := tx.Close()
			return fmt.Sprint(its, ids, cerr)
		}
		a := run(w)
		os.Setenv("TMPDIR", tmp)
		fresh, err := coraza.NewWAF(coraza.NewWAFConfig().WithDirectives(text))
		if hadTmp {
			os.Setenv("TMPDIR", oldTmp)
		} else {
			os.Unsetenv("TMPDIR")
		}
		if err != nil {
			return
		}
		defer closeAny(fresh)
		b := run(fresh)
		o.ProbeOK = a == b
		if !o.ProbeOK {
			o.ProbeDetail = "after the faulty transaction: " + a + " ; on a fresh WAF: " + b
		}
		if n := listDir(tmp, "body"); n != o.Spill {
			o.ProbeOK = false
			o.ProbeDetail = fmt.Sprintf("the probe transaction left %d more spill file(s) behind", n-o.Spill)
		}
	}()
	return
}

var _ types.Transaction

// C20: failures are reported, never swallowed, and no temporary files are left behind.
func C20(run *vf.Run) {
	run.Rule = "FsFault.tla: the file-system life of a transaction (spill create / copy / write / read, upload create / copy, removal at Close, buffer close / remove) with one injected failure at any operation (nth occurrence) and abandonment after any API call, for memory and disk buffered bodies, multipart uploads with 0..2 files and all keep-files modes; TLC checks NoLeak, Surfaced, NoSilentInspection on every behaviour and emits every case; each case is replayed on the real library with the verif fault hook firing exactly at the chosen operation: private temp/upload directories are listed after Close, returned errors, REQBODY_ERROR / MULTIPART_STRICT_ERROR and error-level debug log entries are collected, and a probe transaction on the same WAF is compared with a fresh WAF. Audit-writer failure is exercised against /dev/full. Non-trivial = case in which the fault really fired or files were created"
	run.Exhaustive = true
	run.Assume("the fault hook (internal/verif) fails exactly the file-system operation it precedes; real ENOSPC/EIO conditions are represented by it")
	var exps []fsExpect
	var mu sync.Mutex
	res, err := vf.RunTLC(vf.TLCOpts{Module: "FsFault", Cfg: "FsFault.cfg", Workers: 4, Timeout: 10 * time.Minute,
		OnOut: func(raw json.RawMessage) {
			var e fsExpect
			if json.Unmarshal(raw, &e) == nil {
				mu.Lock()
				exps = append(exps, e)
				mu.Unlock()
			}
		}})
	if err != nil {
		run.Inconclusive("FsFault: %v", err)
		return
	}
	run.AddTLC(res)
	run.Logf("FsFault.tla: %s; %d cases", res.Describe(), len(exps))
	if res.Violated != "" {
		run.Inconclusive("FsFault.tla invariant %s violated in TLC:\n%s", res.Violated, res.ErrorText)
		return
	}
	if !res.OK() || len(exps) == 0 {
		run.Inconclusive("FsFault.tla: TLC did not complete: %s", res.Describe())
		return
	}
	sort.Slice(exps, func(i, j int) bool { return fmt.Sprint(exps[i].C) < fmt.Sprint(exps[j].C) })
	base, _ := os.MkdirTemp("", "verif-c20-")
	defer os.RemoveAll(base)
	reported := map[string]bool{}
	report := func(kind string, e fsExpect, o fsObs, detail string) {
		sig := "fs:" + kind + "|" + e.C.Point
		if reported[sig] {
			return
		}
		reported[sig] = true
		run.Violate(vf.Violation{Signature: sig, What: fmt.Sprintf("%s: %s || case %+v || observed %+v || specified live=%v surfaced=%v closeErr=%v", kind, detail, e.C, o, e.Live, e.Surfaced, e.CloseErr),
			Replay: map[string]any{"family": "fsfault", "case": e.C, "specified": e, "observed": o}})
	}
	for i, e := range exps {
		o := fsRun(e.C, base, i)
		nt := ""
		if o.HookFired || o.Spill+o.Uploads > 0 || e.C.NFiles > 0 || e.C.Spill {
			nt = fmt.Sprint(e.C)
		}
		run.Eval(nt)
		if i%53 == 0 {
			run.Sample(map[string]any{"case": e.C, "specified": map[string]any{"live": e.Live, "surfaced": e.Surfaced, "closeErr": e.CloseErr}, "observed": o})
		}
		if o.Panic != "" {
			report("panic", e, o, o.Panic)
			continue
		}
		if e.Fired != o.HookFired {
			// the model and the code disagree on whether the operation is reached at all: a modelling gap
			run.Inconclusive("FsFault.tla and the code disagree on whether fault point %s (occurrence %d) is reached in case %+v (model %v, code %v)", e.C.Point, e.C.Nth, e.C, e.Fired, o.HookFired)
			continue
		}
		wantSpill, wantUp := 0, 0
		for _, f := range e.Live {
			if f == "spill" {
				wantSpill++
			} else {
				wantUp++
			}
		}
		if o.Spill > wantSpill {
			report("spill-file-left-behind", e, o, fmt.Sprintf("%d body spill file(s) remain after Close, specification allows %d", o.Spill, wantSpill))
		}
		if o.Uploads > wantUp {
			report("upload-file-left-behind", e, o, fmt.Sprintf("%d upload temp file(s) remain after Close, specification allows %d", o.Uploads, wantUp))
		}
		if o.Uploads < wantUp && e.C.Point == "none" {
			report("retained-upload-missing", e, o, fmt.Sprintf("upload retention is configured but only %d of %d files remain", o.Uploads, wantUp))
		}
		if o.HookFired && !o.Surfaced {
			report("failure-swallowed", e, o, "the injected failure surfaced neither as a returned error, nor as an error variable, nor as a log entry")
		}
		if !o.ProbeOK && o.ProbeDetail != "" {
			report("recycled-transaction-misbehaves", e, o, o.ProbeDetail)
		}
	}
	c20Audit(run)
	c20Truncated(run)
	c20HandlerPanic(run)
}

// c20Truncated: a multipart body cut at every offset. Go's mime/multipart is the reference reader: where it
// reports a failure other than "ended in the middle of a part" (which the library tolerates on purpose: a body
// cut at the limit under ProcessPartial looks like that) the failure must be reported - REQBODY_ERROR,
// MULTIPART_STRICT_ERROR or an error returned by ProcessRequestBody - and no temporary file may be left.
func c20Truncated(run *vf.Run) {
	full := "--X\r\nContent-Disposition: form-data; name=\"a\"\r\n\r\nv1\r\n--X\r\nContent-Disposition: form-data; name=\"f\"; filename=\"x.txt\"\r\nContent-Type: text/plain\r\n\r\nfile-data\r\n--X--\r\n"
	up, _ := os.MkdirTemp("", "verif-c20up-")
	defer os.RemoveAll(up)
	text := fmt.Sprintf("SecRuleEngine On\nSecRequestBodyAccess On\nSecUploadDir %s\nSecUploadKeepFiles Off\nSecRule REQBODY_ERROR|MULTIPART_STRICT_ERROR \"!@eq 0\" \"id:20,phase:2,pass,nolog\"\n", up)
	w, err := coraza.NewWAF(coraza.NewWAFConfig().WithDirectives(text))
	if err != nil {
		run.Inconclusive("truncated-multipart configuration rejected: %v", err)
		return
	}
	defer closeAny(w)
	for cut := 1; cut <= len(full); cut++ {
		body := full[:cut]
		// reference classification
		kind := "complete"
		mr := multipart.NewReader(strings.NewReader(body), "X")
		for {
			p, err := mr.NextPart()
			if err == io.EOF {
				break
			}
			if err != nil {
				if errors.Is(err, io.ErrUnexpectedEOF) {
					kind = "cut-inside-a-part"
				} else {
					kind = "malformed"
				}
				break
			}
			if _, err := io.ReadAll(p); err != nil {
				if errors.Is(err, io.ErrUnexpectedEOF) {
					kind = "cut-inside-a-part"
				} else {
					kind = "malformed"
				}
				break
			}
		}
		flagged := false
		tx := w.NewTransaction()
		tx.ProcessURI("/p", "POST", "HTTP/1.1")
		tx.AddRequestHeader("Content-Type", "multipart/form-data; boundary=X")
		tx.ProcessRequestHeaders()
		_, _, werr := tx.WriteRequestBody([]byte(body))
		it, perr := tx.ProcessRequestBody()
		for _, mr := range tx.MatchedRules() {
			if mr.Rule().ID() == 20 {
				flagged = true
			}
		}
		if werr != nil || perr != nil || it != nil {
			flagged = true
		}
		tx.ProcessLogging()
		_ = tx.Close()
		ents, _ := os.ReadDir(up)
		run.Eval(fmt.Sprintf("truncated-%d-%s", cut, kind))
		if len(ents) > 0 {
			run.Violate(vf.Violation{Signature: "fs:temp-file-left|truncated-multipart", What: fmt.Sprintf("a multipart body cut after %d of %d bytes left %d file(s) in the upload directory after Close", cut, len(full), len(ents)),
				Replay: map[string]any{"family": "truncated-multipart", "cut": cut, "body": body}})
			for _, e := range ents {
				_ = os.Remove(filepath.Join(up, e.Name()))
			}
			return
		}
		if kind == "malformed" && !flagged {
			run.Violate(vf.Violation{Signature: "fs:failure-swallowed|truncated-multipart", What: fmt.Sprintf("a multipart body cut after %d of %d bytes (%q) cannot be read to its end (mime/multipart reports a failure that is not a cut inside a part), yet REQBODY_ERROR / MULTIPART_STRICT_ERROR stay 0 and no call returned an error or interruption",
				cut, len(full), body[max(0, cut-24):]), Replay: map[string]any{"family": "truncated-multipart", "cut": cut, "body": body, "directives": text}})
			return
		}
	}
}

// c20HandlerPanic: behind the net/http middleware a handler that panics (net/http recovers, e.g. ErrAbortHandler of
// a reverse proxy) must not leave the transaction's temporary files behind.
func c20HandlerPanic(run *vf.Run) {
	tmp, _ := os.MkdirTemp("", "verif-c20mw-")
	defer os.RemoveAll(tmp)
	up := filepath.Join(tmp, "up")
	_ = os.MkdirAll(up, 0o755)
	old := os.Getenv("TMPDIR")
	os.Setenv("TMPDIR", tmp)
	defer os.Setenv("TMPDIR", old)
	text := fmt.Sprintf("SecRuleEngine On\nSecRequestBodyAccess On\nSecRequestBodyLimit 100000\nSecRequestBodyInMemoryLimit 16\nSecUploadDir %s\nSecUploadKeepFiles Off\n", up)
	w, err := coraza.NewWAF(coraza.NewWAFConfig().WithDirectives(text))
	if err != nil {
		run.Inconclusive("handler-panic configuration rejected: %v", err)
		return
	}
	defer closeAny(w)
	ts := httptest.NewServer(corazahttp.WrapHandler(w, http.HandlerFunc(func(rw http.ResponseWriter, r *http.Request) {
		_, _ = io.ReadAll(r.Body)
		panic(http.ErrAbortHandler)
	})))
	defer ts.Close()
	body := "--X\r\nContent-Disposition: form-data; name=\"f\"; filename=\"x.txt\"\r\n\r\n" + strings.Repeat("d", 200) + "\r\n--X--\r\n"
	req, _ := http.NewRequest("POST", ts.URL+"/p", strings.NewReader(body))
	req.Header.Set("Content-Type", "multipart/form-data; boundary=X")
	client := &http.Client{Timeout: 10 * time.Second, Transport: &http.Transport{DisableKeepAlives: true}}
	if resp, err := client.Do(req); err == nil {
		_, _ = io.Copy(io.Discard, resp.Body)
		resp.Body.Close()
	}
	time.Sleep(200 * time.Millisecond) // the server goroutine unwinds after the client saw the connection drop
	var left []string
	for _, d := range []string{tmp, up} {
		ents, _ := os.ReadDir(d)
		for _, e := range ents {
			if !e.IsDir() {
				left = append(left, e.Name())
			}
		}
	}
	run.Eval("handler-panic")
	if len(left) > 0 {
		run.Violate(vf.Violation{Signature: "fs:temp-file-left|handler-panic", What: fmt.Sprintf("the wrapped handler panicked (http.ErrAbortHandler) after a multipart upload larger than the in-memory limit: %v left behind in the temporary / upload directories", left),
			Replay: map[string]any{"family": "handler-panic", "directives": text}})
	}
}

// c20Audit: failure of audit writing must surface as a log entry (ProcessLogging returns nothing).
func c20Audit(run *vf.Run) {
	scratch, _ := os.MkdirTemp("", "verif-c20audit-")
	defer os.RemoveAll(scratch)
	notADir := filepath.Join(scratch, "file")
	_ = os.WriteFile(notADir, []byte("x"), 0o644)
	okStore := filepath.Join(scratch, "store")
	_ = os.MkdirAll(okStore, 0o755)
	for _, typ := range []string{"Serial", "Concurrent-index", "Concurrent-store"} {
		var logbuf bytes.Buffer
		logger := debuglog.Default().WithOutput(&logbuf).WithLevel(debuglog.LevelError)
		text := fmt.Sprintf("SecRuleEngine On\nSecAuditEngine On\nSecAuditLogParts ABCFHZ\nSecAuditLogType %s\nSecAuditLogFormat json\nSecAuditLog /dev/full\nSecAction \"id:1,phase:1,pass,log,auditlog\"\n", typ)
		switch typ {
		case "Concurrent-index": // the record file can be written, the index line cannot (ENOSPC)
			text = fmt.Sprintf("SecRuleEngine On\nSecAuditEngine On\nSecAuditLogParts ABCFHZ\nSecAuditLogType Concurrent\nSecAuditLogFormat json\nSecAuditLog /dev/full\nSecAuditLogStorageDir %s\nSecAction \"id:1,phase:1,pass,log,auditlog\"\n", okStore)
		case "Concurrent-store": // the storage directory cannot be created (a regular file is in the way)
			text = fmt.Sprintf("SecRuleEngine On\nSecAuditEngine On\nSecAuditLogParts ABCFHZ\nSecAuditLogType Concurrent\nSecAuditLogFormat json\nSecAuditLog %s\nSecAuditLogStorageDir %s\nSecAction \"id:1,phase:1,pass,log,auditlog\"\n", filepath.Join(scratch, "index.log"), filepath.Join(notADir, "sub"))
		}
		w, err := coraza.NewWAF(coraza.NewWAFConfig().WithDirectives(text).WithDebugLogger(logger))
		if err != nil {
			run.Extra["audit_dev_full"] = "configuration rejected: " + err.Error()
			return
		}
		tx := w.NewTransaction()
		tx.ProcessURI("/", "GET", "HTTP/1.1")
		tx.ProcessRequestHeaders()
		tx.ProcessLogging()
		cerr := tx.Close()
		closeAny(w)
		run.Eval("audit-write-failure-" + typ)
		if logbuf.Len() == 0 && cerr == nil {
			run.Violate(vf.Violation{Signature: "fs:failure-swallowed|audit.write." + typ,
				What:   "writing the audit record to /dev/full (ENOSPC) failed and nothing reported it: no error-level log entry, no returned error (audit log type " + typ + ")",
				Replay: map[string]any{"family": "fsfault-audit", "directives": text}})
		}
	}
}
