// Package props holds one check per property.
package props

import (
	"encoding/json"
	"fmt"
	"os"

	"github.com/corazawaf/coraza/v3/verifharness/eng"
	"github.com/corazawaf/coraza/v3/verifharness/vf"
)

// Registry maps a property id to its check.
var Registry = map[string]func(*vf.Run){}

// Replay re-runs the scenario of a replay file and prints what the real library does.
func Replay(run *vf.Run, id, path string) int {
	b, err := os.ReadFile(path)
	if err != nil {
		fmt.Fprintln(os.Stderr, err)
		return 2
	}
	var doc struct {
		Replay struct {
			Scenario   *eng.Scen `json:"scenario"`
			SpecAllows []string  `json:"spec_allows"`
		} `json:"replay"`
	}
	if err := json.Unmarshal(b, &doc); err != nil || doc.Replay.Scenario == nil {
		fmt.Fprintf(os.Stderr, "replay file %s has no engine scenario (%v); re-run the check to reproduce\n", path, err)
		return 2
	}
	obs := eng.Run(doc.Replay.Scenario, eng.RunOpts{})
	k := obs.Out.Key(eng.ProjOpts{})
	fmt.Printf("directives:\n%s\nobserved: %s\npanic=%q compile=%q\nspec allows: %v\n", obs.Text, k, obs.Panic, obs.CompileEr, doc.Replay.SpecAllows)
	for _, a := range doc.Replay.SpecAllows {
		if a == k {
			return 0
		}
	}
	fmt.Printf("VIOLATION property=%s replay=%s\n", id, path)
	return 1
}
