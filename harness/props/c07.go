package props

import (
	"bytes"
	"encoding/json"
	"fmt"
	"math/rand"
	"os"
	"regexp"
	"runtime"
	"sort"
	"strings"
	"sync"
	"time"

	coraza "github.com/corazawaf/coraza/v3"
	"github.com/corazawaf/coraza/v3/experimental/plugins"
	"github.com/corazawaf/coraza/v3/experimental/plugins/plugintypes"
	"github.com/corazawaf/coraza/v3/types"
	"github.com/corazawaf/coraza/v3/verifharness/vf"
)

func init() { Registry["C07"] = C07 }

func extract(path, pattern string) []string {
	b, err := os.ReadFile(path)
	if err != nil {
		return nil
	}
	set := map[string]bool{}
	for _, m := range regexp.MustCompile(pattern).FindAllStringSubmatch(string(b), -1) {
		set[m[1]] = true
	}
	var out []string
	for k := range set {
		out = append(out, k)
	}
	sort.Strings(out)
	return out
}

func extractGlob(glob, pattern string) []string {
	set := map[string]bool{}
	files, _ := filepathGlob(glob)
	for _, f := range files {
		if strings.HasSuffix(f, "_test.go") {
			continue
		}
		for _, x := range extract(f, pattern) {
			set[x] = true
		}
	}
	var out []string
	for k := range set {
		out = append(out, k)
	}
	sort.Strings(out)
	return out
}

func tlaSet(xs []string) string {
	q := make([]string, len(xs))
	for i, x := range xs {
		q[i] = `"` + x + `"`
	}
	return "{" + strings.Join(q, ", ") + "}"
}

// repoRoot is the source tree the harness is linked against (the registries are read from it).
func repoRoot() string {
	if r := os.Getenv("VERIF_REPO"); r != "" {
		return r
	}
	// the harness go.mod replace points at it
	if b, err := os.ReadFile(harnessDir() + "/go.mod"); err == nil {
		if m := regexp.MustCompile(`=> (\S+)`).FindStringSubmatch(string(b)); m != nil {
			return m[1]
		}
	}
	return "/repo"
}

type c07Case struct {
	F string `json:"f"`
	X string `json:"x"`
	Y string `json:"y"`
}

var goodOpArg = map[string]string{"rx": "a+b", "pm": "abc def", "pmf": "words.txt", "pmFromFile": "words.txt", "pmFromDataset": "ds", "ipMatch": "10.0.0.0/8,::1", "ipMatchF": "ips.txt", "ipMatchFromFile": "ips.txt",
	"ipMatchFromDataset": "ipds", "eq": "1", "ge": "1", "gt": "1", "le": "1", "lt": "1", "validateByteRange": "32-126,10", "validateNid": "cl .*", "restpath": "/a/{id}/b", "within": "a b c",
	"streq": "x", "contains": "x", "beginsWith": "x", "endsWith": "x", "strmatch": "x", "geoLookup": "", "rbl": "example.com", "inspectFile": "/bin/true", "validateSchema": "schema.json",
	"detectSQLi": "", "detectXSS": "", "noMatch": "", "unconditionalMatch": "", "validateUrlEncoding": "", "validateUtf8Encoding": ""}

const c07Prelude = "SecRuleEngine On\nSecRequestBodyAccess On\nSecResponseBodyAccess On\nSecResponseBodyMimeType text/plain\nSecAuditEngine On\nSecAuditLogParts ABCDEFGHIJKZ\nSecAuditLogType verifc07\nSecDataset ds `\nabc\ndef\n`\nSecDataset ipds `\n10.0.0.1\n`\n"

// the audit log writer of this check: every record is formatted with the configured formatter and dropped
type c07AuditWriter struct{ f plugintypes.AuditLogFormatter }

func (w *c07AuditWriter) Init(c plugintypes.AuditLogConfig) error { w.f = c.Formatter; return nil }
func (w *c07AuditWriter) Write(al plugintypes.AuditLog) error {
	if w.f != nil {
		_, err := w.f.Format(al)
		return err
	}
	return nil
}
func (w *c07AuditWriter) Close() error { return nil }

var c07Once sync.Once
var c07Tmp string

// what an embedder's error callback typically does with a matched rule
func c07ErrorCallback(mr types.MatchedRule) {
	_ = mr.ErrorLog()
	_ = mr.AuditLog()
	_ = mr.Message() + mr.Data() + mr.URI() + mr.TransactionID()
	for _, md := range mr.MatchedDatas() {
		_ = md.Key() + md.Value() + md.Message() + md.Data()
	}
}

func c07Render(c c07Case, r *rand.Rand) string {
	rule := func(vars, op, acts string) string {
		return fmt.Sprintf("SecRule %s \"%s\" \"id:1,phase:2,pass%s\"\n", vars, op, acts)
	}
	switch c.F {
	case "var":
		v := c.X
		switch c.Y {
		case "plain":
			return rule(v, "@rx .", ",msg:'%{MATCHED_VAR_NAME}',logdata:'%{MATCHED_VAR}'")
		case "count":
			return rule("&"+v, "@ge 0", "")
		case "key":
			return rule(v+":foo", "@rx .", "")
		case "rxkey":
			return rule(v+":/^fo/|"+v+":'/^ba/'", "@rx .", "") // plain and quoted regex key (the quoted one ends the list)
		case "rxopen": // regex keys left open at the end of the list: quote missing, slash missing, both
			return rule("ARGS|"+v+":'/^ba/", "@rx .", "") + strings.Replace(rule("&"+v+":'/^ba", "@rx .", ""), "id:1,", "id:2,", 1) + strings.Replace(rule("!"+v+":/^ba", "@rx .", ""), "id:1,", "id:3,", 1)
		case "neg":
			return rule("ARGS|!"+v, "@rx .", "")
		case "negkey":
			return rule(v+"|!"+v+":foo", "@rx .", "")
		case "negrx":
			return rule(v+"|!"+v+":/^fo/", "@rx .", "")
		case "macro":
			return rule("ARGS", "@streq %{"+v+"}", ",msg:'%{"+v+"}',logdata:'%{"+strings.ToLower(v)+"}'")
		case "macrokey":
			return rule("ARGS", "@rx .", ",msg:'%{"+v+".foo}',setvar:'tx.a=%{"+v+".foo}',setvar:'tx.%{"+v+".foo}=1'")
		case "setvarkey":
			return rule("ARGS", "@rx .", ",setvar:'"+strings.ToLower(v)+".foo=1',setvar:'!"+strings.ToLower(v)+".foo'")
		case "ctltarget":
			return "SecAction \"id:2,phase:1,pass,ctl:ruleRemoveTargetById=1;" + v + ":foo,ctl:ruleRemoveTargetByTag=t;" + v + ",ctl:ruleRemoveTargetById=1;" + v + ":/^f/\"\n" + rule(v+"|ARGS", "@rx .", ",tag:'t'")
		case "updatetarget":
			return rule("ARGS", "@rx .", ",tag:'t'") + "SecRuleUpdateTargetById 1 \"" + v + ":foo|!" + v + ":bar\"\nSecRuleUpdateTargetByTag t \"!" + v + "\"\n"
		}
	case "op":
		arg := goodOpArg[c.X]
		switch c.Y {
		case "good":
		case "empty":
			arg = ""
		case "macro":
			arg = "%{tx.missing}"
		case "openmacro":
			arg = "%{"
		case "weird":
			arg = "\\ (|[ \xff%zz -5 999999999999999999999"
		case "negated":
			return rule("ARGS|REQUEST_HEADERS|REQUEST_BODY", strings.TrimSpace("!@"+c.X+" "+arg), ",capture")
		}
		return rule("ARGS|REQUEST_HEADERS|REQUEST_BODY|TX", strings.TrimSpace("@"+c.X+" "+arg), ",capture,setvar:'tx.c=%{tx.0}%{tx.9}'")
	case "act":
		a := c.X
		val := map[string]string{"status": "403", "skip": "1", "skipAfter": "M", "severity": "2", "phase": "2", "id": "7", "maturity": "1", "t": "lowercase", "redirect": "http://x/", "setvar": "tx.a=1",
			"ctl": "ruleEngine=On", "setenv": "a=b", "expirevar": "tx.a=3", "initcol": "ip=%{REMOTE_ADDR}", "exec": "/bin/true", "allow": "phase", "tag": "x", "msg": "m", "logdata": "d", "rev": "1", "ver": "1"}[a]
		spell := a
		switch c.Y {
		case "bare":
		case "value":
			spell = a + ":" + val
		case "quoted":
			spell = a + ":'" + val + "'"
		case "empty":
			spell = a + ":"
		case "macro":
			spell = a + ":'%{tx.x}%{'"
		case "openmacro":
			spell = a + ":'%{'"
			if a == "setvar" {
				spell = "setvar:'tx.a=%{'"
			}
		case "emptymacro":
			spell = a + ":'%{}'"
			if a == "setvar" {
				spell = "setvar:'tx.a=%{tx.empty}',setvar:'tx.b=%{request_headers.user-agent}'"
			}
		case "plus":
			spell = a + ":'tx.n=+%{tx.missing}'"
		case "minus":
			spell = a + ":'tx.n=-5'"
		case "bang":
			spell = a + ":'!tx.n'"
		case "dup":
			spell = a + ":" + val + "," + a + ":" + val
		case "upper":
			spell = strings.ToUpper(a) + ":" + val
		}
		return "SecAction \"id:1,phase:1," + spell + "\"\nSecMarker M\nSecRule ARGS \"@rx .\" \"id:2,phase:2," + spell + ",chain\"\n  SecRule ARGS \"@rx .\" \"" + spell + "\"\n"
	case "tf":
		t := "t:" + c.X
		switch c.Y {
		case "after-none":
			t = "t:none,t:" + c.X
		case "twice":
			t = "t:" + c.X + ",t:" + c.X
		case "multimatch":
			t = "t:" + c.X + ",t:lowercase,multiMatch"
		}
		return rule("ARGS|REQUEST_HEADERS|REQUEST_BODY|REQUEST_URI", "@rx .", ","+t)
	case "ctl":
		val := map[string]string{"good": "On", "boundary": "0", "negative": "-5", "garbage": "x;y=z;%{tx.a}", "empty": ""}[c.Y]
		if c.Y == "good" {
			switch {
			case strings.Contains(strings.ToLower(c.X), "limit"):
				val = "10"
			case strings.Contains(c.X, "ById"):
				val = "1"
			case strings.Contains(c.X, "Parts"):
				val = "+E"
			case strings.Contains(c.X, "Processor"):
				val = "JSON"
			case strings.Contains(c.X, "ruleRemoveTarget"):
				val = "1;ARGS:foo"
			case strings.Contains(c.X, "auditEngine"):
				val = "RelevantOnly"
			}
		}
		pre := ""
		if strings.Contains(strings.ToLower(c.X), "limit") {
			// a limit changed at run time meets bytes that were buffered under the old one, under the action that keeps a part
			pre = "SecRequestBodyLimitAction ProcessPartial\nSecResponseBodyLimitAction ProcessPartial\nSecAction \"id:3,phase:3,pass,ctl:" + c.X + "=" + val + "\"\n"
		}
		return pre + "SecAction \"id:1,phase:1,pass,ctl:" + c.X + "=" + val + "\"\nSecRule ARGS \"@rx .\" \"id:2,phase:2,pass\"\n"
	case "dir":
		val := map[string]string{"good": "On", "boundary": "0", "negative": "-5", "garbage": "\"x y\" \\", "empty": "", "quoted": "\"1\""}[c.Y]
		if strings.HasPrefix(c.Y, "=") { // one word of the directive's documented list
			val = c.Y[1:]
			if val == "Concurrent" && r.Intn(2) == 0 && c07Tmp != "" {
				return c.X + " " + val + "\nSecAuditLogStorageDir " + c07Tmp + "\n" + rule("ARGS", "@rx .", "")
			}
		}
		return c.X + " " + val + "\n" + rule("ARGS", "@rx .", "")
	}
	return ""
}

func mutate(r *rand.Rand, s string) string {
	if len(s) == 0 {
		return s
	}
	b := []byte(s)
	i := r.Intn(len(b))
	switch r.Intn(4) {
	case 0:
		return string(append(b[:i:i], b[i+1:]...))
	case 1:
		return string(append(append(append([]byte{}, b[:i]...), b[i]), b[i:]...))
	case 2:
		b[i] ^= byte(1 << uint(r.Intn(8)))
		return string(b)
	default:
		return s[:i] + string("\"'\\,:|!&%{}/ \n"[r.Intn(14)]) + s[i:]
	}
}

type traffic struct {
	name, method, uri, ct, body string
	headers                     map[string]string
	order                       string // call order: c canonical, b body-first, r response-first
}

var c07Traffic = []traffic{
	{"get", "GET", "/p?foo=bar&foo=baz&x=%41%zz+1", "", "", map[string]string{"Cookie": "foo=bar; =x; a", "User-Agent": "ua"}, "c"},
	{"urlencoded", "POST", "/p", "application/x-www-form-urlencoded", "foo=bar&foo=%zz&=&&a=b%", nil, "c"},
	{"json", "POST", "/p", "application/json", `{"foo":{"bar":[1,"x",null,{"a":true}]},"":1,"a.b":2}`, nil, "c"},
	{"badjson", "POST", "/p", "application/json", `{"foo":[1,`, nil, "c"},
	{"xml", "POST", "/p", "text/xml", `<a foo="bar"><b>x</b><c/></a>`, nil, "c"},
	{"badxml", "POST", "/p", "text/xml", `<a><b></a>`, nil, "c"},
	{"multipart", "POST", "/p", "multipart/form-data; boundary=b", "--b\r\nContent-Disposition: form-data; name=\"foo\"\r\n\r\nbar\r\n--b\r\nContent-Disposition: form-data; name=\"f\"; filename=\"x.txt\"\r\n\r\ndata\r\n--b--\r\n", nil, "c"},
	{"badmultipart", "POST", "/p", "multipart/form-data; boundary=b", "--b\r\nContent-Disposition: form-data; name=\"foo", nil, "c"},
	{"gettrunc", "GET", "/p?foo=%4", "", "", map[string]string{"Cookie": "foo=%4; b=%", "X-T": "%4"}, "c"},
	{"gettrunc2", "GET", "/p?foo%a", "", "", nil, "c"},
	{"urlencodedtrunc", "POST", "/p?x=%", "application/x-www-form-urlencoded", "foo%a=v&bar=%4", nil, "c"},
	{"longcont", "GET", "/p?foo=" + strings.Repeat("%80", 300) + "&" + strings.Repeat("%BF", 290) + "=1&bar=" + strings.Repeat("%C3%A9", 150), "", "", map[string]string{"Cookie": "foo=" + strings.Repeat("\xa9", 300), "X-T": strings.Repeat("\x80", 281)}, "c"},
	{"longbody", "POST", "/p", "application/x-www-form-urlencoded", "foo=" + strings.Repeat("%80", 281) + "&bar=" + strings.Repeat("%E2%82%AC", 100) + "&baz=" + strings.Repeat("a", 279) + "%C3%A9", nil, "c"},
	{"bodyfirst", "POST", "/p?foo=1", "application/x-www-form-urlencoded", "foo=bar", nil, "b"},
	{"responsefirst", "GET", "/\xff%00?foo", "", "", map[string]string{"Foo": "\xff\x00", "Content-Length": "-1"}, "r"},
}

// drive pushes one traffic shape through a WAF; returns the panic text if any.
func c07Drive(w coraza.WAF, t traffic, jsonProc bool) (p string) {
	defer func() {
		if r := recover(); r != nil {
			buf := make([]byte, 2048)
			n := runtime.Stack(buf, false)
			p = fmt.Sprintf("%v\n%s", r, buf[:n])
		}
	}()
	tx := w.NewTransaction()
	defer func() {
		tx.ProcessLogging()
		_ = tx.Close()
	}()
	tx.ProcessConnection("10.0.0.1", 1, "10.0.0.2", 80)
	tx.ProcessURI(t.uri, t.method, "HTTP/1.1")
	tx.AddRequestHeader("Host", "h")
	if t.ct != "" {
		tx.AddRequestHeader("Content-Type", t.ct)
	}
	for k, v := range t.headers {
		tx.AddRequestHeader(k, v)
	}
	body := func() {
		_, _, _ = tx.WriteRequestBody([]byte(t.body))
		_, _, _ = tx.ReadRequestBodyFrom(strings.NewReader("&more=1"))
	}
	var it *types.Interruption
	switch t.order {
	case "b":
		body()
		_, _ = tx.ProcessRequestBody()
		it = tx.ProcessRequestHeaders()
		body() // the client keeps sending after the headers were looked at (limits may have been changed by ctl meanwhile)
		_, _ = tx.ProcessRequestBody()
	case "r":
		tx.AddResponseHeader("Content-Type", "text/plain")
		_ = tx.ProcessResponseHeaders(200, "HTTP/1.1")
		_, _ = tx.ProcessResponseBody()
		it = tx.ProcessRequestHeaders()
		body()
		_, _ = tx.ProcessRequestBody()
	default:
		it = tx.ProcessRequestHeaders()
		if it == nil {
			body()
			it, _ = tx.ProcessRequestBody()
		}
	}
	_ = it
	tx.AddResponseHeader("Content-Type", "text/plain")
	tx.AddResponseHeader("Set-Cookie", "a=b")
	if t.order == "b" {
		_, _, _ = tx.WriteResponseBody([]byte("early response bytes")) // response bytes offered before the response headers are processed
	}
	_ = tx.ProcessResponseHeaders(200, "HTTP/1.1")
	_, _, _ = tx.WriteResponseBody([]byte("response body foo"))
	_, _ = tx.ProcessResponseBody()
	return ""
}

func panicSite(p string) string {
	// first frame inside the library
	for _, l := range strings.Split(p, "\n") {
		l = strings.TrimSpace(l)
		if strings.HasPrefix(l, "github.com/corazawaf/coraza/v3/") && !strings.Contains(l, "verifharness") {
			if i := strings.Index(l, "("); i > 0 && strings.HasSuffix(l, ")") && !strings.Contains(l[:i], "/") {
				return l
			}
			return strings.TrimPrefix(strings.SplitN(l, "(", 2)[0], "github.com/corazawaf/coraza/v3/")
		}
	}
	return "unknown"
}

// C07: the library never panics, whatever configuration text or traffic it is given.
func C07(run *vf.Run) {
	run.Rule = "Grammar_MC.tla over a Vocab module generated at check time from the real registries in the source tree (every directive, action, operator, transformation, variable, ctl option): TLC enumerates every vocabulary item in every syntactic role (variables: plain / count / key / regex key / regex key left open / negation / negated key / macro / macro key / setvar key / ctl target / update target; operators: good / empty / macro / degenerate / negated argument; actions: bare / value / quoted / empty / macro / +N / -N / !key / duplicated / upper-case; transformations: single / after none / twice / multiMatch; ctl options and directives with good / boundary / negative / garbage / empty values, and every word of the documented list of the directives that take one); the audit log is on in every configuration (all parts, a writer that formats every record) and an error callback reads every field of every matched rule, so logging-time code runs on every case; each case is spelled as SecLang, compiled (NewWAF under recover), and every accepted configuration is driven with 15 traffic shapes (GET with malformed escapes and cookies, long runs of UTF-8 continuation bytes and of multi-byte characters that cross the length at which logged fields are cut, escapes cut short at the very end of a name or value, urlencoded, JSON, malformed JSON, XML, malformed XML, multipart with upload, truncated multipart, body-before-headers and response-before-request call orders) under recover() and a watchdog; plus byte-level mutations (delete / duplicate / flip / insert delimiter) of every spelled case. Non-trivial = an accepted configuration that was driven with traffic"
	run.Exhaustive = true
	run.Assume("byte-level mutation is done on the Go side (seeded); the specification contributes the corpus that spells every vocabulary item in every role and the expectation 'returns normally'")
	c07Once.Do(func() {
		plugins.RegisterAuditLogWriter("verifc07", func() plugintypes.AuditLogWriter { return &c07AuditWriter{} })
	})
	if d, err := os.MkdirTemp("", "verif-c07-"); err == nil {
		c07Tmp = d
		defer os.RemoveAll(d)
	}
	root := repoRoot()
	if c07Tmp != "" {
		// directives that name files (SecDebugLog, SecAuditLog ...) meet mutated values: whatever they create lands in the scratch directory
		if wd, err := os.Getwd(); err == nil && os.Chdir(c07Tmp) == nil {
			defer os.Chdir(wd)
		}
	}
	vars := extract(root+"/internal/variables/variablesmap.gen.go", `return "([A-Z0-9_]+)"`)
	ops := extractGlob(root+"/internal/operators/*.go", `Register\("([A-Za-z0-9_]+)"`)
	acts := extract(root+"/internal/actions/actions.go", `Register\("([A-Za-z0-9_]+)"`)
	tfs := extract(root+"/internal/transformations/transformations.go", `Register\("([A-Za-z0-9_]+)"`)
	dirs := extract(root+"/internal/seclang/directivesmap.gen.go", `"(sec[a-z]+)"`)
	ctls := extract(root+"/internal/actions/ctl.go", `case "([A-Za-z]+)":`)
	if len(vars) < 50 || len(ops) < 25 || len(acts) < 25 || len(tfs) < 25 || len(dirs) < 40 || len(ctls) < 10 {
		run.Inconclusive("could not read the registries from %s (vars %d ops %d acts %d tfs %d dirs %d ctl %d)", root, len(vars), len(ops), len(acts), len(tfs), len(dirs), len(ctls))
		return
	}
	vocab := fmt.Sprintf("---- MODULE Vocab ----\nVariables == %s\nOperators == %s\nActions == %s\nTransformations == %s\nDirectives == %s\nCtlOptions == %s\n====\n",
		tlaSet(vars), tlaSet(ops), tlaSet(acts), tlaSet(tfs), tlaSet(dirs), tlaSet(ctls))
	var cases []c07Case
	var mu sync.Mutex
	res, err := vf.RunTLC(vf.TLCOpts{Module: "Grammar_MC", CfgText: "SPECIFICATION Spec\nINVARIANTS Emit VocabComplete\n", Workers: 4, Timeout: 10 * time.Minute,
		Files: map[string][]byte{"Vocab.tla": []byte(vocab)},
		OnOut: func(raw json.RawMessage) {
			var c c07Case
			if json.Unmarshal(raw, &c) == nil {
				mu.Lock()
				cases = append(cases, c)
				mu.Unlock()
			}
		}})
	if err != nil {
		run.Inconclusive("Grammar_MC: %v", err)
		return
	}
	run.AddTLC(res)
	run.Logf("Grammar_MC: %s; %d cases (vars %d, ops %d, actions %d, transformations %d, directives %d, ctl %d)", res.Describe(), len(cases), len(vars), len(ops), len(acts), len(tfs), len(dirs), len(ctls))
	if res.Violated != "" || !res.OK() || len(cases) == 0 {
		run.Inconclusive("Grammar_MC: TLC did not complete cleanly: %s\n%s", res.Describe(), res.ErrorText)
		return
	}
	sort.Slice(cases, func(i, j int) bool { return fmt.Sprint(cases[i]) < fmt.Sprint(cases[j]) })
	files := map[string]string{"words.txt": "abc\ndef\n", "ips.txt": "10.0.0.1\n", "schema.json": `{"type":"object"}`}
	rootFS := mapFS(files)
	reported := map[string]bool{}
	var rmu sync.Mutex
	report := func(site, what, text string, tr string) {
		rmu.Lock()
		defer rmu.Unlock()
		sig := "panic:" + site
		if reported[sig] {
			return
		}
		reported[sig] = true
		run.Violate(vf.Violation{Signature: sig, What: fmt.Sprintf("%s at %s || configuration: %s || traffic: %s", what, site, strings.ReplaceAll(text, "\n", " ; "), tr),
			Replay: map[string]any{"family": "grammar", "directives": text, "traffic": tr}})
	}
	muts := vf.Pick(run, 3, 60)
	var wg sync.WaitGroup
	sem := make(chan struct{}, runtime.NumCPU())
	var accepted, rejected int64
	var cmu sync.Mutex
	for i, c := range cases {
		wg.Add(1)
		sem <- struct{}{}
		go func(i int, c c07Case) {
			defer wg.Done()
			defer func() { <-sem }()
			r := rand.New(rand.NewSource(run.Seed*1000003 + int64(i)))
			base := c07Render(c, r)
			texts := []string{base}
			for m := 0; m < muts; m++ {
				texts = append(texts, mutate(r, base))
			}
			for ti, body := range texts {
				text := c07Prelude + body
				done := make(chan string, 1)
				var w coraza.WAF
				go func() {
					defer func() {
						if rec := recover(); rec != nil {
							buf := make([]byte, 2048)
							n := runtime.Stack(buf, false)
							done <- fmt.Sprintf("%v\n%s", rec, buf[:n])
						}
					}()
					var err error
					w, err = coraza.NewWAF(coraza.NewWAFConfig().WithErrorCallback(c07ErrorCallback).WithDirectives(text).WithRootFS(rootFS))
					if err != nil {
						w = nil
					}
					done <- ""
				}()
				var p string
				select {
				case p = <-done:
				case <-time.After(30 * time.Second):
					p = "HANG: NewWAF did not return within 30s"
				}
				if p != "" {
					report(panicSite(p), "NewWAF panicked / hung: "+strings.SplitN(p, "\n", 2)[0], text, "-")
					continue
				}
				cmu.Lock()
				if w == nil {
					rejected++
				} else {
					accepted++
				}
				cmu.Unlock()
				nt := ""
				if w != nil {
					nt = text
				}
				if ti == 0 {
					run.Eval(nt)
					if i%311 == 0 {
						run.Sample(map[string]any{"case": c, "directives": body, "accepted": w != nil})
					}
				} else {
					run.Eval("")
				}
				if w == nil {
					continue
				}
				for _, t := range c07Traffic {
					dd := make(chan string, 1)
					go func() { dd <- c07Drive(w, t, false) }()
					var dp string
					select {
					case dp = <-dd:
					case <-time.After(30 * time.Second):
						dp = "HANG: the transaction did not finish within 30s"
					}
					if dp != "" {
						report(panicSite(dp), "transaction panicked / hung: "+strings.SplitN(dp, "\n", 2)[0], text, t.name)
					}
				}
				closeAny(w)
			}
		}(i, c)
	}
	wg.Wait()
	run.Extra["configurations_accepted"] = accepted
	run.Extra["configurations_rejected_with_error"] = rejected
	_ = bytes.MinRead
	c07Deep(run)
}

// c07Deep: "returns normally" includes "in time": documents of a few ten kilobytes that nest, repeat or
// enumerate as deeply as their size allows (arrays in arrays, objects in objects, elements in elements,
// thousands of arguments / parts / cookies) are pushed through both body directions; a single call that has
// not returned after 5 s on such an input is a hang.
func c07Deep(run *vf.Run) {
	n := 32000
	shapes := []struct{ name, ct, body string }{
		{"json-arrays", "application/json", strings.Repeat("[", n) + strings.Repeat("]", n)},
		{"json-objects", "application/json", strings.Repeat(`{"a":`, n/3) + "1" + strings.Repeat("}", n/3)},
		{"json-arrays-in-object", "application/json", `{"a":` + strings.Repeat("[", n) + strings.Repeat("]", n) + "}"},
		{"json-mixed", "application/json", strings.Repeat(`[{"a":`, n/4) + "1" + strings.Repeat("}]", n/4)},
		{"json-wide", "application/json", "[" + strings.Repeat("[],", n/2) + "[]]"},
		{"xml-nested", "text/xml", strings.Repeat("<a>", n/2) + strings.Repeat("</a>", n/2)},
		{"xml-attrs", "text/xml", "<a " + func() string {
			var sb strings.Builder
			for i := 0; i < n/8; i++ {
				fmt.Fprintf(&sb, "k%d=\"v\" ", i)
			}
			return sb.String()
		}() + "/>"},
		{"urlencoded-many", "application/x-www-form-urlencoded", strings.Repeat("a=1&", n/2)},
		{"urlencoded-escapes", "application/x-www-form-urlencoded", "a=" + strings.Repeat("%25", n)},
		{"multipart-many", "multipart/form-data; boundary=b", strings.Repeat("--b\r\nContent-Disposition: form-data; name=\"a\"\r\n\r\nv\r\n", n/40) + "--b--\r\n"},
	}
	cfgs := []struct{ name, text string }{
		{"request", "SecRuleEngine On\nSecRequestBodyAccess On\nSecRule REQUEST_HEADERS:Content-Type \"json\" \"id:10,phase:1,pass,nolog,ctl:requestBodyProcessor=JSON\"\nSecRule REQUEST_HEADERS:Content-Type \"xml\" \"id:11,phase:1,pass,nolog,ctl:requestBodyProcessor=XML\"\nSecRule ARGS|XML:/* \"@rx zzz\" \"id:1,phase:2,pass\"\n"},
		{"response", "SecRuleEngine On\nSecResponseBodyAccess On\nSecResponseBodyMimeType application/json text/xml\nSecRule RESPONSE_HEADERS:content-type \"@contains json\" \"id:2,phase:3,pass,ctl:responseBodyProcessor=JSON\"\nSecRule RESPONSE_HEADERS:content-type \"@contains xml\" \"id:3,phase:3,pass,ctl:responseBodyProcessor=XML\"\nSecRule RESPONSE_ARGS|RESPONSE_XML \"@rx zzz\" \"id:1,phase:4,pass\"\n"},
	}
	reported := map[string]bool{}
	for _, c := range cfgs {
		w, err := coraza.NewWAF(coraza.NewWAFConfig().WithDirectives(c.text))
		if err != nil {
			run.Inconclusive("deep documents: configuration %s rejected: %v", c.name, err)
			continue
		}
		for _, sh := range shapes {
			if c.name == "response" && !strings.Contains(sh.ct, "json") && !strings.Contains(sh.ct, "xml") {
				continue
			}
			body := sh.body
			if c.name == "response" && sh.name == "json-arrays" {
				// far enough beyond the threshold that the verdict does not depend on the load of the machine
				body = strings.Repeat("[", 2*n) + strings.Repeat("]", 2*n)
			}
			done := make(chan string, 1)
			start := time.Now()
			go func() {
				defer func() {
					if r := recover(); r != nil {
						done <- fmt.Sprint("panic: ", r)
					}
				}()
				tx := w.NewTransaction()
				tx.ProcessURI("/d", "POST", "HTTP/1.1")
				if c.name != "response" {
					tx.AddRequestHeader("Content-Type", sh.ct)
					tx.ProcessRequestHeaders()
					_, _, _ = tx.WriteRequestBody([]byte(body))
					_, _ = tx.ProcessRequestBody()
				} else {
					tx.ProcessRequestHeaders()
					_, _ = tx.ProcessRequestBody()
					tx.AddResponseHeader("Content-Type", sh.ct)
					tx.ProcessResponseHeaders(200, "HTTP/1.1")
					_, _, _ = tx.WriteResponseBody([]byte(body))
					_, _ = tx.ProcessResponseBody()
				}
				tx.ProcessLogging()
				_ = tx.Close()
				done <- ""
			}()
			verdict := ""
			select {
			case verdict = <-done:
			case <-time.After(5 * time.Second):
				verdict = fmt.Sprintf("hang: the calls had not returned after 5 s on a body of %d bytes", len(body))
			}
			run.Eval("deep-" + c.name + sh.name)
			run.Logf("deep documents: %s / %s (%d bytes): %.2fs %s", c.name, sh.name, len(sh.body), time.Since(start).Seconds(), verdict)
			if verdict == "" {
				continue
			}
			kind := "hang"
			if strings.HasPrefix(verdict, "panic") {
				kind = "panic"
			}
			class := sh.name
			if i := strings.Index(class, "-"); i > 0 {
				class = class[:i] // json / xml / urlencoded / multipart: one defect per reader and direction
			}
			sig := kind + ":deep-document|" + c.name + "+" + class
			if reported[sig] {
				continue
			}
			reported[sig] = true
			run.Violate(vf.Violation{Signature: sig, What: fmt.Sprintf("configuration %s, body shape %s (%s): %s", c.name, sh.name, sh.ct, verdict),
				Replay: map[string]any{"family": "deep-document", "configuration": c.text, "shape": sh.name, "bytes": len(sh.body)}})
		}
		closeAny(w)
	}
}
