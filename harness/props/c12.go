package props

import (
	"fmt"
	coraza "github.com/corazawaf/coraza/v3"
	"strings"
	"time"

	"github.com/corazawaf/coraza/v3/verifharness/eng"
	"github.com/corazawaf/coraza/v3/verifharness/vf"
)

func init() { Registry["C12"] = C12; Registry["C04"] = C04 }

func cacheCfg(n int, rich int, design string, emit bool) string {
	inv := "CacheSound NoLeakAcrossPhases FiredInOrder"
	if emit {
		inv = "Emit " + inv
	}
	return fmt.Sprintf(`SPECIFICATION Spec
CONSTANTS
  Family = "cache"
  N = %d
  MaxChain = %d
  Phases = {2}
  Engines = {"On"}
  Slice = %%SLICE%%
  Slices = %%SLICES%%
  CacheOn = TRUE
  CacheDesign = "%s"
INVARIANTS %s
CHECK_DEADLOCK FALSE
VIEW View
`, n, rich, design, inv)
}

// designSelfTest: the EngineCache layer must be able to express unsound sharing -- with the key
// design of the pinned commit (key string + position) TLC has to find a CacheSound violation.
func designSelfTest(run *vf.Run) {
	res, err := vf.RunTLC(vf.TLCOpts{Module: "Engine_MC", CfgText: replaceSlice(cacheCfg(2, 0, "positional", false), 0, 1), Workers: 8, Timeout: 10 * time.Minute})
	if err != nil {
		run.Inconclusive("cache design self-test: %v", err)
		return
	}
	run.AddTLC(res)
	found := res.Violated == "CacheSound"
	run.Extra["design_selftest"] = map[string]any{"positional_key_design_violates_CacheSound_in_TLC": found, "tlc": res.Describe()}
	if !found {
		run.Inconclusive("cache design self-test: TLC did not find the unsound sharing of the positional key design (%s) -- the EngineCache layer is vacuous", res.Describe())
	}
}

func replaceSlice(cfg string, sl, n int) string {
	return replaceAll(replaceAll(cfg, "%SLICE%", fmt.Sprint(sl)), "%SLICES%", fmt.Sprint(n))
}

func replaceAll(s, a, b string) string {
	for {
		i := indexOf(s, a)
		if i < 0 {
			return s
		}
		s = s[:i] + b + s[i+len(a):]
	}
}

func indexOf(s, sub string) int {
	for i := 0; i+len(sub) <= len(s); i++ {
		if s[i:i+len(sub)] == sub {
			return i
		}
	}
	return -1
}

// C12: sharing transformation work between rules never substitutes a wrong value.
func C12(run *vf.Run) {
	run.Rule = "EngineCache layer of Engine.tla (the per-phase transformation cache with the key the code uses). TLC enumerates the cache family: rules of one phase sharing full/partial transformation lists over the same and different targets (all / string key / regex key / ARGS concat), chains whose link looks at MATCHED_VAR (content changes during the phase), over every request of N entries with a repeated name next to another name, in every iteration order, checking CacheSound in every state; each scenario is then replayed on the real library under imposed iteration orders (natural, sorted, reverse, rotate-per-walk, shuffle) with equal names sharing one key string, and compared with the specification (whose outcome is the cache-free one). Self-test: with the position-based key design TLC must find the unsound sharing. Non-trivial = a rule fires"
	run.Exhaustive = true
	run.Assume("TLC 1.8.0 explores the bounded instance completely")
	run.Assume("the verif iteration-order hook (internal/collections) permutes exactly what the Go runtime may permute: the order of the keys of a map, never the values of one key")
	designSelfTest(run)
	eng.ReplayFamily(run, eng.FamilyOpts{Name: "cache", CfgText: cacheCfg(vf.Pick(run, 3, 4), vf.Pick(run, 0, 1), "byValue", true),
		Proj: eng.ProjOpts{}, Timeout: vf.Pick(run, 10*time.Minute, 90*time.Minute), Workers: 3, Slices: 6, OrderModes: eng.OrderModes})
	if run.NumViolations() == 0 {
		c12Scale(run)
	}
}

func init() { Registry["XSCALE"] = c12Scale } // development entry: the scaled instances alone

// c12Scale replays one scenario shape of the cache family (a repeated name, two rules sharing a
// transformation prefix, exactly one value satisfying the operator) with the non-matching value
// repeated K times: in Engine.tla padding with values the operator rejects changes neither the fired
// rules nor their match data, whatever K is. K crosses the widths an index could be packed into.
func c12Scale(run *vf.Run) {
	text := `SecRuleEngine On
SecRule ARGS_GET:p "@streq b" "id:1,phase:1,pass,t:lowercase"
SecRule ARGS_GET:p "@streq b" "id:2,phase:1,pass,t:lowercase,t:trim"
SecRule REQUEST_HEADERS:x-p "@streq b" "id:3,phase:1,pass,t:lowercase"
`
	w, err := coraza.NewWAF(coraza.NewWAFConfig().WithDirectives(text))
	if err != nil {
		run.Inconclusive("scale configuration rejected: %v", err)
		return
	}
	defer closeAny(w)
	// MATCHED_VAR changes its content during the phase; the two contents share their first bytes (the
	// file name is a prefix of the raw URI) and differ in length by 1 + the length of the query string
	text2 := `SecRuleEngine On
SecRule REQUEST_URI_RAW "@unconditionalMatch" "id:11,phase:1,pass"
SecRule MATCHED_VAR "@streq %d" "id:12,phase:1,pass,t:length"
SecRule REQUEST_FILENAME "@unconditionalMatch" "id:13,phase:1,pass"
SecRule MATCHED_VAR "@streq 2" "id:14,phase:1,pass,t:length"
SecRule REQUEST_URI_RAW "@unconditionalMatch" "id:15,phase:1,pass,chain"
SecRule MATCHED_VAR "@streq %d" "t:length"
`
	for _, ql := range []int{1, 253, 254, 65533, 65534, 65535, 65536, 131071} {
		t2 := fmt.Sprintf(text2, 3+ql, 3+ql)
		w2, err := coraza.NewWAF(coraza.NewWAFConfig().WithDirectives(t2))
		if err != nil {
			run.Inconclusive("scale configuration rejected: %v", err)
			return
		}
		tx := w2.NewTransaction()
		tx.ProcessURI("/p?"+strings.Repeat("q", ql), "GET", "HTTP/1.1")
		tx.ProcessRequestHeaders()
		fired := map[int]bool{}
		for _, mr := range tx.MatchedRules() {
			fired[mr.Rule().ID()] = true
		}
		_ = tx.Close()
		closeAny(w2)
		run.Eval(fmt.Sprintf("scale-prefix-%d", ql))
		for _, id := range []int{11, 12, 13, 14, 15} {
			if !fired[id] {
				run.Violate(vf.Violation{Signature: "cache:scaled-instance|matched-var-prefix", What: fmt.Sprintf("MATCHED_VAR holds first the raw URI (%d bytes) and later the file name (2 bytes, same leading bytes): rule %d, which compares t:length of the current content, must fire and did not (fired: %v) || %s",
					3+ql, id, fired, strings.ReplaceAll(t2, "\n", " ; ")), Replay: map[string]any{"family": "scale", "query_length": ql, "directives": t2}})
				return
			}
		}
	}
	for _, k := range []int{1, 255, 256, 257, 65535, 65536, 65537, vf.Pick(run, 70000, 140000)} {
		for _, where := range []string{"last", "first", "both"} {
			var q strings.Builder
			n := 0
			tx := w.NewTransaction()
			if where == "first" || where == "both" {
				q.WriteString("p=B&")
				tx.AddRequestHeader("X-P", "B")
				n++
			}
			for i := 0; i < k; i++ {
				q.WriteString("p=a&")
				tx.AddRequestHeader("X-P", "a")
			}
			if where == "last" || where == "both" {
				q.WriteString("p=B")
				tx.AddRequestHeader("X-P", "B")
				n++
			}
			tx.ProcessURI("/?"+q.String(), "GET", "HTTP/1.1")
			tx.ProcessRequestHeaders()
			got := map[int]int{}
			for _, mr := range tx.MatchedRules() {
				for _, md := range mr.MatchedDatas() {
					if md.Value() == "B" || md.Value() == "b" { // match data carries the transformed value
						got[mr.Rule().ID()]++
					} else {
						got[-mr.Rule().ID()]++
					}
				}
			}
			_ = tx.Close()
			run.Eval(fmt.Sprintf("scale-%d-%s", k, where))
			for _, id := range []int{1, 2, 3} {
				if got[id] != n || got[-id] != 0 {
					run.Violate(vf.Violation{Signature: "cache:scaled-instance|" + fmt.Sprintf("rule%d", id), What: fmt.Sprintf("the value B among %d copies of the value a under one name (B %s): rule %d must match exactly the %d value(s) B; it matched %d of them and %d other value(s) || %s",
						k, where, id, n, got[id], got[-id], strings.ReplaceAll(text, "\n", " ; ")), Replay: map[string]any{"family": "scale", "k": k, "where": where, "directives": text}})
					return
				}
			}
		}
	}
}

// C04 is defined in c04.go
