// Command c06stress runs concurrent transactions on one shared WAF while other goroutines build,
// probe and close WAFs that share cached patterns with it, and writers share one audit log.
// It is built with -race -tags verif by the C06 check. Every transaction's outcome is compared
// with the outcome of the same request run alone (sequentially) before the stress started.
//
//	stdout: one JSON summary; data races are reported by the race detector on stderr (exit 66).
package main

import (
	"bufio"
	"encoding/json"
	"flag"
	"fmt"
	"math/rand"
	"os"
	"path/filepath"
	"runtime"
	"strings"
	"sync"
	"sync/atomic"
	"time"

	coraza "github.com/corazawaf/coraza/v3"
	"github.com/corazawaf/coraza/v3/internal/corazawaf"
	"github.com/corazawaf/coraza/v3/internal/memoize"
	"github.com/corazawaf/coraza/v3/verifharness/eng"
)

const sharedRules = `
SecRuleEngine On
SecRequestBodyAccess On
SecAuditEngine On
SecAuditLogParts ABHKZ
SecAuditLogType Serial
SecAuditLogFormat json
SecAuditLog %AUDIT%
SecRule ARGS "@rx (?i)sel(ect)" "id:10,phase:1,pass,capture,t:lowercase,setvar:tx.n=+1,log,auditlog"
SecRule ARGS|!ARGS:b "@pm union select drop" "id:20,phase:1,pass,t:lowercase,t:trim,setvar:tx.n=+2,nolog"
SecRule ARGS_NAMES "@streq a" "id:30,phase:2,pass,nolog,chain"
  SecRule ARGS:a "@contains x" "setvar:tx.s=%{MATCHED_VAR}"
SecRule ARGS "@rx ." "id:32,phase:2,pass,nolog,setvar:'tx.mix_%{MATCHED_VAR_NAME}=<%{MATCHED_VAR}|%{MATCHED_VAR_NAME}|%{tx.s}>'"
SecRule REQUEST_HEADERS:/^x-/ "@beginsWith evil" "id:40,phase:1,pass,nolog,ctl:ruleRemoveById=50"
SecRule ARGS:c "@streq x" "id:50,phase:2,pass,nolog,setvar:tx.n=+1"
SecRule &ARGS "@gt 3" "id:60,phase:2,pass,nolog,skip:1"
SecRule ARGS:d "@within a b c x" "id:70,phase:2,pass,nolog,setvar:tx.n=+1"
SecRule ARGS "@ipMatch 10.1.0.0/24,10.2.0.0/24,10.3.0.0/24,10.4.0.0/24,10.5.0.0/24,10.6.0.0/24,10.7.0.0/24,10.8.0.0/24,10.9.0.0/24,10.10.0.0/24,10.11.0.0/24,10.12.0.0/24,2001:db8::/32" "id:72,phase:2,pass,nolog,setvar:'tx.ip_%{MATCHED_VAR_NAME}=%{MATCHED_VAR}'"
SecRule ARGS|!ARGS:/^z/ "@contains drop" "id:80,phase:2,pass,nolog,t:lowercase,t:removeWhitespace,multiMatch,setvar:tx.n=+1"
SecRule ARGS:a "@rx ." "id:84,phase:2,pass,nolog,ctl:ruleRemoveTargetById=85;ARGS:c"
SecRule ARGS|!ARGS:b|!ARGS:z1|!ARGS:zz "@contains evil" "id:85,phase:2,pass,nolog,setvar:tx.n=+1"
SecRule TX:n "@ge 4" "id:90,phase:2,deny,status:403,log,auditlog"
SecAction "id:99,phase:5,pass,nolog"
`

// configurations of the WAFs built and closed during the stress: they share patterns with the
// shared WAF (same @rx / @pm / regex keys) and with each other
var builderConfigs = []string{
	"SecRuleEngine On\nSecRule ARGS \"@rx (?i)sel(ect)\" \"id:1,phase:1,deny\"\n",
	"SecRuleEngine On\nSecRule ARGS \"@pm union select drop\" \"id:1,phase:1,deny\"\n",
	"SecRuleEngine On\nSecRule REQUEST_HEADERS:/^x-/ \"@unconditionalMatch\" \"id:1,phase:1,deny\"\n",
	"SecRuleEngine On\nSecRule ARGS \"@rx ^only-here-%d$\" \"id:1,phase:1,deny\"\n",
	"SecRuleEngine On\nSecRule ARGS|!ARGS:/^z/ \"@pm only here %d\" \"id:1,phase:1,deny\"\n",
}

type req struct {
	Scen eng.Scen
	Key  string // sequential outcome
}

func genReq(r *rand.Rand) eng.Scen {
	vals := []string{"x", "select", "SELECT 1", "union", " drop ", "d r o p", "a", "evil-1", "ok", "", "sel", "Select x", "10.1.0.9", "10.9.0.5", "10.12.0.7", "10.11.0.1", "10.13.0.1", "2001:db8::5"}
	keys := []string{"a", "b", "c", "d", "z1", "A"}
	var s eng.Scen
	s.Engine = "On"
	n := r.Intn(6)
	for i := 0; i < n; i++ {
		col := "ARGS_GET"
		if r.Intn(3) == 0 {
			col = "ARGS_POST"
		}
		s.Req = append(s.Req, eng.Entry{C: col, K: eng.Bytes(keys[r.Intn(len(keys))]), V: eng.Bytes(vals[r.Intn(len(vals))])})
	}
	if r.Intn(3) == 0 {
		s.Req = append(s.Req, eng.Entry{C: "REQUEST_HEADERS", K: eng.Bytes("X-Probe"), V: eng.Bytes(vals[r.Intn(len(vals))])})
	}
	return s
}

func outcomeKey(w coraza.WAF, s *eng.Scen) string {
	obs := eng.Run(s, eng.RunOpts{WAF: w})
	if obs.Panic != "" {
		return "PANIC " + obs.Panic
	}
	return obs.Out.Key(eng.ProjOpts{})
}

func main() {
	seed := flag.Int64("seed", 1, "seed")
	G := flag.Int("g", 8, "goroutines running transactions on the shared WAF")
	B := flag.Int("b", 3, "goroutines building / closing WAFs")
	dur := flag.Duration("d", 10*time.Second, "duration")
	nreq := flag.Int("n", 200, "distinct requests")
	yield := flag.Int("yield", 3, "one in N yield points yields")
	tfrounds := flag.Int("tfrounds", 300, "rounds of builders racing on fresh transformation chains")
	flag.Parse()
	runtime.GOMAXPROCS(runtime.NumCPU())
	var yctr atomic.Uint64
	memoize.VerifYield = func(string) {
		if *yield > 0 && yctr.Add(1)%uint64(*yield) == 0 {
			runtime.Gosched()
		}
	}
	dir, _ := os.MkdirTemp("", "verif-c06-")
	defer os.RemoveAll(dir)
	audit := filepath.Join(dir, "audit.log")
	shared, err := coraza.NewWAF(coraza.NewWAFConfig().WithDirectives(strings.ReplaceAll(sharedRules, "%AUDIT%", audit)))
	if err != nil {
		fmt.Println(`{"error":"` + err.Error() + `"}`)
		os.Exit(2)
	}
	rng := rand.New(rand.NewSource(*seed))
	reqs := make([]req, *nreq)
	for i := range reqs {
		reqs[i].Scen = genReq(rng)
		reqs[i].Key = outcomeKey(shared, &reqs[i].Scen)
	}
	ran := make([]atomic.Bool, len(reqs))
	quiet := outcomeKey(shared, &eng.Scen{Engine: "On"}) // outcome of a request that fires nothing
	// expected probe outcome per builder configuration (built alone)
	probe := eng.Scen{Engine: "On", Req: []eng.Entry{{C: "ARGS_GET", K: eng.Bytes("q"), V: eng.Bytes("Select union")}, {C: "REQUEST_HEADERS", K: eng.Bytes("X-Probe"), V: eng.Bytes("1")}}}
	wantProbe := make([]string, len(builderConfigs))
	for i, c := range builderConfigs {
		w, err := coraza.NewWAF(coraza.NewWAFConfig().WithDirectives(fmt.Sprintf(strings.ReplaceAll(c, "%d", "0"))))
		if err != nil {
			fmt.Println(`{"error":"builder config rejected: ` + err.Error() + `"}`)
			os.Exit(2)
		}
		wantProbe[i] = outcomeKey(w, &probe)
		_ = w.(interface{ Close() error }).Close()
	}
	seqAudited := 0
	if f, err := os.Open(audit); err == nil {
		sc := bufio.NewScanner(f)
		sc.Buffer(make([]byte, 1<<20), 1<<24)
		for sc.Scan() {
			seqAudited++
		}
		f.Close()
	}
	var stop atomic.Bool
	var txCount, mismatches, builds, buildFail, probeMismatch, panics atomic.Int64
	var firstMismatch, firstBuildFail atomic.Value
	var wg sync.WaitGroup
	for g := 0; g < *G; g++ {
		wg.Add(1)
		go func(g int) {
			defer wg.Done()
			r := rand.New(rand.NewSource(*seed*1000 + int64(g)))
			for !stop.Load() {
				i := r.Intn(len(reqs))
				got := outcomeKey(shared, &reqs[i].Scen)
				ran[i].Store(true)
				txCount.Add(1)
				if got != reqs[i].Key {
					mismatches.Add(1)
					firstMismatch.CompareAndSwap(nil, fmt.Sprintf("request %v: concurrent outcome %s ; alone %s", reqs[i].Scen.Req, got, reqs[i].Key))
					if strings.HasPrefix(got, "PANIC") {
						panics.Add(1)
					}
				}
			}
		}(g)
	}
	for b := 0; b < *B; b++ {
		wg.Add(1)
		go func(b int) {
			defer wg.Done()
			r := rand.New(rand.NewSource(*seed*7777 + int64(b)))
			for !stop.Load() {
				ci := r.Intn(len(builderConfigs))
				text := builderConfigs[ci]
				uniq := "0"
				if strings.Contains(text, "%d") && r.Intn(2) == 0 {
					uniq = fmt.Sprint(r.Intn(1000) + 1)
				}
				text = strings.ReplaceAll(text, "%d", uniq)
				func() {
					defer func() {
						if rec := recover(); rec != nil {
							buildFail.Add(1)
							panics.Add(1)
							firstBuildFail.CompareAndSwap(nil, fmt.Sprintf("NewWAF panicked: %v || %s", rec, text))
						}
					}()
					w, err := coraza.NewWAF(coraza.NewWAFConfig().WithDirectives(text))
					builds.Add(1)
					if err != nil {
						buildFail.Add(1)
						firstBuildFail.CompareAndSwap(nil, fmt.Sprintf("NewWAF failed: %v || %s", err, text))
						return
					}
					if uniq == "0" {
						if got := outcomeKey(w, &probe); got != wantProbe[ci] {
							probeMismatch.Add(1)
							firstMismatch.CompareAndSwap(nil, fmt.Sprintf("WAF built during the stress (%q): %s ; built alone: %s", text, got, wantProbe[ci]))
						}
					}
					_ = w.(interface{ Close() error }).Close()
				}()
			}
		}(b)
	}
	time.Sleep(*dur)
	stop.Store(true)
	done := make(chan struct{})
	go func() { wg.Wait(); close(done) }()
	deadlock := false
	select {
	case <-done:
	case <-time.After(60 * time.Second):
		deadlock = true
	}
	// ---- the table that numbers transformation chains (TfTable.tla): builders racing on never-seen chains ----
	tfRounds, tfProblems, tfProbeMismatch := tfTablePhase(*seed, *tfrounds)
	// quiescent state of the pattern cache: the model's invariants (MemoConc!NoLeak, NoDeletedInCache)
	var cacheProblems []string
	for _, e := range memoize.VerifSnapshot() {
		if e.Deleted {
			cacheProblems = append(cacheProblems, "entry marked deleted still reachable: "+e.Key)
		}
		if len(e.Owners) == 0 {
			cacheProblems = append(cacheProblems, "entry without owner still cached: "+e.Key)
		}
	}
	_ = shared.(interface{ Close() error }).Close()
	leaked := 0
	for range memoize.VerifSnapshot() {
		leaked++
	}
	// audit log: one well-formed JSON document per audited transaction
	lines, badLines := 0, 0
	if f, err := os.Open(audit); err == nil {
		sc := bufio.NewScanner(f)
		sc.Buffer(make([]byte, 1<<20), 1<<24)
		for sc.Scan() {
			lines++
			var doc map[string]any
			if json.Unmarshal(sc.Bytes(), &doc) != nil {
				badLines++
			}
		}
		f.Close()
	}
	distinctFiring := 0
	for i := range reqs {
		if ran[i].Load() && reqs[i].Key != quiet {
			distinctFiring++
		}
	}
	out := map[string]any{
		"distinct_requests_firing_rules_run_concurrently": distinctFiring,
		"transactions": txCount.Load(), "outcome_mismatches": mismatches.Load(), "waf_builds": builds.Load(), "waf_build_failures": buildFail.Load(),
		"built_waf_probe_mismatches": probeMismatch.Load(), "panics": panics.Load(), "deadlock": deadlock,
		"cache_problems": cacheProblems, "cache_entries_left_after_all_wafs_closed": leaked,
		"audit_lines": lines, "audit_bad_lines": badLines, "audit_lines_before_stress": seqAudited,
		"first_mismatch": firstMismatch.Load(), "first_build_failure": firstBuildFail.Load(),
		"tf_table_rounds": tfRounds, "tf_table_problems": tfProblems, "tf_table_probe_mismatches": tfProbeMismatch,
	}
	_ = json.NewEncoder(os.Stdout).Encode(out)
}

// tfTablePhase: in every round several goroutines build WAFs at the same moment whose rules carry
// transformation chains no WAF of this process has used before (the same two fresh chains in every
// builder), so that the registrations of one name race. After the round the invariant of
// TfTable.tla (TableSound: every name has its own id, both directions agree) is evaluated on the
// real table, and a WAF with one rule per fresh chain on the same argument must let both rules
// see their own transformed value.
func tfTablePhase(seed int64, rounds int) (int, []string, int) {
	names := []string{"lowercase", "uppercase", "trim", "trimLeft", "trimRight", "removeWhitespace", "compressWhitespace", "removeNulls", "replaceNulls", "urlDecode", "hexEncode", "base64Encode", "md5", "sha1", "length", "cmdLine", "normalisePath", "htmlEntityDecode", "jsDecode", "cssDecode"}
	r := rand.New(rand.NewSource(seed*31 + 7))
	chain := func() []string {
		n := 4 + r.Intn(3)
		c := make([]string, n)
		for i := range c {
			c[i] = names[r.Intn(len(names))]
		}
		return c
	}
	tlist := func(c []string) string { return "t:" + strings.Join(c, ",t:") }
	var problems []string
	probeMismatch := 0
	done := 0
	for round := 0; round < rounds && len(problems) == 0 && probeMismatch == 0; round++ {
		// two fresh chains: A ends in hexEncode (the value is visible), B ends in length
		a := append(chain(), fmt.Sprintf("hexEncode"))
		b := append(chain(), "length")
		text := fmt.Sprintf("SecRuleEngine On\nSecRule ARGS:a \"@rx ^[0-9a-f]*$\" \"id:1,phase:1,pass,%s\"\nSecRule ARGS:a \"@rx ^[0-9]+$\" \"id:2,phase:1,pass,%s\"\n", tlist(a), tlist(b))
		var wg sync.WaitGroup
		start := make(chan struct{})
		wafs := make([]coraza.WAF, 8)
		for g := range wafs {
			wg.Add(1)
			go func(g int) {
				defer wg.Done()
				defer func() { _ = recover() }()
				<-start
				w, err := coraza.NewWAF(coraza.NewWAFConfig().WithDirectives(text))
				if err == nil {
					wafs[g] = w
				}
			}(g)
		}
		close(start)
		wg.Wait()
		done++
		idToName, nameToID := corazawaf.VerifTransformationTable()
		if len(idToName) != len(nameToID) {
			problems = append(problems, fmt.Sprintf("round %d: %d ids but %d names (TfTable!Agree)", round, len(idToName), len(nameToID)))
		}
		for n, id := range nameToID {
			if id < 0 || id >= len(idToName) || idToName[id] != n {
				problems = append(problems, fmt.Sprintf("round %d: the id %d of chain %q names another chain (TfTable!Agree)", round, id, n))
				break
			}
		}
		// behaviour: with every WAF built in the round, both rules fire on a value both chains accept
		for _, w := range wafs {
			if w == nil {
				continue
			}
			tx := w.NewTransaction()
			tx.AddGetRequestArgument("a", "Some Value 1")
			tx.ProcessRequestHeaders()
			fired := map[int]bool{}
			for _, mr := range tx.MatchedRules() {
				fired[mr.Rule().ID()] = true
			}
			_ = tx.Close()
			if !fired[1] || !fired[2] {
				probeMismatch++
				problems = append(problems, fmt.Sprintf("round %d: rules over two fresh chains on one argument: fired %v, alone both fire || %s", round, fired, strings.ReplaceAll(text, "\n", " ; ")))
				break
			}
		}
		for _, w := range wafs {
			if w != nil {
				_ = w.(interface{ Close() error }).Close()
			}
		}
	}
	return done, problems, probeMismatch
}
