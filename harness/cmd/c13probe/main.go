// Command c13probe builds and closes WAFs in the order given by a history and probes them.
// It is built twice by the C13 check: with the process-wide pattern cache and with
// -tags coraza.no_memoize (cache compiled out).
//
//	stdin : {"ops":[["build",3],["build",1],["close",1]]}
//	stdout: {"wafs":[{"cfg":3,"build":"ok","probes":{...}}, ...]}
package main

import (
	"encoding/json"
	"fmt"
	"os"
	"sort"
	"testing/fstest"

	coraza "github.com/corazawaf/coraza/v3"
)

type cfg struct {
	text  string
	files map[string]string
}

// the table mirrors Configs of spec/Memo.tla (1-based there)
var configs = []cfg{
	{text: `SecRule ARGS "@pm abc.def" "id:1,phase:1,deny"`},
	{text: `SecRule ARGS:/abc.def/ "@unconditionalMatch" "id:1,phase:1,deny"`},
	{text: `SecRule REQUEST_FILENAME "@restpath abc.def" "id:1,phase:1,deny"`},
	{text: "SecAuditLogRelevantStatus \"abc.def\"\nSecRule ARGS \"@streq x\" \"id:1,phase:1,deny\""},
	{text: "SecAction \"id:9,phase:1,pass,ctl:ruleRemoveTargetById=1;ARGS:/abc.def/\"\nSecRule ARGS \"@rx ^a\" \"id:1,phase:1,deny\""},
	{text: "SecDataset names `\nabc\n`\nSecRule ARGS \"@pmFromDataset names\" \"id:1,phase:1,deny\""},
	{text: "SecDataset names `\nxyz\n`\nSecRule ARGS \"@pmFromDataset names\" \"id:1,phase:1,deny\""},
	{text: `SecRule ARGS "@pmFromFile words.txt" "id:1,phase:1,deny"`, files: map[string]string{"words.txt": "abc\n"}},
	{text: `SecRule ARGS "@pmFromFile words.txt" "id:1,phase:1,deny"`, files: map[string]string{"words.txt": "xyz\n"}},
	{text: `SecRule ARGS "@rx abc.def" "id:1,phase:1,deny"`},
	{text: "SecDataset names `\nxyz\n`\nSecRule ARGS_GET:a \"@pm names\" \"id:1,phase:1,deny\"\nSecRule ARGS_GET:b \"@pmFromDataset names\" \"id:2,phase:1,deny\""},
	{text: `SecRule ARGS "@pm abc def" "id:1,phase:1,deny"`},
	{text: "SecDataset phrases `\nabc def\n`\nSecRule ARGS \"@pmFromDataset phrases\" \"id:1,phase:1,deny\""},
	{text: `SecRule ARGS "@validateSchema schemas/item.json" "id:1,phase:1,deny"`, files: map[string]string{"schemas/item.json": `{"type":"object","required":["id"]}`}},
	{text: `SecRule ARGS "@validateSchema schemas/item.json" "id:1,phase:1,deny"`, files: map[string]string{"schemas/item.json": `{"type":"object","required":["sn"]}`}},
	{text: `SecRule ARGS_GET:/^Ab/ "@streq x" "id:1,phase:1,deny"`},
	{text: `SecRule REQUEST_HEADERS:/^Ab/ "@streq x" "id:1,phase:1,deny"`},
	{text: `SecRule ARGS "@validateNid cl abc.def" "id:1,phase:1,deny"`},
	{text: "SecDataset ips `\n10.0.0.1\n`\nSecRule ARGS_GET:a \"@ipMatchFromDataset ips\" \"id:1,phase:1,deny\""},
	{text: "SecDataset ips `\n10.0.0.2\n`\nSecRule ARGS_GET:a \"@ipMatchFromDataset ips\" \"id:1,phase:1,deny\""},
	{text: "SecRule REQUEST_URI \"@restpath /files/(?P<name>a|ab)\" \"id:1,phase:1,pass,nolog\"\nSecRule ARGS_PATH:name \"@streq ab\" \"id:2,phase:1,deny\""},
	{text: `SecRule ARGS "@validateNid cl \/files\/(?P<name>a|ab)" "id:1,phase:1,pass,nolog"`},
}

var probes = []string{"abc.def", "abcxdef", "abc", "xyz", "names", "x", "ABC.DEF", "abc def", "def", `{"id":1}`, `{"sn":1}`, `{}`, "10.0.0.1", "10.0.0.2", "files/ab", "files/a"}

type wafOut struct {
	Cfg    int               `json:"cfg"`
	Build  string            `json:"build"`
	Probes map[string]string `json:"probes"`
}

func build(c int) (w coraza.WAF, res string) {
	defer func() {
		if r := recover(); r != nil {
			w, res = nil, fmt.Sprint("panic: ", r)
		}
	}()
	conf := coraza.NewWAFConfig().WithDirectives("SecRuleEngine On\n" + configs[c-1].text)
	if configs[c-1].files != nil {
		m := fstest.MapFS{}
		for n, content := range configs[c-1].files {
			m[n] = &fstest.MapFile{Data: []byte(content)}
		}
		conf = conf.WithRootFS(m)
	}
	w, err := coraza.NewWAF(conf)
	if err != nil {
		return nil, "error: " + err.Error()
	}
	return w, "ok"
}

func probe(w coraza.WAF) map[string]string {
	out := map[string]string{}
	for _, p := range probes {
		func() {
			defer func() {
				if r := recover(); r != nil {
					out[p] = fmt.Sprint("panic: ", r)
				}
			}()
			tx := w.NewTransaction()
			defer tx.Close()
			tx.ProcessURI("/"+p, "GET", "HTTP/1.1")
			tx.AddGetRequestArgument("a", p)
			tx.AddGetRequestArgument("b", p)
			tx.AddGetRequestArgument("Abq", p)
			tx.AddRequestHeader("Abh", p)
			it := tx.ProcessRequestHeaders()
			var ids []int
			for _, mr := range tx.MatchedRules() {
				ids = append(ids, mr.Rule().ID())
			}
			sort.Ints(ids)
			if it != nil {
				out[p] = fmt.Sprintf("interrupted by %d; fired %v", it.RuleID, ids)
			} else {
				out[p] = fmt.Sprintf("pass; fired %v", ids)
			}
		}()
	}
	return out
}

func main() {
	var in struct {
		Ops [][]any `json:"ops"`
	}
	if err := json.NewDecoder(os.Stdin).Decode(&in); err != nil {
		fmt.Fprintln(os.Stderr, err)
		os.Exit(2)
	}
	var outs []*wafOut
	var wafs []coraza.WAF
	for _, op := range in.Ops {
		name, _ := op[0].(string)
		n := int(op[1].(float64))
		switch name {
		case "build":
			w, res := build(n)
			o := &wafOut{Cfg: n, Build: res}
			if w != nil {
				o.Probes = probe(w) // right after construction
			}
			outs = append(outs, o)
			wafs = append(wafs, w)
		case "close":
			if n-1 < len(wafs) && wafs[n-1] != nil {
				if c, ok := wafs[n-1].(interface{ Close() error }); ok {
					_ = c.Close()
				}
				wafs[n-1] = nil
			}
		}
	}
	// every WAF still alive must behave the same at the end of the history
	for i, w := range wafs {
		if w != nil {
			p := probe(w)
			for k, v := range p {
				if outs[i].Probes[k] != v {
					outs[i].Probes[k] = outs[i].Probes[k] + " THEN " + v
				}
			}
		}
	}
	_ = json.NewEncoder(os.Stdout).Encode(map[string]any{"wafs": outs})
}
