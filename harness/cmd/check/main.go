// Command check runs one property check: ./check <ID> quick|thorough [--replay <file>]
package main

import (
	"fmt"
	"os"

	"github.com/corazawaf/coraza/v3/verifharness/props"
	"github.com/corazawaf/coraza/v3/verifharness/vf"
)

func main() {
	if len(os.Args) < 3 {
		fmt.Fprintln(os.Stderr, "usage: check <PROPERTY_ID> quick|thorough [--replay <file>]")
		os.Exit(2)
	}
	id, tier := os.Args[1], os.Args[2]
	if t := os.Getenv("VERIF_TIER"); t == "quick" || t == "thorough" {
		tier = t
	}
	if tier != "quick" && tier != "thorough" {
		fmt.Fprintln(os.Stderr, "tier must be quick or thorough")
		os.Exit(2)
	}
	fn, ok := props.Registry[id]
	if !ok {
		fmt.Fprintf(os.Stderr, "unknown property %s\n", id)
		os.Exit(2)
	}
	replay := ""
	for i := 3; i+1 < len(os.Args); i++ {
		if os.Args[i] == "--replay" {
			replay = os.Args[i+1]
		}
	}
	run := vf.NewRun(id, tier)
	if replay != "" {
		os.Exit(props.Replay(run, id, replay))
	}
	fn(run)
	os.Exit(run.Finish())
}
