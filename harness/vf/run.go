package vf

import (
	"bufio"
	"crypto/sha1"
	"encoding/hex"
	"encoding/json"
	"fmt"
	"os"
	"path/filepath"
	"sort"
	"strconv"
	"strings"
	"sync"
	"time"
)

// Exit codes of a check.
const (
	ExitHeld         = 0
	ExitViolation    = 1
	ExitInconclusive = 2
)

// Run is the context of one check invocation (one property, one tier).
type Run struct {
	Prop  string
	Tier  string
	Seed  int64
	Start time.Time

	mu            sync.Mutex
	States        int64
	Transitions   int64
	TracesVal     int64
	Evaluations   int64
	nontrivial    map[string]struct{}
	Samples       []any
	Rule          string
	Exhaustive    bool
	Assumptions   []string
	Extra         map[string]any
	violations    []Violation
	knownHit      map[string]string
	inconclusive  []string
	findings      []Finding
	SpecActions   map[string]int64
	maxSamples    int
	replayCounter int
}

// Violation is one disagreement between the real code and the specification.
type Violation struct {
	Signature string // stable identity of the failure mechanism (matched against known findings)
	What      string // one line
	Replay    any    // self-contained scenario, written to the replay file
}

// Finding is a line of known_findings.txt.
type Finding struct {
	Kind      string // "finding" | "fixed"
	Property  string
	Signature string
	Commit    string
	What      string
}

func NewRun(prop, tier string) *Run {
	seed := int64(1)
	if s := os.Getenv("VERIF_SEED"); s != "" {
		if v, err := strconv.ParseInt(s, 10, 64); err == nil {
			seed = v
		}
	}
	r := &Run{Prop: prop, Tier: tier, Seed: seed, Start: time.Now(),
		nontrivial: map[string]struct{}{}, Extra: map[string]any{}, knownHit: map[string]string{},
		SpecActions: map[string]int64{}, maxSamples: 6}
	r.findings = LoadFindings()
	return r
}

func (r *Run) Thorough() bool { return r.Tier == "thorough" }

// Pick returns q for quick and t for thorough.
func Pick[T any](r *Run, q, t T) T {
	if r.Thorough() {
		return t
	}
	return q
}

func (r *Run) Logf(format string, a ...any) {
	fmt.Fprintf(os.Stderr, "[%s %s +%.1fs] %s\n", r.Prop, r.Tier, time.Since(r.Start).Seconds(), fmt.Sprintf(format, a...))
}

// AddTLC accumulates the state counts of a TLC run.
func (r *Run) AddTLC(res *TLCResult) {
	r.mu.Lock()
	defer r.mu.Unlock()
	r.States += res.Distinct
	r.Transitions += res.Generated
}

// Eval counts one executed case; key != "" marks it as a distinct non-trivial case.
func (r *Run) Eval(nontrivialKey string) {
	r.mu.Lock()
	defer r.mu.Unlock()
	r.Evaluations++
	if nontrivialKey != "" {
		h := sha1.Sum([]byte(nontrivialKey))
		r.nontrivial[string(h[:8])] = struct{}{}
	}
}

func (r *Run) Sample(s any) {
	r.mu.Lock()
	defer r.mu.Unlock()
	if len(r.Samples) < r.maxSamples {
		r.Samples = append(r.Samples, s)
	}
}

func (r *Run) TraceValidated(n int) {
	r.mu.Lock()
	defer r.mu.Unlock()
	r.TracesVal += int64(n)
}

func (r *Run) Assume(s string) {
	r.mu.Lock()
	defer r.mu.Unlock()
	for _, a := range r.Assumptions {
		if a == s {
			return
		}
	}
	r.Assumptions = append(r.Assumptions, s)
}

// Inconclusive records a reason why the run cannot vouch for the property (exit 2).
func (r *Run) Inconclusive(format string, a ...any) {
	r.mu.Lock()
	defer r.mu.Unlock()
	msg := fmt.Sprintf(format, a...)
	r.inconclusive = append(r.inconclusive, msg)
	fmt.Fprintf(os.Stderr, "[%s] INCONCLUSIVE: %s\n", r.Prop, msg)
}

// InconclusiveList returns the reasons recorded so far.
func (r *Run) InconclusiveList() []string {
	r.mu.Lock()
	defer r.mu.Unlock()
	return append([]string{}, r.inconclusive...)
}

// Violate records a disagreement. It is matched against the known findings at Finish.
func (r *Run) Violate(v Violation) {
	r.mu.Lock()
	defer r.mu.Unlock()
	for _, o := range r.violations {
		if o.Signature == v.Signature {
			return // one report per mechanism
		}
	}
	r.violations = append(r.violations, v)
}

func (r *Run) NumViolations() int {
	r.mu.Lock()
	defer r.mu.Unlock()
	return len(r.violations)
}

// FindingsPath is the committed known-findings file.
func FindingsPath() string { return filepath.Join(Root(), "known_findings.txt") }

// LoadFindings parses known_findings.txt. Lines:
//
//	finding: property=<id> sig=<signature> <what fails>
//	fixed: property=<id> <commit> <what failed>
func LoadFindings() []Finding {
	f, err := os.Open(FindingsPath())
	if err != nil {
		return nil
	}
	defer f.Close()
	var out []Finding
	sc := bufio.NewScanner(f)
	sc.Buffer(make([]byte, 1<<20), 1<<20)
	for sc.Scan() {
		line := strings.TrimSpace(sc.Text())
		if line == "" || strings.HasPrefix(line, "#") {
			continue
		}
		switch {
		case strings.HasPrefix(line, "finding:"):
			rest := strings.Fields(strings.TrimSpace(strings.TrimPrefix(line, "finding:")))
			fd := Finding{Kind: "finding"}
			var what []string
			for _, w := range rest {
				switch {
				case strings.HasPrefix(w, "property=") && fd.Property == "":
					fd.Property = strings.TrimPrefix(w, "property=")
				case strings.HasPrefix(w, "sig=") && fd.Signature == "":
					fd.Signature = strings.TrimPrefix(w, "sig=")
				default:
					what = append(what, w)
				}
			}
			fd.What = strings.Join(what, " ")
			out = append(out, fd)
		case strings.HasPrefix(line, "fixed:"):
			rest := strings.Fields(strings.TrimSpace(strings.TrimPrefix(line, "fixed:")))
			fd := Finding{Kind: "fixed"}
			if len(rest) >= 2 {
				fd.Property = strings.TrimPrefix(rest[0], "property=")
				fd.Commit = rest[1]
				fd.What = strings.Join(rest[2:], " ")
			}
			out = append(out, fd)
		}
	}
	return out
}

func (r *Run) known(sig string) (Finding, bool) {
	for _, f := range r.findings {
		if f.Kind == "finding" && f.Property == r.Prop && SigSubsumes(f.Signature, sig) {
			return f, true
		}
	}
	return Finding{}, false
}

// SigSubsumes reports whether the known signature covers the observed one.
// Signatures are either opaque strings (exact match) or "kind|f1+f2+..." where the
// feature list names the language features / circumstances of the minimal failing case:
// a known finding covers an observed failure of the same kind whose features include
// all of the known ones.
func SigSubsumes(known, observed string) bool {
	if known == observed {
		return true
	}
	kk, kf, ok1 := strings.Cut(known, "|")
	ok, of, ok2 := strings.Cut(observed, "|")
	if !ok1 || !ok2 || kk != ok {
		return false
	}
	have := map[string]bool{}
	for _, f := range strings.Split(of, "+") {
		have[f] = true
	}
	for _, f := range strings.Split(kf, "+") {
		if f != "" && !have[f] {
			return false
		}
	}
	return true
}

// Finish writes the evidence file, prints KNOWN-FINDING / VIOLATION lines and returns the exit code.
func (r *Run) Finish() int {
	r.mu.Lock()
	defer r.mu.Unlock()
	outDir := filepath.Join(Root(), "out", "replay", r.Prop)
	_ = os.MkdirAll(outDir, 0o755)
	code := ExitHeld
	newViol := 0
	var knownLines []string
	sort.Slice(r.violations, func(i, j int) bool { return r.violations[i].Signature < r.violations[j].Signature })
	for _, v := range r.violations {
		if f, ok := r.known(v.Signature); ok {
			knownLines = append(knownLines, fmt.Sprintf("KNOWN-FINDING: property=%s sig=%s %s", r.Prop, v.Signature, f.What))
			continue
		}
		newViol++
		h := sha1.Sum([]byte(v.Signature))
		p := filepath.Join(outDir, hex.EncodeToString(h[:6])+".json")
		b, _ := json.MarshalIndent(map[string]any{"property": r.Prop, "signature": v.Signature, "what": v.What, "replay": v.Replay}, "", " ")
		_ = os.WriteFile(p, b, 0o644)
		fmt.Fprintf(os.Stderr, "[%s] violation sig=%s: %s\n", r.Prop, v.Signature, v.What)
		fmt.Printf("VIOLATION property=%s replay=%s\n", r.Prop, p)
		code = ExitViolation
	}
	for _, l := range knownLines {
		fmt.Println(l)
	}
	if code == ExitHeld && len(r.inconclusive) > 0 {
		code = ExitInconclusive
	}
	r.writeEvidence(newViol, len(knownLines))
	fmt.Fprintf(os.Stderr, "[%s %s] done: exit=%d evaluations=%d nontrivial=%d states=%d traces=%d violations=%d known=%d wall=%.1fs\n",
		r.Prop, r.Tier, code, r.Evaluations, len(r.nontrivial), r.States, r.TracesVal, newViol, len(knownLines), time.Since(r.Start).Seconds())
	return code
}

func (r *Run) writeEvidence(newViol, known int) {
	cov := map[string]any{
		"evaluations":                   r.Evaluations,
		"distinct_nontrivial":           len(r.nontrivial),
		"rule":                          r.Rule,
		"samples":                       r.Samples,
		"states":                        r.States,
		"transitions":                   r.Transitions,
		"traces_validated_against_impl": r.TracesVal,
		"exhaustive":                    r.Exhaustive,
		"known_findings_reproduced":     known,
	}
	if len(r.inconclusive) > 0 {
		cov["inconclusive"] = r.inconclusive
	}
	for k, v := range r.Extra {
		cov[k] = v
	}
	if len(r.Samples) == 0 {
		cov["samples"] = []any{"(no case was explored)"}
	}
	ev := map[string]any{
		"property_id": r.Prop,
		"tier":        r.Tier,
		"seed":        r.Seed,
		"level":       "model_checking",
		"coverage":    cov,
		"assumptions": r.Assumptions,
		"wall_s":      time.Since(r.Start).Seconds(),
		"violations":  newViol,
	}
	b, _ := json.MarshalIndent(ev, "", " ")
	if !strings.HasPrefix(r.Prop, "C") { // development drivers are not properties
		return
	}
	dir := filepath.Join(Root(), "evidence")
	_ = os.MkdirAll(dir, 0o755)
	_ = os.WriteFile(filepath.Join(dir, r.Prop+".json"), b, 0o644)
}

// Hash is a short stable hash used for signatures.
func Hash(parts ...string) string {
	h := sha1.Sum([]byte(strings.Join(parts, "\x00")))
	return hex.EncodeToString(h[:5])
}
