// Package vf is the small framework shared by every property check:
// running TLC on the specification, collecting the cases / verdicts it emits,
// writing evidence files, matching violations against the known-findings file.
package vf

import (
	"bufio"
	"context"
	"encoding/json"
	"fmt"
	"io"
	"os"
	"os/exec"
	"path/filepath"
	"regexp"
	"strconv"
	"strings"
	"time"
)

const tlaJar = "/opt/veriftools/tla/tla2tools.jar:/opt/veriftools/tla/CommunityModules-deps.jar"

// Root returns /verif (or wherever the framework lives).
func Root() string {
	if r := os.Getenv("VERIF_ROOT"); r != "" {
		return r
	}
	return "/verif"
}

// TLCOpts describes one TLC run.
type TLCOpts struct {
	Module   string            // e.g. "Engine_MC" (file spec/Engine_MC.tla)
	Cfg      string            // cfg file name inside spec/ (or generated text if CfgText != "")
	CfgText  string            // if set, written as <Module>.gen.cfg and used
	Workers  int               // default 8
	Simulate string            // e.g. "num=1000" -> -simulate num=1000
	Depth    int               // -depth
	Seed     int64             // -seed (only used with Simulate)
	Timeout  time.Duration     // default 10 min
	Files    map[string][]byte // extra files to drop into the scratch dir (traces, generated modules)
	HeapMB   int               // -Xmx; default 8192
	DFS      bool              // use StateDeque
	Coverage bool
	OnOut    func(raw json.RawMessage) // called for every <<"OUT", "json">> line
	Quiet    bool
}

// TLCResult is what a run produced.
type TLCResult struct {
	Generated  int64
	Distinct   int64
	Depth      int
	ExitCode   int
	TimedOut   bool
	Violated   string // name of violated invariant / property, if any
	ErrorText  string // TLC error block (first lines)
	OutCount   int
	WallS      float64
	Tail       []string
	ZeroCov    []string // coverage lines with count 0 (only with Coverage)
	Marks      []string // lines printed by the specification itself (Print of a tuple starting with an upper-case tag)
	PostFailed bool
}

var (
	reStates   = regexp.MustCompile(`^(\d+) states generated, (\d+) distinct states found`)
	reDepth    = regexp.MustCompile(`^The depth of the complete state graph search is (\d+)`)
	reInv      = regexp.MustCompile(`^Error: Invariant (\S+) is violated`)
	reProp     = regexp.MustCompile(`^Error: Action property (\S+) is violated|^Error: Temporal properties were violated`)
	reSimState = regexp.MustCompile(`^The number of states generated: (\d+)`)
)

// Scratch creates a scratch directory outside /verif and /repo.
func Scratch(prefix string) string {
	base := os.Getenv("VERIF_SCRATCH")
	if base == "" {
		base = os.TempDir()
	}
	d, err := os.MkdirTemp(base, "verif-"+prefix+"-")
	if err != nil {
		panic(err)
	}
	return d
}

// RunTLC copies spec/ into a scratch directory, runs TLC there and removes the directory.
func RunTLC(o TLCOpts) (*TLCResult, error) {
	if o.Workers == 0 {
		o.Workers = 8
	}
	if o.Timeout == 0 {
		o.Timeout = 10 * time.Minute
	}
	if o.HeapMB == 0 {
		o.HeapMB = 8192
	}
	dir := Scratch("tlc")
	defer os.RemoveAll(dir)
	specDir := filepath.Join(Root(), "spec")
	ents, err := os.ReadDir(specDir)
	if err != nil {
		return nil, err
	}
	for _, e := range ents {
		if e.IsDir() {
			continue
		}
		n := e.Name()
		if strings.HasSuffix(n, ".tla") || strings.HasSuffix(n, ".cfg") {
			b, err := os.ReadFile(filepath.Join(specDir, n))
			if err != nil {
				return nil, err
			}
			if err := os.WriteFile(filepath.Join(dir, n), b, 0o644); err != nil {
				return nil, err
			}
		}
	}
	for n, b := range o.Files {
		if err := os.WriteFile(filepath.Join(dir, n), b, 0o644); err != nil {
			return nil, err
		}
	}
	cfg := o.Cfg
	if o.CfgText != "" {
		cfg = o.Module + ".gen.cfg"
		if err := os.WriteFile(filepath.Join(dir, cfg), []byte(o.CfgText), 0o644); err != nil {
			return nil, err
		}
	}
	// java.io.tmpdir: TLC unpacks its standard modules into a fresh tlc-* directory per run and leaves it behind
	args := []string{"-XX:+UseParallelGC", fmt.Sprintf("-Xmx%dm", o.HeapMB), "-Xss256m", "-Djava.io.tmpdir=" + dir}
	if o.DFS {
		args = append(args, "-Dtlc2.tool.queue.IStateQueue=StateDeque")
	}
	args = append(args, "-cp", tlaJar, "tlc2.TLC", "-workers", strconv.Itoa(o.Workers),
		"-metadir", filepath.Join(dir, "md"), "-config", cfg)
	if o.Simulate != "" {
		args = append(args, "-simulate", o.Simulate)
		if o.Depth > 0 {
			args = append(args, "-depth", strconv.Itoa(o.Depth))
		}
		args = append(args, "-seed", strconv.FormatInt(o.Seed, 10))
	}
	if o.Coverage {
		args = append(args, "-coverage", "1")
	}
	args = append(args, o.Module+".tla")

	ctx, cancel := context.WithTimeout(context.Background(), o.Timeout)
	defer cancel()
	cmd := exec.CommandContext(ctx, "java", args...)
	cmd.Dir = dir
	cmd.Env = append(os.Environ(), "JAVA_TOOL_OPTIONS=")
	stdout, err := cmd.StdoutPipe()
	if err != nil {
		return nil, err
	}
	cmd.Stderr = cmd.Stdout
	start := time.Now()
	if err := cmd.Start(); err != nil {
		return nil, err
	}
	res := &TLCResult{}
	rd := bufio.NewReaderSize(stdout, 1<<20)
	inErr := false
	for {
		line, err := readLine(rd)
		if err != nil {
			break
		}
		if strings.HasPrefix(line, `<<"OUT", "`) && strings.HasSuffix(line, `">>`) {
			res.OutCount++
			if o.OnOut != nil {
				raw := tlaUnescape(line[len(`<<"OUT", "`) : len(line)-len(`">>`)])
				o.OnOut(json.RawMessage(raw))
			}
			continue
		}
		if strings.HasPrefix(line, `<<"`) && len(res.Marks) < 50 {
			res.Marks = append(res.Marks, line)
		}
		if m := reStates.FindStringSubmatch(line); m != nil {
			res.Generated, _ = strconv.ParseInt(m[1], 10, 64)
			res.Distinct, _ = strconv.ParseInt(m[2], 10, 64)
		} else if m := reSimState.FindStringSubmatch(line); m != nil {
			res.Generated, _ = strconv.ParseInt(m[1], 10, 64)
			res.Distinct = res.Generated
		} else if m := reDepth.FindStringSubmatch(line); m != nil {
			res.Depth, _ = strconv.Atoi(m[1])
		} else if m := reInv.FindStringSubmatch(line); m != nil {
			res.Violated = m[1]
		} else if reProp.MatchString(line) {
			res.Violated = strings.TrimPrefix(line, "Error: ")
		}
		if strings.Contains(line, "Error: The postcondition") || strings.Contains(line, "POSTCONDITION") && strings.Contains(line, "violated") {
			res.PostFailed = true
		}
		if strings.HasPrefix(line, "Error:") {
			inErr = true
		}
		if inErr && len(res.ErrorText) < 6000 {
			res.ErrorText += line + "\n"
		}
		if o.Coverage && strings.HasSuffix(line, ": 0") && strings.HasPrefix(line, "<") {
			res.ZeroCov = append(res.ZeroCov, line)
		}
		res.Tail = append(res.Tail, line)
		if len(res.Tail) > 60 {
			res.Tail = res.Tail[1:]
		}
	}
	err = cmd.Wait()
	res.WallS = time.Since(start).Seconds()
	if ctx.Err() == context.DeadlineExceeded {
		res.TimedOut = true
	}
	if cmd.ProcessState != nil {
		res.ExitCode = cmd.ProcessState.ExitCode()
	}
	_ = err
	return res, nil
}

func readLine(rd *bufio.Reader) (string, error) {
	var sb strings.Builder
	for {
		part, isPrefix, err := rd.ReadLine()
		if err != nil {
			if err == io.EOF && sb.Len() > 0 {
				return sb.String(), nil
			}
			return "", err
		}
		sb.Write(part)
		if !isPrefix {
			return sb.String(), nil
		}
	}
}

// tlaUnescape undoes TLC's string printing escapes (\" and \\ ; \n \t kept as JSON escapes).
func tlaUnescape(s string) string {
	if !strings.Contains(s, `\`) {
		return s
	}
	var sb strings.Builder
	for i := 0; i < len(s); i++ {
		if s[i] == '\\' && i+1 < len(s) {
			switch s[i+1] {
			case '"':
				sb.WriteByte('"')
				i++
				continue
			case '\\':
				sb.WriteByte('\\')
				i++
				continue
			}
		}
		sb.WriteByte(s[i])
	}
	return sb.String()
}

// OK reports whether the run completed without TLC-level errors.
func (r *TLCResult) OK() bool {
	return !r.TimedOut && r.ExitCode == 0 && r.Violated == "" && !r.PostFailed
}

func (r *TLCResult) Describe() string {
	return fmt.Sprintf("exit=%d timedOut=%v violated=%q generated=%d distinct=%d depth=%d out=%d wall=%.1fs",
		r.ExitCode, r.TimedOut, r.Violated, r.Generated, r.Distinct, r.Depth, r.OutCount, r.WallS)
}
